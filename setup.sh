#!/bin/sh
# MANIFEST.setup_cmd: build everything the claimed checks need from files on disk only (offline).
set -e
cd "$(dirname "$0")"
export CARGO_NET_OFFLINE=true
mkdir -p .cache/tmp coq/Gen
python3 - <<'PY'
import sys, os, json, importlib
sys.path.insert(0, os.getcwd())
import vlib
claimed = {k: v for k, v in json.load(open("tools/checks.json")).items() if not k.startswith("_")}
# translator outputs first (Gen/*.v)
for pid in sorted(claimed):
    m = importlib.import_module("props." + pid.lower())
    if hasattr(m, "translate"):
        print("translate", pid, m.translate(None))
targets = sorted({t for v in claimed.values() for t in v.get("coq_targets", [])})
ok, log = vlib.coq_make(targets, timeout=3000)
print(log[-2000:])
if not ok:
    sys.exit("coq build failed")
bins = sorted({b for v in claimed.values() for b in v.get("bins", [])})
ok, log, _ = vlib.cargo_build(bins, timeout=3000)
print(log[-2000:])
if not ok:
    sys.exit("cargo build failed")
# anything else a claimed check wants pre-built (e.g. the pgcat binary itself for C17)
for pid in sorted(claimed):
    m = importlib.import_module("props." + pid.lower())
    if hasattr(m, "setup_extra"):
        print("setup_extra", pid, str(m.setup_extra())[-600:])
PY
echo setup-ok
