#!/bin/sh
# MANIFEST.setup_cmd: build everything the checks need from files on disk only (offline).
set -e
cd "$(dirname "$0")"
export CARGO_NET_OFFLINE=true
mkdir -p .cache/tmp coq/Gen
python3 - <<'PY'
import sys, os
sys.path.insert(0, os.getcwd())
import vlib, importlib, glob
# translator outputs first (Gen/*.v), then a full Coq build, then every harness binary
for f in sorted(glob.glob("props/c[0-9]*.py")):
    m = importlib.import_module("props." + os.path.basename(f)[:-3])
    if hasattr(m, "translate"):
        r = m.translate(None)
        print("translate", f, r)
ok, log = vlib.coq_make([f[:-2] + ".vo" for f in vlib.coq_files()], timeout=3000)
print(log[-2000:])
if not ok:
    sys.exit("coq build failed")
bins = sorted(os.path.basename(f)[:-3] for f in glob.glob("harness/src/bin/*.rs"))
ok, log, _ = vlib.cargo_build(bins, timeout=3000)
print(log[-2000:])
if not ok:
    sys.exit("cargo build failed")
PY
echo setup-ok
