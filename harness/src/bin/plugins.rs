//! Library-level driver for C19: what the plugins are shown of a message and what they answer.
//! stdin: one JSON object per line {settings:{plugins,user,db,parser}, steps:[{sql|hex, proto}]};
//! stdout: one JSON object per line {out:[...]}.
//! Per step: parse status, per statement the re-rendered text (hex of Statement::to_string()),
//! the COPY/DROP names and the relations sqlparser's visit_relations reports (identifier
//! value as hex + quoted flag), and the real verdict of QueryRouter::execute_plugins.
use bytes::{BufMut, BytesMut};
use pgcat::config::Plugins;
use pgcat::plugins::PluginOutput;
use pgcat::pool::PoolSettings;
use pgcat::query_router::QueryRouter;
use serde_json::{json, Value};
use sqlparser::ast::{visit_relations, CopySource, ObjectName, Statement};
use std::io::{BufRead, Write};
use std::ops::ControlFlow;
use vh::util::*;

fn settings(v: &Value) -> PoolSettings {
    let mut s = PoolSettings::default();
    s.query_parser_enabled = v.get("parser").and_then(|x| x.as_bool()).unwrap_or(true);
    if let Some(p) = v.get("plugins") {
        if !p.is_null() {
            let plugins: Plugins = serde_json::from_value(p.clone()).expect("plugins json");
            s.plugins = Some(plugins);
        }
    }
    if let Some(n) = v.get("parser_max_length").and_then(|x| x.as_u64()) {
        s.query_parser_max_length = Some(n as usize);
    }
    s.db = v.get("db").and_then(|x| x.as_str()).unwrap_or("db").to_string();
    if let Some(u) = v.get("user").and_then(|x| x.as_str()) {
        s.user.username = u.to_string();
    }
    s
}

fn msg(code: u8, body: &[u8]) -> BytesMut {
    let mut b = BytesMut::new();
    b.put_u8(code);
    b.put_i32(body.len() as i32 + 4);
    b.put_slice(body);
    b
}

fn qmsg(proto: &str, sql: &[u8]) -> BytesMut {
    let mut body = Vec::new();
    if proto == "P" {
        body.push(0u8);
        body.extend_from_slice(sql);
        body.push(0);
        body.extend_from_slice(&[0, 0]);
        msg(b'P', &body)
    } else {
        body.extend_from_slice(sql);
        body.push(0);
        msg(b'Q', &body)
    }
}

fn name_json(n: &ObjectName) -> Value {
    Value::Array(
        n.0.iter()
            .map(|i| json!({"v": hex(i.value.as_bytes()), "q": i.quote_style.is_some()}))
            .collect(),
    )
}

fn stmt_json(s: &Statement) -> Value {
    let mut explicit = Vec::new();
    match s {
        Statement::Copy {
            source: CopySource::Table { table_name, .. },
            ..
        } => explicit.push(name_json(table_name)),
        Statement::Drop { names, .. } => {
            for n in names {
                explicit.push(name_json(n));
            }
        }
        _ => {}
    }
    let mut visited = Vec::new();
    let _ = visit_relations(s, |r: &ObjectName| {
        visited.push(name_json(r));
        ControlFlow::<()>::Continue(())
    });
    let d = format!("{:?}", s);
    let kind = d.split(|c: char| !c.is_alphanumeric()).next().unwrap_or("").to_string();
    json!({"norm": hex(s.to_string().as_bytes()), "explicit": explicit, "visited": visited, "kind": kind})
}

async fn run_case(case: &Value) -> Value {
    let ps = settings(&case["settings"]);
    let mut qr = QueryRouter::new();
    qr.update_pool_settings(&ps);
    let mut outs = Vec::new();
    for step in case["steps"].as_array().unwrap() {
        let proto = step.get("proto").and_then(|x| x.as_str()).unwrap_or("Q");
        let sql: Vec<u8> = if let Some(h) = step.get("hex").and_then(|x| x.as_str()) {
            unhex(h)
        } else {
            step.get("sql").and_then(|x| x.as_str()).unwrap_or("").as_bytes().to_vec()
        };
        let m = qmsg(proto, &sql);
        let mut o = json!({});
        match guarded(|| qr.parse(&m)) {
            Ok(Ok(ast)) => {
                o["parse"] = json!("ok");
                o["stmts"] = Value::Array(ast.iter().map(stmt_json).collect());
                // execute_plugins is async and may panic (schema entry with < 2 strings):
                // run it on its own task so the panic is observed as a JoinError
                let ps2 = ps.clone();
                let ast2 = ast.clone();
                let h = tokio::spawn(async move {
                    let mut qr2 = QueryRouter::new();
                    qr2.update_pool_settings(&ps2);
                    qr2.execute_plugins(&ast2).await
                });
                match h.await {
                    Ok(Ok(PluginOutput::Deny(e))) => o["plugin"] = json!(["deny", hex(e.as_bytes())]),
                    Ok(Ok(PluginOutput::Intercept(b))) => o["plugin"] = json!(["intercept", hex(&b)]),
                    Ok(Ok(PluginOutput::Allow)) => o["plugin"] = json!(["allow"]),
                    Ok(Ok(_)) => o["plugin"] = json!(["other"]),
                    Ok(Err(_)) => o["plugin"] = json!(["err"]),
                    Err(_) => o["plugin"] = json!(["panic"]),
                }
            }
            Ok(Err(_)) => o["parse"] = json!("err"),
            Err(p) => o["panic"] = json!(p),
        }
        outs.push(o);
    }
    json!({"out": outs})
}

#[tokio::main(flavor = "current_thread")]
async fn main() {
    quiet_panics();
    QueryRouter::setup();
    let stdin = std::io::stdin();
    let stdout = std::io::stdout();
    let mut out = stdout.lock();
    for line in stdin.lock().lines() {
        let line = line.unwrap();
        if line.trim().is_empty() {
            continue;
        }
        let case: Value = serde_json::from_str(&line).expect("json");
        let r = run_case(&case).await;
        writeln!(out, "{}", r).unwrap();
    }
}
