//! C03: library-level driver for pgcat::messages::read_message on a byte stream that arrives in
//! segments (the tie of coq/Relay/Model.v parse_frame / parse_avail / feed_all).
//! stdin: one JSON object per line {"hex": <stream>, "cuts": [byte offsets]}; stdout: one JSON
//! object per line {"frames": [hex of each message as returned], "end": eof|eof_in_frame|bad_length|panic|other}.
//! The reader hands out the bytes of one segment per poll at most and returns Pending between
//! segments, so read_u8 / read_i32 / read_exact see every header and body cut where `cuts` says.
use serde_json::{json, Value};
use std::io::{BufRead, Write};
use std::pin::Pin;
use std::task::{Context, Poll};
use tokio::io::{AsyncRead, ReadBuf};
use vh::util::*;

struct SegReader {
    data: Vec<u8>,
    cuts: Vec<usize>, // sorted segment ends, last = data.len()
    pos: usize,
    seg: usize,
    pending_next: bool,
}

impl AsyncRead for SegReader {
    fn poll_read(mut self: Pin<&mut Self>, cx: &mut Context<'_>, buf: &mut ReadBuf<'_>) -> Poll<std::io::Result<()>> {
        if self.pos >= self.data.len() {
            return Poll::Ready(Ok(())); // EOF
        }
        if self.pending_next {
            // the next segment "has not arrived yet": one Pending between segments
            self.pending_next = false;
            cx.waker().wake_by_ref();
            return Poll::Pending;
        }
        let end = self.cuts[self.seg];
        let n = (end - self.pos).min(buf.remaining());
        let (a, b) = (self.pos, self.pos + n);
        buf.put_slice(&self.data[a..b]);
        self.pos = b;
        if self.pos >= end {
            self.seg += 1;
            self.pending_next = true;
        }
        Poll::Ready(Ok(()))
    }
}

fn run(v: &Value, rt: &tokio::runtime::Runtime) -> Value {
    let data = unhex(v["hex"].as_str().unwrap_or(""));
    let mut cuts: Vec<usize> = v.get("cuts").and_then(|x| x.as_array()).map(|a| a.iter().map(|x| x.as_u64().unwrap_or(0) as usize).collect()).unwrap_or_default();
    cuts.retain(|c| *c > 0 && *c < data.len());
    cuts.sort();
    cuts.dedup();
    cuts.push(data.len());
    let mut frames: Vec<String> = vec![];
    let mut r = SegReader { data, cuts, pos: 0, seg: 0, pending_next: false };
    let end;
    loop {
        let res = guarded(|| rt.block_on(async { pgcat::messages::read_message(&mut r).await }));
        match res {
            Ok(Ok(m)) => frames.push(hex(&m)),
            Ok(Err(e)) => {
                let s = format!("{:?}", e);
                end = if s.contains("Unexpected length value") {
                    "bad_length"
                } else if s.contains("Error reading message code") {
                    "eof"
                } else if s.contains("Error reading message len") || s.contains("Error reading message from socket") {
                    "eof_in_frame"
                } else {
                    "other"
                };
                break;
            }
            Err(_) => {
                end = "panic";
                break;
            }
        }
    }
    json!({"frames": frames, "end": end, "consumed": r.pos})
}

fn main() {
    quiet_panics();
    let rt = tokio::runtime::Builder::new_current_thread().enable_all().build().unwrap();
    let stdin = std::io::stdin();
    let mut out = std::io::stdout();
    for line in stdin.lock().lines() {
        let line = match line {
            Ok(l) => l,
            Err(_) => break,
        };
        if line.trim().is_empty() {
            continue;
        }
        let v: Value = match serde_json::from_str(&line) {
            Ok(v) => v,
            Err(e) => {
                let _ = writeln!(out, "{}", json!({"error": e.to_string()}));
                continue;
            }
        };
        let r = run(&v, &rt);
        let _ = writeln!(out, "{}", r);
    }
}
