//! C09: quality of the salts md5_challenge issues, and a directed replay probe.
//! pgcat runs in-process (one pool over one mock backend).  For each round: log in once with the
//! right password and record (salt, PasswordMessage); then open fresh connections that stop after
//! the AuthenticationMD5Password frame, collecting every salt, until the recorded salt is issued
//! again or `tries` connections were made; if it recurs, answer with the RECORDED message.
//! A further round is only run when the replay of the previous round was admitted.  Afterwards bare
//! handshakes continue until `tries` salts were collected in total.
//! stdin: {"toml", "user", "database", "password", "tries", "rounds"}  stdout: one JSON object.
use serde_json::{json, Value};
use std::io::Read;
use std::sync::Arc;
use vh::client::{self, Client};
use vh::mockpg::{Backend, Log};
use vh::pooler;
use vh::util::*;

async fn challenge(port: u16, pkt: &[u8]) -> Option<(Client, Vec<u8>)> {
    let mut c = Client::connect(port).await?;
    if !c.send_raw(pkt, &[]).await {
        return None;
    }
    let (frames, _) = c.recv("RE", 1, 3000, false).await;
    let last = frames.last()?;
    if last["t"] == "R" && last["auth"] == 5 {
        let salt = unhex(last["salt"].as_str().unwrap_or(""));
        return Some((c, salt));
    }
    None
}

async fn answer(c: &mut Client, msg: &[u8]) -> bool {
    c.send_raw(msg, &[]).await;
    let (frames, _) = c.recv("ZE", 1, 3000, false).await;
    frames.iter().any(|f| f["t"] == "R" && f["auth"] == 0)
}

async fn run(scn: Value) -> Value {
    let log: Log = Arc::new(parking_lot::Mutex::new(Vec::new()));
    let be = Backend::start("b0", log.clone(), None).await;
    let dir = format!("{}/saltprobe_{}", scn["tmpdir"].as_str().unwrap_or("/verif/.cache/tmp"), std::process::id());
    let _ = std::fs::create_dir_all(&dir);
    let cfg_path = format!("{}/pgcat.toml", dir);
    std::fs::write(&cfg_path, scn["toml"].as_str().unwrap_or("").replace("@PORT:b0@", &be.port.to_string())).unwrap();
    let p = match pooler::start(&cfg_path, false).await {
        Ok(p) => p,
        Err(e) => {
            let _ = std::fs::remove_dir_all(&dir);
            return json!({"start_error": e});
        }
    };
    let user = scn["user"].as_str().unwrap_or("");
    let pw = scn["password"].as_str().unwrap_or("");
    let tries = scn["tries"].as_u64().unwrap_or(3000) as usize;
    let rounds = scn["rounds"].as_u64().unwrap_or(2) as usize;
    let pkt = client::startup_packet(&json!({"user": user, "database": scn["database"]}));
    let mut salts: Vec<String> = vec![];
    let mut logins = vec![];
    let mut replays = vec![];
    let mut failures = 0usize;
    for round in 0..rounds {
        // a successful login; its salt and answer are what an eavesdropper would hold
        let (mut c, salt0) = match challenge(p.port, &pkt).await {
            Some(x) => x,
            None => {
                logins.push(json!({"round": round, "ok": false, "why": "no MD5 challenge"}));
                break;
            }
        };
        let recorded = client::frame(b'p', &pgcat::messages::md5_hash_password(user, pw, &salt0));
        let ok = answer(&mut c, &recorded).await;
        drop(c);
        salts.push(hex(&salt0));
        logins.push(json!({"round": round, "ok": ok, "salt": hex(&salt0), "response": hex(&recorded)}));
        if !ok {
            break;
        }
        let mut admitted = false;
        for t in 0..tries {
            match challenge(p.port, &pkt).await {
                Some((mut c, salt)) => {
                    salts.push(hex(&salt));
                    if salt == salt0 {
                        admitted = answer(&mut c, &recorded).await;
                        replays.push(json!({"round": round, "try": t, "salt": hex(&salt), "admitted": admitted}));
                        break;
                    }
                }
                None => failures += 1,
            }
        }
        if !admitted {
            break;
        }
    }
    while salts.len() < tries && failures < 50 {
        match challenge(p.port, &pkt).await {
            Some((_, salt)) => salts.push(hex(&salt)),
            None => failures += 1,
        }
    }
    let _ = std::fs::remove_dir_all(&dir);
    json!({"salts": salts, "logins": logins, "replays": replays, "failures": failures})
}

fn main() {
    if std::env::var("VH_PANIC_TRACE").is_err() {
        quiet_panics();
    }
    let mut inp = String::new();
    std::io::stdin().read_to_string(&mut inp).unwrap();
    let scn: Value = serde_json::from_str(&inp).expect("json");
    let rt = tokio::runtime::Builder::new_multi_thread().worker_threads(2).enable_all().build().unwrap();
    let out = rt.block_on(run(scn));
    println!("{}", out);
    std::process::exit(0);
}
