//! C17: standalone mock PostgreSQL backends for the REAL pgcat binary.
//! First stdin line: {"backends":[{"name":"b0","md5":[user,pw]?}, ..]}  ->  stdout {"ports":{"b0":port,..}}
//! Then one JSON command per stdin line:
//!   {"op":"dump"}                         -> {"events":[..]}   (the mock backends' event log so far)
//!   {"op":"flood","port":p,"tasks":n,"ms":d} -> {"flood":{"sent":k}} after d ms of bogus CancelRequests
//!                                            (n concurrent connections) against 127.0.0.1:p
//!   {"op":"quit"} or EOF                  -> final {"events":[..]} and exit
use serde_json::{json, Value};
use std::collections::HashMap;
use std::sync::atomic::{AtomicU64, Ordering};
use std::sync::Arc;
use tokio::io::{AsyncBufReadExt, AsyncWriteExt, BufReader};
use vh::mockpg::{Backend, Log};

async fn flood(port: u16, tasks: u64, ms: u64) -> u64 {
    let sent = Arc::new(AtomicU64::new(0));
    let deadline = std::time::Instant::now() + std::time::Duration::from_millis(ms);
    let mut hs = vec![];
    for t in 0..tasks {
        let sent = sent.clone();
        hs.push(tokio::spawn(async move {
            let mut pkt = vec![];
            pkt.extend(16i32.to_be_bytes());
            pkt.extend(80877102i32.to_be_bytes());
            pkt.extend((1000 + t as i32).to_be_bytes()); // a pid/key nobody owns
            pkt.extend(7i32.to_be_bytes());
            while std::time::Instant::now() < deadline {
                if let Ok(mut s) = tokio::net::TcpStream::connect(("127.0.0.1", port)).await {
                    if s.write_all(&pkt).await.is_ok() {
                        sent.fetch_add(1, Ordering::Relaxed);
                    }
                } else {
                    tokio::time::sleep(std::time::Duration::from_millis(1)).await;
                }
            }
        }));
    }
    for h in hs {
        let _ = h.await;
    }
    sent.load(Ordering::Relaxed)
}

fn out(v: Value) {
    use std::io::Write;
    let mut o = std::io::stdout().lock();
    let _ = writeln!(o, "{}", v);
    let _ = o.flush();
}

async fn run() {
    let log: Log = Arc::new(parking_lot::Mutex::new(Vec::new()));
    let mut lines = BufReader::new(tokio::io::stdin()).lines();
    let first = match lines.next_line().await {
        Ok(Some(l)) => l,
        _ => return,
    };
    let cfg: Value = serde_json::from_str(&first).unwrap_or(json!({}));
    let mut ports: HashMap<String, u16> = HashMap::new();
    let mut keep = vec![];
    let empty = vec![];
    for b in cfg["backends"].as_array().unwrap_or(&empty) {
        let name = b["name"].as_str().unwrap_or("b0").to_string();
        let md5 = b.get("md5").and_then(|m| m.as_array()).map(|a| (a[0].as_str().unwrap_or("").to_string(), a[1].as_str().unwrap_or("").to_string()));
        let be = Backend::start(&name, log.clone(), md5).await;
        ports.insert(name, be.port);
        keep.push(be);
    }
    out(json!({ "ports": ports }));
    loop {
        let l = match lines.next_line().await {
            Ok(Some(l)) => l,
            _ => break,
        };
        let cmd: Value = match serde_json::from_str(&l) {
            Ok(v) => v,
            Err(_) => continue,
        };
        match cmd["op"].as_str().unwrap_or("") {
            "dump" => out(json!({"events": log.lock().clone()})),
            "flood" => {
                let port = cmd["port"].as_u64().unwrap_or(0) as u16;
                let tasks = cmd["tasks"].as_u64().unwrap_or(8);
                let ms = cmd["ms"].as_u64().unwrap_or(200);
                tokio::spawn(async move {
                    let n = flood(port, tasks, ms).await;
                    out(json!({"flood": {"sent": n}}));
                });
            }
            "quit" => break,
            _ => {}
        }
    }
    out(json!({"events": log.lock().clone()}));
}

fn main() {
    vh::util::quiet_panics();
    let rt = tokio::runtime::Builder::new_multi_thread().worker_threads(4).enable_all().build().unwrap();
    rt.block_on(run());
    std::process::exit(0);
}
