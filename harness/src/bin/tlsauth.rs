//! C09: the authentication handshake over TLS.  Same scenario format and event log as `wire`
//! (steps: connect / send / recv / close / sleep / wait_tasks / control / backend{shadow}), but every client first sends an
//! SSLRequest, performs a rustls handshake (no certificate verification) when pgcat answers 'S',
//! and then speaks the protocol inside the TLS channel.  pgcat runs in-process with
//! general.tls_certificate / tls_private_key set (the scenario's toml names the files).
use bytes::{BufMut, BytesMut};
use serde_json::{json, Value};
use std::collections::HashMap;
use std::io::Read;
use std::sync::Arc;
use tokio::io::{AsyncReadExt, AsyncWriteExt};
use tokio::net::TcpStream;
use tokio_rustls::rustls::{self, client::ServerCertVerified, client::ServerCertVerifier, Certificate, ServerName};
use tokio_rustls::{client::TlsStream, TlsConnector};
use vh::client;
use vh::mockpg::{self, Backend, Log};
use vh::pooler;
use vh::util::*;

struct NoVerify;
impl ServerCertVerifier for NoVerify {
    fn verify_server_cert(
        &self,
        _end_entity: &Certificate,
        _intermediates: &[Certificate],
        _server_name: &ServerName,
        _scts: &mut dyn Iterator<Item = &[u8]>,
        _ocsp_response: &[u8],
        _now: std::time::SystemTime,
    ) -> Result<ServerCertVerified, rustls::Error> {
        Ok(ServerCertVerified::assertion())
    }
}

enum Stream {
    Tls(Box<TlsStream<TcpStream>>),
    Plain(TcpStream),
}

impl Stream {
    async fn write_all(&mut self, b: &[u8]) -> bool {
        match self {
            Stream::Tls(s) => s.write_all(b).await.is_ok() && s.flush().await.is_ok(),
            Stream::Plain(s) => s.write_all(b).await.is_ok() && s.flush().await.is_ok(),
        }
    }
    async fn read_exact(&mut self, b: &mut [u8]) -> std::io::Result<usize> {
        match self {
            Stream::Tls(s) => s.read_exact(b).await,
            Stream::Plain(s) => s.read_exact(b).await,
        }
    }
}

/// frames until `count` frames with a tag in `until`, EOF or `timeout_ms` of silence
async fn recv(s: &mut Stream, until: &str, count: usize, timeout_ms: u64) -> (Vec<Value>, &'static str) {
    let mut frames = vec![];
    let mut seen = 0;
    let to = std::time::Duration::from_millis(timeout_ms);
    loop {
        if count > 0 && seen >= count {
            return (frames, "ok");
        }
        let mut hdr = [0u8; 5];
        match tokio::time::timeout(to, s.read_exact(&mut hdr)).await {
            Err(_) => return (frames, "timeout"),
            Ok(Err(_)) => return (frames, "closed"),
            Ok(Ok(_)) => {}
        }
        let len = i32::from_be_bytes([hdr[1], hdr[2], hdr[3], hdr[4]]);
        if !(4..=1 << 24).contains(&len) {
            frames.push(json!({"t": "?", "bad_len": len, "code": hdr[0]}));
            return (frames, "garbage");
        }
        let mut body = vec![0u8; len as usize - 4];
        match tokio::time::timeout(std::time::Duration::from_millis(3000), s.read_exact(&mut body)).await {
            Err(_) => return (frames, "timeout-in-frame"),
            Ok(Err(_)) => return (frames, "closed-in-frame"),
            Ok(Ok(_)) => {}
        }
        frames.push(client::decode(hdr[0], &body, true));
        if until.as_bytes().contains(&hdr[0]) {
            seen += 1;
        }
    }
}

fn edit_response(h: &mut Vec<u8>, e: &Value) -> Vec<u8> {
    if let Some(n) = e.get("trunc").and_then(|x| x.as_u64()) {
        h.truncate(n as usize);
    }
    if let Some(i) = e.get("xor_at").and_then(|x| x.as_u64()) {
        if (i as usize) < h.len() {
            h[i as usize] ^= 1;
        }
    }
    if let Some(a) = e.get("append").and_then(|x| x.as_str()) {
        h.extend(unhex(a));
    }
    let declared = e.get("declared_len").and_then(|x| x.as_i64()).map(|x| x as i32).unwrap_or(h.len() as i32 + 4);
    let tag = e.get("tag").and_then(|x| x.as_str()).and_then(|t| t.as_bytes().first().cloned()).unwrap_or(b'p');
    let mut f = vec![tag];
    f.extend(declared.to_be_bytes());
    f.extend(h.iter());
    if let Some(a) = e.get("after").and_then(|x| x.as_str()) {
        f.extend(unhex(a));
    }
    if let Some(n) = e.get("partial").and_then(|x| x.as_u64()) {
        f.truncate(n as usize);
    }
    f
}

async fn run(scn: Value) -> Value {
    let log: Log = Arc::new(parking_lot::Mutex::new(Vec::new()));
    let mut backends: HashMap<String, Arc<Backend>> = HashMap::new();
    let empty = vec![];
    for b in scn["backends"].as_array().unwrap_or(&empty) {
        let name = b["name"].as_str().unwrap().to_string();
        let be = Backend::start(&name, log.clone(), None).await;
        if let Some(sh) = b.get("shadow").and_then(|x| x.as_object()) {
            let mut g = be.shadow.lock();
            for (k, v) in sh {
                g.insert(k.clone(), v.as_str().unwrap_or("").to_string());
            }
        }
        backends.insert(name, be);
    }
    let dir = format!("{}/tlsauth_{}", scn["tmpdir"].as_str().unwrap_or("/verif/.cache/tmp"), std::process::id());
    let _ = std::fs::create_dir_all(&dir);
    let cfg_path = format!("{}/pgcat.toml", dir);
    let mut toml = scn["toml"].as_str().unwrap_or("").to_string();
    for (n, b) in &backends {
        toml = toml.replace(&format!("@PORT:{}@", n), &b.port.to_string());
    }
    std::fs::write(&cfg_path, toml).unwrap();
    let mut result = json!({});
    let p = match pooler::start(&cfg_path, false).await {
        Ok(p) => p,
        Err(e) => {
            result["start_error"] = json!(e);
            let _ = std::fs::remove_dir_all(&dir);
            return result;
        }
    };
    let tls_cfg = rustls::ClientConfig::builder()
        .with_safe_defaults()
        .with_custom_certificate_verifier(Arc::new(NoVerify))
        .with_no_client_auth();
    let connector = TlsConnector::from(Arc::new(tls_cfg));
    let mut clients: HashMap<String, Stream> = HashMap::new();
    for step in scn["steps"].as_array().unwrap_or(&empty) {
        let op = step["op"].as_str().unwrap_or("");
        let cname = step["c"].as_str().unwrap_or("c").to_string();
        let to = step["timeout_ms"].as_u64().unwrap_or(3000);
        match op {
            "connect" => {
                let mut tcp = match TcpStream::connect(("127.0.0.1", p.port)).await {
                    Ok(s) => s,
                    Err(_) => {
                        mockpg::log_event(&log, json!({"who": cname, "ev": "connect_failed"}));
                        continue;
                    }
                };
                let _ = tcp.set_nodelay(true);
                let mut req = BytesMut::new();
                req.put_i32(8);
                req.put_i32(80877103);
                let _ = tcp.write_all(&req).await;
                let mut one = [0u8; 1];
                let ssl_byte = match tokio::time::timeout(std::time::Duration::from_millis(to), tcp.read_exact(&mut one)).await {
                    Ok(Ok(_)) => Some(one[0]),
                    _ => None,
                };
                let no_handshake = step.get("no_handshake").and_then(|x| x.as_bool()).unwrap_or(false);
                let mut s = if ssl_byte == Some(b'S') && !no_handshake {
                    match connector.connect(ServerName::try_from("localhost").unwrap(), tcp).await {
                        Ok(t) => Stream::Tls(Box::new(t)),
                        Err(e) => {
                            mockpg::log_event(&log, json!({"who": cname, "ev": "tls_failed", "err": e.to_string()}));
                            continue;
                        }
                    }
                } else {
                    Stream::Plain(tcp)
                };
                let tls = matches!(s, Stream::Tls(_));
                let pkt = unhex(step["raw_startup"].as_str().unwrap_or(""));
                let sent = s.write_all(&pkt).await;
                mockpg::log_event(&log, json!({"who": cname, "ev": "startup_sent", "ok": sent, "tls": tls}));
                let (mut frames, mut outcome) = recv(&mut s, "RZE", 1, to).await;
                let mut resp_hex = Value::Null;
                if let Some(last) = frames.last().cloned() {
                    if last["t"] == "R" && last["auth"] == 5 {
                        let salt = unhex(last["salt"].as_str().unwrap_or(""));
                        let resp = match step.get("password_raw") {
                            Some(v) if !v.is_null() => client::encode(v),
                            _ => {
                                let user = step["auth_user"].as_str().unwrap_or("");
                                let pw = step["password"].as_str().unwrap_or("");
                                let salt_used = step.get("salt_override").and_then(|x| x.as_str()).map(unhex).unwrap_or(salt.clone());
                                let mut h = pgcat::messages::md5_hash_password(user, pw, &salt_used);
                                match step.get("resp_edit") {
                                    Some(e) if e.is_object() => edit_response(&mut h, e),
                                    _ => client::frame(b'p', &h),
                                }
                            }
                        };
                        s.write_all(&resp).await;
                        resp_hex = json!(hex(&resp));
                        let (f2, o2) = recv(&mut s, "ZE", 1, to).await;
                        frames.extend(f2);
                        outcome = o2;
                    } else if last["t"] == "R" && last["auth"] == 0 {
                        let (f2, o2) = recv(&mut s, "ZE", 1, to).await;
                        frames.extend(f2);
                        outcome = o2;
                    }
                }
                let authed = frames.iter().any(|f| f["t"] == "R" && f["auth"] == 0);
                mockpg::log_event(&log, json!({"who": cname, "ev": "startup_done", "frames": frames, "outcome": outcome, "auth_ok": authed,
                                               "resp_hex": resp_hex, "ssl_byte": ssl_byte.map(|b| (b as char).to_string()), "tls": tls}));
                clients.insert(cname, s);
            }
            "send" => {
                if let Some(s) = clients.get_mut(&cname) {
                    let mut bytes = vec![];
                    for m in step["msgs"].as_array().unwrap_or(&empty) {
                        bytes.extend(client::encode(m));
                    }
                    let ok = s.write_all(&bytes).await;
                    mockpg::log_event(&log, json!({"who": cname, "ev": "sent", "ok": ok, "nbytes": bytes.len(), "hex": hex(&bytes)}));
                }
            }
            "recv" => {
                if let Some(s) = clients.get_mut(&cname) {
                    let (frames, outcome) = recv(s, step["until"].as_str().unwrap_or("Z"), step["count"].as_u64().unwrap_or(1) as usize, to).await;
                    mockpg::log_event(&log, json!({"who": cname, "ev": "recv", "frames": frames, "outcome": outcome, "label": step["label"]}));
                }
            }
            "close" => {
                if let Some(mut s) = clients.remove(&cname) {
                    if let Stream::Tls(t) = &mut s {
                        let _ = tokio::time::timeout(std::time::Duration::from_millis(200), t.shutdown()).await;
                    }
                    drop(s);
                    mockpg::log_event(&log, json!({"who": cname, "ev": "closed_by_client"}));
                }
            }
            "sleep" => tokio::time::sleep(std::time::Duration::from_millis(step["ms"].as_u64().unwrap_or(10))).await,
            "control" => {
                // the transcription of main.rs's signal arms (pooler.rs): "int" sets admin_only for later accepts
                let c = match step["sig"].as_str().unwrap_or("") {
                    "int" => pooler::Control::Sigint,
                    "term" => pooler::Control::Sigterm,
                    _ => pooler::Control::Sighup,
                };
                let _ = p.control.send(c).await;
                mockpg::log_event(&log, json!({"who": "harness", "ev": "control", "sig": step["sig"]}));
            }
            "backend" => {
                // replace the auth_query answers of a mock backend
                if let Some(b) = backends.get(step["b"].as_str().unwrap_or("")) {
                    if let Some(sh) = step.get("shadow").and_then(|x| x.as_object()) {
                        let mut g = b.shadow.lock();
                        g.clear();
                        for (k, v) in sh {
                            g.insert(k.clone(), v.as_str().unwrap_or("").to_string());
                        }
                    }
                    mockpg::log_event(&log, json!({"who": "harness", "ev": "backend_mode", "b": step["b"]}));
                }
            }
            "wait_tasks" => {
                let n = step["n"].as_u64().unwrap_or(0) as usize;
                let t0 = std::time::Instant::now();
                while p.task_results.lock().len() < n && (t0.elapsed().as_millis() as u64) < to {
                    tokio::time::sleep(std::time::Duration::from_millis(2)).await;
                }
                let tr = p.task_results.lock().clone();
                mockpg::log_event(&log, json!({"who": "harness", "ev": "wait_tasks", "n": n, "label": step["label"], "task_results": tr}));
            }
            _ => {}
        }
    }
    result["events"] = json!(log.lock().clone());
    result["task_results"] = json!(p.task_results.lock().clone());
    let _ = std::fs::remove_dir_all(&dir);
    result
}

fn main() {
    if std::env::var("VH_PANIC_TRACE").is_err() {
        quiet_panics();
    }
    let mut inp = String::new();
    std::io::stdin().read_to_string(&mut inp).unwrap();
    let scn: Value = serde_json::from_str(&inp).expect("scenario json");
    let rt = tokio::runtime::Builder::new_multi_thread().worker_threads(2).enable_all().build().unwrap();
    let out = rt.block_on(run(scn));
    println!("{}", out);
    std::process::exit(0);
}
