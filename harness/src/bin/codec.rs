//! Library-level driver for the prepared-statement codecs of pgcat::messages (C08, C11).
//! stdin: one JSON object per line {op, hex, [name]}; stdout: one JSON object per line.
//! All byte strings travel as hex.  Panics are caught and reported as {"r":"panic"}.
use bytes::BytesMut;
use pgcat::messages::{close_complete, parse_complete, Bind, Close, Describe, Parse};
use pgcat::pool::PreparedStatementCache;
use serde_json::{json, Value};
use std::io::{BufRead, Write};
use vh::util::*;

fn buf(v: &Value) -> BytesMut {
    BytesMut::from(&unhex(v["hex"].as_str().unwrap_or(""))[..])
}

fn name_of(v: &Value) -> Option<String> {
    v.get("name")
        .and_then(|x| x.as_str())
        .map(|h| String::from_utf8(unhex(h)).expect("new name must be valid utf-8"))
}

/// Result<BytesMut, Error> under catch_unwind -> {"r": ok|err|panic, "hex"}
fn enc<F: FnOnce() -> Result<BytesMut, pgcat::errors::Error>>(f: F) -> Value {
    match guarded(f) {
        Ok(Ok(b)) => json!({"r": "ok", "hex": hex(&b)}),
        Ok(Err(_)) => json!({"r": "err"}),
        Err(m) => json!({"r": "panic", "msg": m}),
    }
}

fn name_res<F: FnOnce() -> Result<String, pgcat::errors::Error>>(f: F) -> Value {
    match guarded(f) {
        Ok(Ok(s)) => json!({"r": "ok", "hex": hex(s.as_bytes())}),
        Ok(Err(_)) => json!({"r": "err"}),
        Err(m) => json!({"r": "panic", "msg": m}),
    }
}

fn run(v: &Value) -> Value {
    let op = v["op"].as_str().unwrap_or("");
    match op {
        "parse" => {
            let b = buf(v);
            match guarded(|| Parse::try_from(&b)) {
                Ok(Ok(p)) => {
                    let mut o = json!({"r": "ok", "name": hex(p.name.as_bytes()), "dbg": format!("{:?}", p),
                                       "hash": p.get_hash().to_string(), "anonymous": p.anonymous()});
                    let p1 = p.clone();
                    o["enc"] = enc(move || BytesMut::try_from(p1));
                    let p2 = p.clone();
                    o["enc_ref"] = enc(move || BytesMut::try_from(&p2));
                    if let Some(n) = name_of(v) {
                        // what Parse::rewrite does, with a name chosen by the caller (the field is pub)
                        let mut q = p.clone();
                        q.name = n;
                        o["hash_renamed"] = json!(q.get_hash().to_string());
                        o["renamed"] = enc(move || BytesMut::try_from(q));
                    }
                    o
                }
                Ok(Err(_)) => json!({"r": "err"}),
                Err(m) => json!({"r": "panic", "msg": m}),
            }
        }
        // the real Parse::rewrite: name becomes PGCAT_<counter>, nothing else changes
        "rewrite" => {
            let b = buf(v);
            match guarded(|| Parse::try_from(&b)) {
                Ok(Ok(p)) => {
                    let h = p.get_hash();
                    let q = p.rewrite();
                    let h2 = q.get_hash();
                    let name = q.name.clone();
                    json!({"r": "ok", "name": hex(name.as_bytes()), "hash_same": h == h2, "enc": enc(move || BytesMut::try_from(q))})
                }
                Ok(Err(_)) => json!({"r": "err"}),
                Err(m) => json!({"r": "panic", "msg": m}),
            }
        }
        "parse_get_name" => {
            let b = buf(v);
            name_res(|| Parse::get_name(&b))
        }
        "bind_get_name" => {
            let b = buf(v);
            name_res(|| Bind::get_name(&b))
        }
        "bind" => {
            let b = buf(v);
            match guarded(|| Bind::try_from(&b)) {
                Ok(Ok(p)) => {
                    let mut o = json!({"r": "ok", "name": hex(p.prepared_statement.as_bytes()), "dbg": format!("{:?}", p),
                                       "anonymous": p.anonymous()});
                    o["enc"] = enc(move || BytesMut::try_from(p));
                    o
                }
                Ok(Err(_)) => json!({"r": "err"}),
                Err(m) => json!({"r": "panic", "msg": m}),
            }
        }
        "bind_rename" => {
            let b = buf(v);
            let n = name_of(v).unwrap_or_default();
            enc(move || Bind::rename(b, &n))
        }
        "describe" => {
            let b = buf(v);
            match guarded(|| Describe::try_from(&b)) {
                Ok(Ok(p)) => {
                    let mut o = json!({"r": "ok", "name": hex(p.statement_name.as_bytes()), "target": p.target as u32,
                                       "dbg": format!("{:?}", p), "anonymous": p.anonymous()});
                    let p1 = p.clone();
                    o["enc"] = enc(move || BytesMut::try_from(p1));
                    if let Some(n) = name_of(v) {
                        let q = p.clone().rename(&n);
                        o["renamed"] = enc(move || BytesMut::try_from(q));
                    }
                    o
                }
                Ok(Err(_)) => json!({"r": "err"}),
                Err(m) => json!({"r": "panic", "msg": m}),
            }
        }
        "close" => {
            let b = buf(v);
            match guarded(|| Close::try_from(&b)) {
                Ok(Ok(p)) => {
                    let mut o = json!({"r": "ok", "name": hex(p.name.as_bytes()), "dbg": format!("{:?}", p),
                                       "is_stmt": p.is_prepared_statement(), "anonymous": p.anonymous()});
                    o["enc"] = enc(move || BytesMut::try_from(p));
                    o
                }
                Ok(Err(_)) => json!({"r": "err"}),
                Err(m) => json!({"r": "panic", "msg": m}),
            }
        }
        "close_new" => {
            let n = name_of(v).unwrap_or_default();
            let c = Close::new(&n);
            json!({"r": "ok", "is_stmt": c.is_prepared_statement(), "enc": enc(move || BytesMut::try_from(c))})
        }
        // the pool-level statement cache (pool.rs PreparedStatementCache): steps are {"get": <Parse hex>} / {"promote": <Parse hex>}
        "poolcache" => {
            let size = v["size"].as_u64().unwrap_or(0) as usize;
            let mut cache = PreparedStatementCache::new(size);
            let mut names = Vec::new();
            for st in v["steps"].as_array().unwrap() {
                if let Some(h) = st.get("get").and_then(|x| x.as_str()) {
                    let b = BytesMut::from(&unhex(h)[..]);
                    let p = Parse::try_from(&b).expect("parse");
                    let hash = p.get_hash();
                    let arc = cache.get_or_insert(&p, hash);
                    names.push(json!({"name": arc.name.clone(), "same_hash": arc.get_hash() == hash}));
                } else if let Some(h) = st.get("promote").and_then(|x| x.as_str()) {
                    let b = BytesMut::from(&unhex(h)[..]);
                    let p = Parse::try_from(&b).expect("parse");
                    cache.promote(&p.get_hash());
                    names.push(Value::Null);
                }
            }
            json!({"r": "ok", "names": names})
        }
        "consts" => json!({"r": "ok", "parse_complete": hex(&parse_complete()), "close_complete": hex(&close_complete())}),
        _ => json!({"r": "unknown-op"}),
    }
}

fn main() {
    quiet_panics();
    let stdin = std::io::stdin();
    let stdout = std::io::stdout();
    let mut out = stdout.lock();
    for line in stdin.lock().lines() {
        let line = line.unwrap();
        if line.trim().is_empty() {
            continue;
        }
        let v: Value = serde_json::from_str(&line).expect("json");
        // a case may be a list of ops run in order in this process (the statement counter is global)
        let r = if let Some(a) = v.as_array() {
            Value::Array(a.iter().map(run).collect())
        } else {
            run(&v)
        };
        writeln!(out, "{}", r).unwrap();
    }
}
