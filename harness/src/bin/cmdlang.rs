//! C13 driver: the real `QueryRouter::try_execute_command` and the real reply encoders of
//! `messages.rs` (written into a Vec<u8>), glued the way `Client::handle_custom_protocol`
//! (client.rs:1659-1742, a private async method that cannot be called from outside the
//! crate) glues them.  The glue below is a TRANSCRIPTION of that method; everything it
//! calls is the real code.
//! stdin: one JSON object per line {settings, steps}; stdout: one JSON object per line.
use bytes::{BufMut, BytesMut};
use pgcat::config::Role;
use pgcat::messages::{custom_protocol_response_ok, error_response, show_response};
use pgcat::pool::PoolSettings;
use pgcat::query_router::{Command, QueryRouter};
use serde_json::{json, Value};
use std::io::{BufRead, Write};
use vh::util::*;

fn settings(v: &Value) -> PoolSettings {
    let mut s = PoolSettings::default();
    if let Some(n) = v.get("shards").and_then(|x| x.as_u64()) {
        s.shards = n as usize;
    }
    s.sharding_key_regex = v
        .get("key_regex")
        .and_then(|x| x.as_str())
        .map(|x| regex::Regex::new(x).unwrap());
    s.shard_id_regex = v
        .get("shard_regex")
        .and_then(|x| x.as_str())
        .map(|x| regex::Regex::new(x).unwrap());
    s.default_role = match v.get("default_role").and_then(|x| x.as_str()) {
        Some("primary") => Some(Role::Primary),
        Some("replica") => Some(Role::Replica),
        _ => None,
    };
    s.query_parser_enabled = v.get("parser").and_then(|x| x.as_bool()).unwrap_or(false);
    s.primary_reads_enabled = v.get("primary_reads").and_then(|x| x.as_bool()).unwrap_or(true);
    s.db = "db".to_string();
    s
}

fn role_s(r: Option<Role>) -> Value {
    match r {
        Some(Role::Primary) => json!("primary"),
        Some(Role::Replica) => json!("replica"),
        Some(Role::Mirror) => json!("mirror"),
        None => Value::Null,
    }
}

fn state(qr: &QueryRouter) -> Value {
    json!({"shard": qr.shard(), "role": role_s(qr.role()), "parser": qr.query_parser_enabled(), "primary_reads": qr.primary_reads_enabled()})
}

fn qmsg(sql: &[u8]) -> BytesMut {
    let mut b = BytesMut::new();
    b.put_u8(b'Q');
    b.put_i32(sql.len() as i32 + 5);
    b.put_slice(sql);
    b.put_u8(0);
    b
}

/// Transcription of Client::handle_custom_protocol (client.rs:1659-1742) with
/// `self.write` = a Vec<u8> and `pool.shards()` = `shards`.
async fn handle_custom_protocol(
    qr: &mut QueryRouter,
    message: &BytesMut,
    shards: usize,
    o: &mut Value,
) -> Result<Option<Vec<u8>>, String> {
    let mut w: Vec<u8> = Vec::new();
    let current_shard = qr.shard();
    let r = guarded(|| qr.try_execute_command(message))?;
    o["pre_state"] = state(qr);
    match r {
        None => {
            o["cmd"] = Value::Null;
            Ok(None)
        }
        Some(custom) => {
            o["cmd"] = json!([format!("{:?}", custom.0), custom.1.clone()]);
            match custom {
                (Command::SetShard, _) => match qr.shard() {
                    None => {}
                    Some(selected_shard) => {
                        if selected_shard >= shards {
                            qr.set_shard(current_shard);
                            error_response(
                                &mut w,
                                &format!(
                                    "shard {} is not configured {}, staying on shard {:?} (shard numbers start at 0)",
                                    selected_shard, shards, current_shard,
                                ),
                            )
                            .await
                            .map_err(|e| format!("{:?}", e))?;
                        } else {
                            custom_protocol_response_ok(&mut w, "SET SHARD")
                                .await
                                .map_err(|e| format!("{:?}", e))?;
                        }
                    }
                },
                (Command::SetPrimaryReads, _) => {
                    custom_protocol_response_ok(&mut w, "SET PRIMARY READS")
                        .await
                        .map_err(|e| format!("{:?}", e))?;
                }
                (Command::SetShardingKey, _) => {
                    custom_protocol_response_ok(&mut w, "SET SHARDING KEY")
                        .await
                        .map_err(|e| format!("{:?}", e))?;
                }
                (Command::InvalidShardingKey, value) => {
                    error_response(
                        &mut w,
                        &format!("sharding key {} is out of range for bigint", value),
                    )
                    .await
                    .map_err(|e| format!("{:?}", e))?;
                }
                (Command::SetServerRole, _) => {
                    custom_protocol_response_ok(&mut w, "SET SERVER ROLE")
                        .await
                        .map_err(|e| format!("{:?}", e))?;
                }
                (Command::ShowServerRole, value) => {
                    show_response(&mut w, "server role", &value)
                        .await
                        .map_err(|e| format!("{:?}", e))?;
                }
                (Command::ShowShard, value) => {
                    show_response(&mut w, "shard", &value)
                        .await
                        .map_err(|e| format!("{:?}", e))?;
                }
                (Command::ShowPrimaryReads, value) => {
                    show_response(&mut w, "primary reads", &value)
                        .await
                        .map_err(|e| format!("{:?}", e))?;
                }
            };
            Ok(Some(w))
        }
    }
}

async fn run_case(case: &Value) -> Value {
    let ps = settings(&case["settings"]);
    let mut qr = QueryRouter::new();
    qr.update_pool_settings(&ps);
    qr.set_default_role();
    let mut outs = Vec::new();
    for step in case["steps"].as_array().unwrap() {
        let op = step["op"].as_str().unwrap();
        let mut o = json!({});
        match op {
            // a simple-protocol query (hex of the query bytes, NUL added) or a raw message
            "q" | "raw" => {
                let bytes = unhex(step["hex"].as_str().unwrap());
                let m = if op == "q" { qmsg(&bytes) } else { BytesMut::from(&bytes[..]) };
                match handle_custom_protocol(&mut qr, &m, ps.shards, &mut o).await {
                    Ok(Some(w)) => {
                        o["handled"] = json!(true);
                        o["reply"] = json!(hex(&w));
                    }
                    Ok(None) => o["handled"] = json!(false),
                    Err(p) => o["panic"] = json!(p),
                }
                o["state"] = state(&qr);
            }
            // the real encoders on arbitrary strings
            "enc" => {
                let a = String::from_utf8_lossy(&unhex(step["a"].as_str().unwrap_or(""))).to_string();
                let b = String::from_utf8_lossy(&unhex(step["b"].as_str().unwrap_or(""))).to_string();
                let mut w: Vec<u8> = Vec::new();
                let r = match step["kind"].as_str().unwrap() {
                    "ok" => custom_protocol_response_ok(&mut w, &a).await,
                    "show" => show_response(&mut w, &a, &b).await,
                    _ => error_response(&mut w, &a).await,
                };
                o["ok"] = json!(r.is_ok());
                o["reply"] = json!(hex(&w));
            }
            // which single characters can stand in the hole of prefix<c>suffix and still give a command
            "foldscan" => {
                let prefix = step["prefix"].as_str().unwrap();
                let suffix = step["suffix"].as_str().unwrap();
                let lo = step["lo"].as_u64().unwrap() as u32;
                let hi = step["hi"].as_u64().unwrap() as u32;
                let mut hits = Vec::new();
                let mut tried = 0u64;
                for cp in lo..hi {
                    if let Some(c) = char::from_u32(cp) {
                        if c == '\0' {
                            continue;
                        }
                        tried += 1;
                        let q = format!("{}{}{}", prefix, c, suffix);
                        let m = qmsg(q.as_bytes());
                        match guarded(|| qr.try_execute_command(&m)) {
                            Ok(Some(_)) => hits.push(cp),
                            Ok(None) => {}
                            Err(_) => hits.push(cp + 0x80000000),
                        }
                    }
                }
                o["hits"] = json!(hits);
                o["tried"] = json!(tried);
            }
            _ => o["error"] = json!("unknown op"),
        }
        outs.push(o);
    }
    json!({"out": outs})
}

#[tokio::main(flavor = "current_thread")]
async fn main() {
    quiet_panics();
    QueryRouter::setup();
    let stdin = std::io::stdin();
    let stdout = std::io::stdout();
    let mut out = stdout.lock();
    for line in stdin.lock().lines() {
        let line = line.unwrap();
        if line.trim().is_empty() {
            continue;
        }
        let case: Value = serde_json::from_str(&line).expect("json");
        let r = run_case(&case).await;
        writeln!(out, "{}", r).unwrap();
    }
}
