//! C15 driver: TOML text -> real `config::parse` -> real `ConnectionPool::from_config` ->
//! addressing walk (see `vh::cfgwalk`).  stdin: one JSON object per line
//!   {"toml": "...", "admin": ["SHOW DATABASES", ..]?, "probe": {...}?, "show": bool?}
//!   {"op": "regex", "patterns": ["..", ..]}      -> {"ok": [bool, ..]}   (regex crate verdicts)
//!   {"op": "defaults"}                            -> General::default(), Pool::default(), User::default() as JSON
//!   {"op": "tls", "paths": ["..", ..]}           -> {"certs": [n..], "keys": [n..]}  (items load_certs / load_keys return, -1 = Err)
//! stdout: one JSON object per line.  argv[1]: directory for the temporary config file.
use serde_json::{json, Value};
use std::io::{BufRead, Write};

fn main() {
    vh::util::quiet_panics();
    let dir = std::env::args().nth(1).unwrap_or_else(|| "/verif/.cache/tmp/c15".to_string());
    std::fs::create_dir_all(&dir).ok();
    let path = format!("{}/cfg_{}.toml", dir, std::process::id());
    let rt = tokio::runtime::Builder::new_multi_thread()
        .worker_threads(2)
        .enable_all()
        .build()
        .unwrap();
    let stdin = std::io::stdin();
    let stdout = std::io::stdout();
    for line in stdin.lock().lines() {
        let line = match line {
            Ok(l) => l,
            Err(_) => break,
        };
        if line.trim().is_empty() {
            continue;
        }
        let case: Value = match serde_json::from_str(&line) {
            Ok(v) => v,
            Err(e) => {
                writeln!(stdout.lock(), "{}", json!({"harness_error": format!("bad json: {}", e)})).ok();
                continue;
            }
        };
        let out = if case.get("op").and_then(|x| x.as_str()) == Some("regex") {
            let oks: Vec<bool> = case["patterns"]
                .as_array()
                .map(|a| a.iter().map(|p| regex::Regex::new(p.as_str().unwrap_or("")).is_ok()).collect())
                .unwrap_or_default();
            json!({"ok": oks})
        } else if case.get("op").and_then(|x| x.as_str()) == Some("defaults") {
            // the other way of defaulting: the Default impls of the structs
            json!({"general": serde_json::to_value(pgcat::config::General::default()).unwrap_or(Value::Null),
                   "pools": serde_json::to_value(pgcat::config::Pool::default()).unwrap_or(Value::Null),
                   "users": serde_json::to_value(pgcat::config::User::default()).unwrap_or(Value::Null)})
        } else if case.get("op").and_then(|x| x.as_str()) == Some("tls") {
            // the verdicts of the real loaders on files (file system and rustls_pemfile are environment)
            // -1 = the loader answers Err, otherwise the number of items it returns
            let f = |k: &str, cert: bool| -> Vec<i64> {
                case[k].as_array().map(|a| a.iter().map(|p| {
                    let p = std::path::Path::new(p.as_str().unwrap_or(""));
                    if cert { pgcat::tls::load_certs(p).map(|v| v.len() as i64).unwrap_or(-1) }
                    else { pgcat::tls::load_keys(p).map(|v| v.len() as i64).unwrap_or(-1) }
                }).collect()).unwrap_or_default()
            };
            json!({"certs": f("paths", true), "keys": f("paths", false)})
        } else {
            rt.block_on(vh::cfgwalk::run_config(&case, &path))
        };
        let mut so = stdout.lock();
        writeln!(so, "{}", out).ok();
        so.flush().ok();
    }
    std::fs::remove_file(&path).ok();
}
