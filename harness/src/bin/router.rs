//! Library-level driver for the real `QueryRouter` / `Sharder` (C05 C06 C13 C19).
//! stdin: one JSON object per line {settings, steps}; stdout: one JSON object per line.
use bytes::{BufMut, BytesMut};
use pgcat::config::{Plugins, Role};
use pgcat::plugins::PluginOutput;
use pgcat::pool::PoolSettings;
use pgcat::query_router::QueryRouter;
use pgcat::sharding::{Sharder, ShardingFunction};
use serde_json::{json, Value};
use std::io::{BufRead, Write};
use vh::util::*;

fn func(s: &str) -> ShardingFunction {
    match s {
        "sha1" => ShardingFunction::Sha1,
        _ => ShardingFunction::PgBigintHash,
    }
}

fn settings(v: &Value) -> PoolSettings {
    let mut s = PoolSettings::default();
    if let Some(n) = v.get("shards").and_then(|x| x.as_u64()) {
        s.shards = n as usize;
    }
    if let Some(f) = v.get("func").and_then(|x| x.as_str()) {
        s.sharding_function = func(f);
    }
    s.automatic_sharding_key = v.get("auto_key").and_then(|x| x.as_str()).map(|x| x.to_string());
    s.sharding_key_regex = v
        .get("key_regex")
        .and_then(|x| x.as_str())
        .map(|x| regex::Regex::new(x).unwrap());
    s.shard_id_regex = v
        .get("shard_regex")
        .and_then(|x| x.as_str())
        .map(|x| regex::Regex::new(x).unwrap());
    s.default_role = match v.get("default_role").and_then(|x| x.as_str()) {
        Some("primary") => Some(Role::Primary),
        Some("replica") => Some(Role::Replica),
        _ => None,
    };
    s.query_parser_enabled = v.get("parser").and_then(|x| x.as_bool()).unwrap_or(false);
    s.query_parser_read_write_splitting = v.get("splitting").and_then(|x| x.as_bool()).unwrap_or(false);
    // db_activity_based_routing: a database name never used before is "Initializing" for
    // db_activity_init_delay ms from its first statement (deterministic with a long delay)
    s.db_activity_based_routing = v.get("activity").and_then(|x| x.as_bool()).unwrap_or(false);
    if let Some(d) = v.get("db").and_then(|x| x.as_str()) {
        s.db = d.to_string();
    }
    if let Some(n) = v.get("activity_init_delay").and_then(|x| x.as_u64()) {
        s.db_activity_init_delay = n;
    }
    s.primary_reads_enabled = v.get("primary_reads").and_then(|x| x.as_bool()).unwrap_or(true);
    if let Some(n) = v.get("regex_search_limit").and_then(|x| x.as_u64()) {
        s.regex_search_limit = n as usize;
    }
    if let Some(n) = v.get("parser_max_length").and_then(|x| x.as_u64()) {
        s.query_parser_max_length = Some(n as usize);
    }
    if let Some(p) = v.get("plugins") {
        if !p.is_null() {
            let plugins: Plugins = serde_json::from_value(p.clone()).expect("plugins json");
            s.plugins = Some(plugins);
        }
    }
    s.db = "db".to_string();
    s
}

fn msg(code: u8, body: &[u8]) -> BytesMut {
    let mut b = BytesMut::new();
    b.put_u8(code);
    b.put_i32(body.len() as i32 + 4);
    b.put_slice(body);
    b
}

fn qmsg(proto: &str, sql: &[u8]) -> BytesMut {
    let mut body = Vec::new();
    if proto == "P" {
        body.push(0u8); // unnamed statement
        body.extend_from_slice(sql);
        body.push(0);
        body.extend_from_slice(&[0, 0]);
        msg(b'P', &body)
    } else {
        body.extend_from_slice(sql);
        body.push(0);
        msg(b'Q', &body)
    }
}

fn role_s(r: Option<Role>) -> Value {
    match r {
        Some(Role::Primary) => json!("primary"),
        Some(Role::Replica) => json!("replica"),
        Some(Role::Mirror) => json!("mirror"),
        None => Value::Null,
    }
}

fn state(qr: &QueryRouter) -> Value {
    json!({"shard": qr.shard(), "role": role_s(qr.role()), "parser": qr.query_parser_enabled(), "primary_reads": qr.primary_reads_enabled()})
}

fn sql_bytes(step: &Value) -> Vec<u8> {
    if let Some(h) = step.get("hex").and_then(|x| x.as_str()) {
        unhex(h)
    } else {
        step.get("sql").and_then(|x| x.as_str()).unwrap_or("").as_bytes().to_vec()
    }
}

async fn run_case(case: &Value) -> Value {
    let ps = settings(&case["settings"]);
    let mut qr = QueryRouter::new();
    qr.update_pool_settings(&ps);
    qr.set_default_role();
    let mut outs = Vec::new();
    for step in case["steps"].as_array().unwrap() {
        let op = step["op"].as_str().unwrap();
        let mut o = json!({});
        match op {
            "shard" => {
                let key = step["key"].as_i64().unwrap();
                let sh = Sharder::new(ps.shards, ps.sharding_function);
                match guarded(|| sh.shard(key)) {
                    Ok(s) => o["result"] = json!(s),
                    Err(m) => o["panic"] = json!(m),
                }
            }
            // C05: the comparison pool.get()'s candidate filter uses (`address.role == role`,
            // impl PartialEq<Option<Role>> for Role) on real Address values
            "role_eq" => {
                let parse = |x: Option<&str>| match x {
                    Some("primary") => Some(Role::Primary),
                    Some("replica") => Some(Role::Replica),
                    Some("mirror") => Some(Role::Mirror),
                    _ => None,
                };
                let want = parse(step.get("want").and_then(|x| x.as_str()));
                let addrs: Vec<pgcat::config::Address> = step["addrs"]
                    .as_array()
                    .unwrap()
                    .iter()
                    .enumerate()
                    .map(|(i, r)| pgcat::config::Address {
                        id: i,
                        role: parse(r.as_str()).unwrap(),
                        ..Default::default()
                    })
                    .collect();
                let kept: Vec<usize> = addrs.iter().filter(|address| address.role == want).map(|a| a.id).collect();
                o["kept"] = json!(kept);
            }
            // Q message through try_execute_command (what handle_custom_protocol calls first)
            "command" => {
                let m = if step.get("raw").is_some() {
                    BytesMut::from(&unhex(step["raw"].as_str().unwrap())[..])
                } else {
                    qmsg(step.get("proto").and_then(|x| x.as_str()).unwrap_or("Q"), &sql_bytes(step))
                };
                match guarded(|| qr.try_execute_command(&m)) {
                    Ok(Some((c, v))) => o["cmd"] = json!([format!("{:?}", c), v]),
                    Ok(None) => o["cmd"] = Value::Null,
                    Err(p) => o["panic"] = json!(p),
                }
            }
            // the gating of client.rs (outer loop): parser enabled => parse, plugins, infer
            "route" => {
                let proto = step.get("proto").and_then(|x| x.as_str()).unwrap_or("Q");
                let m = qmsg(proto, &sql_bytes(step));
                // "gate": "client" = the condition client.rs uses since 2a7a370 (parsed also when only the
                // pool's plugins need the statements); default = the router's own switch (older callers)
                let gate = if step.get("gate").and_then(|x| x.as_str()) == Some("client") {
                    qr.parses_messages()
                } else {
                    qr.query_parser_enabled()
                };
                if gate {
                    match guarded(|| qr.parse(&m)) {
                        Ok(Ok(ast)) => {
                            o["parse"] = json!("ok");
                            o["nstmts"] = json!(ast.len());
                            o["ast"] = json!(vh::astproj::project(&ast));
                            match qr.execute_plugins(&ast).await {
                                Ok(PluginOutput::Deny(e)) => o["plugin"] = json!(["deny", e]),
                                Ok(PluginOutput::Intercept(b)) => o["plugin"] = json!(["intercept", hex(&b)]),
                                Ok(PluginOutput::Allow) => o["plugin"] = json!(["allow"]),
                                Ok(_) => o["plugin"] = json!(["other"]),
                                Err(_) => o["plugin"] = json!(["err"]),
                            }
                            let denied = o["plugin"][0] == "deny" || o["plugin"][0] == "intercept";
                            if !(denied && proto == "Q") {
                                match guarded(|| qr.infer(&ast)) {
                                    Ok(Ok(())) => o["infer"] = json!("ok"),
                                    Ok(Err(e)) => o["infer"] = json!(format!("err:{:?}", e)),
                                    Err(p) => o["panic"] = json!(p),
                                }
                            }
                        }
                        Ok(Err(_)) => o["parse"] = json!("err"),
                        Err(p) => o["panic"] = json!(p),
                    }
                } else {
                    o["parse"] = json!("off");
                }
            }
            "bind" => {
                let m = BytesMut::from(&unhex(step["hex"].as_str().unwrap())[..]);
                if qr.query_parser_enabled() {
                    match guarded(|| qr.infer_shard_from_bind(&m)) {
                        Ok(b) => o["bind"] = json!(b),
                        Err(p) => o["panic"] = json!(p),
                    }
                }
            }
            "reset_role" => {
                // client.rs does not do this; used to start a new "transaction" with default role
                qr.set_default_role();
            }
            _ => o["error"] = json!("unknown op"),
        }
        o["state"] = state(&qr);
        outs.push(o);
    }
    json!({"out": outs})
}

#[tokio::main(flavor = "current_thread")]
async fn main() {
    quiet_panics();
    QueryRouter::setup();
    let stdin = std::io::stdin();
    let stdout = std::io::stdout();
    let mut out = stdout.lock();
    for line in stdin.lock().lines() {
        let line = line.unwrap();
        if line.trim().is_empty() {
            continue;
        }
        let case: Value = serde_json::from_str(&line).expect("json");
        let r = run_case(&case).await;
        writeln!(out, "{}", r).unwrap();
    }
}
