//! C16 driver: the REAL `ConnectionPool::{pause, resume, paused, wait_paused}` under
//! (a) harness-chosen interleavings of the instrumented steps (`pgcat::verif_hooks`), and
//! (b) free-running races on a multi-thread tokio runtime with a stuck detector.
//!
//! stdin: one JSON request per line, stdout: one JSON answer per line.
//!
//! {"mode":"schedule","id":..,"clients":2,"pools":1,"grace_ms":30,
//!  "steps":["c0:reg","admin:pause","c0:load","admin:store","admin:notify","c0:decide","c0:wake","c0:done"]}
//!   actors: `cN` (client N, its own OS thread, hand-rolled executor) and `admin` (own OS thread).
//!   client ops (optionally `@k` = pool index on `reg`):
//!     reg    start a `wait_paused()` call; runs to hook "wait_paused:after_notified"   (model CReg)
//!     load   release; runs to hook "wait_paused:after_load"                            (model CLoad)
//!     decide release; the call either returns or its first poll returns Pending         (model CDecide)
//!     wake   observe that the call has returned (the woken task re-polls on its own)    (model CWake)
//!     done   the transaction is over; the client may `reg` again                        (model CDone)
//!   admin ops (optionally `@k`):
//!     pause  `pool.pause()`                                                             (model APause)
//!     store  start `pool.resume()`; runs to hook "resume:after_store"                   (model AStore)
//!     notify release; `resume()` returns                                                (model ANotify)
//!   answer: per step the observed `paused()` of every pool, whether a resume is half done, and each
//!   client's status idle|reg|loaded|blocked|passed (+ the value `wait_paused` returned).
//!
//!   "impl": "real" (default: pgcat's ConnectionPool) | "mutant_load_first" | "mutant_notify_first" |
//!   "reference" — in-harness gates used ONLY for the pipeline self-test (see `MutGate`); for them the
//!   schedule may name `load` before `reg`, resp. `notify` before `store`.
//!
//! {"mode":"race","seed":1,"rounds":1000,"workers":4,"max_clients":3}
use pgcat::pool::ConnectionPool;
use pgcat::verif_hooks as hooks;
use rand::rngs::StdRng;
use rand::{Rng, SeedableRng};
use serde_json::{json, Value};
use std::future::Future;
use std::io::{BufRead, Write};
use std::sync::atomic::{AtomicBool, AtomicU64, Ordering};
use std::sync::mpsc::{channel, Sender};
use std::sync::{Arc, Condvar, Mutex};
use std::task::{Context, Poll, Wake, Waker};
use std::time::{Duration, Instant};

const MAXC: usize = 4;
const ADMIN: usize = MAXC; // slot index and hook actor id of the admin thread
const STEP_TIMEOUT_MS: u64 = 20_000;

#[derive(Clone, Copy, PartialEq, Debug)]
enum S {
    Idle,
    Running,
    Blocked,
    Done,
}

#[derive(Clone, Debug)]
struct Slot {
    s: S,
    wake_pending: bool,
    ret: Option<bool>,
    wakes: u64,
    polls: u64,
}

struct Shared {
    m: Mutex<Vec<Slot>>,
    cv: Condvar,
}

impl Shared {
    fn wait_until(&self, idx: usize, pred: impl Fn(&Slot) -> bool, timeout_ms: u64) -> bool {
        let deadline = Instant::now() + Duration::from_millis(timeout_ms);
        let mut g = self.m.lock().unwrap();
        loop {
            if pred(&g[idx]) {
                return true;
            }
            let now = Instant::now();
            if now >= deadline {
                return false;
            }
            let (ng, _) = self.cv.wait_timeout(g, deadline - now).unwrap();
            g = ng;
        }
    }
}

struct W {
    sh: Arc<Shared>,
    idx: usize,
}

impl Wake for W {
    fn wake(self: Arc<Self>) {
        self.wake_by_ref()
    }
    fn wake_by_ref(self: &Arc<Self>) {
        let mut g = self.sh.m.lock().unwrap();
        let sl = &mut g[self.idx];
        sl.wakes += 1;
        match sl.s {
            S::Blocked => sl.s = S::Running,
            S::Running => sl.wake_pending = true,
            _ => {}
        }
        self.sh.cv.notify_all();
    }
}

/// SELF-TEST ONLY: the two re-orderings of the protocol that Pause/Mutants.v proves wrong, written
/// against the same tokio `Notify` and the same hook points.  They never stand in for pgcat's code;
/// props/c16.py runs the Coq witnesses on them to make sure the harness + monitor are not blind.
struct MutGate {
    paused: AtomicBool,
    notify: tokio::sync::Notify,
    load_first: bool,   // wait_paused: load, then notified()
    notify_first: bool, // resume: notify_waiters(), then store(false)
}

impl MutGate {
    fn pause(&self) {
        self.paused.store(true, Ordering::Relaxed);
    }
    fn resume(&self) {
        if self.notify_first {
            self.notify.notify_waiters();
            hooks::point("resume:after_notify");
            self.paused.store(false, Ordering::Relaxed);
        } else {
            self.paused.store(false, Ordering::Relaxed);
            hooks::point("resume:after_store");
            self.notify.notify_waiters();
        }
    }
    async fn wait_paused(&self) -> bool {
        if self.load_first {
            let paused = self.paused.load(Ordering::Relaxed);
            hooks::point("wait_paused:after_load");
            let waiter = self.notify.notified();
            hooks::point("wait_paused:after_notified");
            if paused {
                waiter.await;
            }
            paused
        } else {
            let waiter = self.notify.notified();
            hooks::point("wait_paused:after_notified");
            let paused = self.paused.load(Ordering::Relaxed);
            hooks::point("wait_paused:after_load");
            if paused {
                waiter.await;
            }
            paused
        }
    }
}

#[derive(Clone)]
enum Gate {
    Real(ConnectionPool),
    Mut(Arc<MutGate>),
}

impl Gate {
    fn new(kind: &str) -> Gate {
        match kind {
            "mutant_load_first" => Gate::Mut(Arc::new(MutGate { paused: AtomicBool::new(false), notify: tokio::sync::Notify::new(), load_first: true, notify_first: false })),
            "mutant_notify_first" => Gate::Mut(Arc::new(MutGate { paused: AtomicBool::new(false), notify: tokio::sync::Notify::new(), load_first: false, notify_first: true })),
            "reference" => Gate::Mut(Arc::new(MutGate { paused: AtomicBool::new(false), notify: tokio::sync::Notify::new(), load_first: false, notify_first: false })),
            _ => Gate::Real(ConnectionPool::default()),
        }
    }
    fn pause(&self) {
        match self {
            Gate::Real(p) => p.pause(),
            Gate::Mut(g) => g.pause(),
        }
    }
    fn resume(&self) {
        match self {
            Gate::Real(p) => p.resume(),
            Gate::Mut(g) => g.resume(),
        }
    }
    fn paused(&self) -> bool {
        match self {
            Gate::Real(p) => p.paused(),
            Gate::Mut(g) => g.paused.load(Ordering::Relaxed),
        }
    }
}

/// One client = one OS thread polling the real `wait_paused()` future with its own waker.
fn client_thread(idx: usize, sh: Arc<Shared>, rx: std::sync::mpsc::Receiver<Gate>) {
    hooks::set_actor(idx as u64);
    let waker = Waker::from(Arc::new(W { sh: sh.clone(), idx }));
    while let Ok(gate) = rx.recv() {
        match &gate {
            Gate::Real(pool) => drive(idx, &sh, &waker, pool.wait_paused()),
            Gate::Mut(g) => drive(idx, &sh, &waker, g.wait_paused()),
        }
    }
}

fn drive(idx: usize, sh: &Arc<Shared>, waker: &Waker, fut: impl Future<Output = bool>) {
    {
        let mut cx = Context::from_waker(waker);
        let mut fut = std::pin::pin!(fut);
        loop {
            sh.m.lock().unwrap()[idx].polls += 1;
            match fut.as_mut().poll(&mut cx) {
                Poll::Ready(r) => {
                    let mut g = sh.m.lock().unwrap();
                    g[idx].s = S::Done;
                    g[idx].ret = Some(r);
                    sh.cv.notify_all();
                    break;
                }
                Poll::Pending => {
                    let mut g = sh.m.lock().unwrap();
                    if g[idx].wake_pending {
                        g[idx].wake_pending = false;
                        continue;
                    }
                    g[idx].s = S::Blocked;
                    sh.cv.notify_all();
                    while g[idx].s == S::Blocked {
                        g = sh.cv.wait(g).unwrap();
                    }
                }
            }
        }
    }
}

enum AdminCmd {
    Pause(Gate),
    Resume(Gate),
}

fn admin_thread(sh: Arc<Shared>, rx: std::sync::mpsc::Receiver<AdminCmd>) {
    hooks::set_actor(ADMIN as u64);
    while let Ok(cmd) = rx.recv() {
        match cmd {
            AdminCmd::Pause(p) => p.pause(),
            AdminCmd::Resume(p) => p.resume(),
        }
        let mut g = sh.m.lock().unwrap();
        g[ADMIN].s = S::Done;
        sh.cv.notify_all();
    }
}

/// Where the harness believes each client is (from the steps it has executed itself).
#[derive(Clone, Copy, PartialEq, Debug)]
enum H {
    Idle,
    /// the call has executed the first of its two instrumented instructions (true: `notified()`,
    /// false: the load — only a mutant gate does the load first)
    One(bool),
    Loaded,
    Decided,
}

struct Driver {
    sh: Arc<Shared>,
    ctx: Vec<Sender<Gate>>,
    atx: Sender<AdminCmd>,
}

struct Sched {
    pools: Vec<Gate>,
    h: Vec<H>,
    admin_mid: bool,
    admin_first: &'static str,
    nclients: usize,
}

impl Driver {
    fn new() -> Driver {
        let sh = Arc::new(Shared {
            m: Mutex::new(vec![Slot { s: S::Idle, wake_pending: false, ret: None, wakes: 0, polls: 0 }; MAXC + 1]),
            cv: Condvar::new(),
        });
        let mut ctx = Vec::new();
        for i in 0..MAXC {
            let (tx, rx) = channel();
            let sh2 = sh.clone();
            std::thread::Builder::new()
                .name(format!("client{}", i))
                .spawn(move || client_thread(i, sh2, rx))
                .unwrap();
            ctx.push(tx);
        }
        let (atx, arx) = channel();
        let sh2 = sh.clone();
        std::thread::Builder::new().name("admin".into()).spawn(move || admin_thread(sh2, arx)).unwrap();
        Driver { sh, ctx, atx }
    }

    fn observe(&self, sc: &Sched) -> Value {
        let g = self.sh.m.lock().unwrap();
        let mut cl = Vec::new();
        let mut ret = Vec::new();
        let mut wakes = Vec::new();
        for i in 0..sc.nclients {
            let st = match (sc.h[i], g[i].s) {
                (H::Idle, _) => "idle",
                (H::One(true), _) => "reg",
                (H::One(false), _) => "preloaded",
                (H::Loaded, _) => "loaded",
                (H::Decided, S::Blocked) => "blocked",
                (H::Decided, S::Done) => "passed",
                (H::Decided, _) => "running",
            };
            cl.push(json!(st));
            ret.push(match (sc.h[i], g[i].s, g[i].ret) {
                (H::Decided, S::Done, Some(r)) => json!(r),
                _ => Value::Null,
            });
            wakes.push(json!(g[i].wakes));
        }
        json!({"paused": sc.pools.iter().map(|p| p.paused()).collect::<Vec<bool>>(),
               "admin_mid": sc.admin_mid, "clients": cl, "ret": ret, "wakes": wakes})
    }

    /// After an admin step: every client that has been woken re-polls on its own; wait until each
    /// decided client is either blocked again or done (no timing involved: `wake()` is delivered
    /// synchronously inside `notify_waiters()`).
    fn settle(&self, sc: &Sched) -> Result<(), String> {
        for i in 0..sc.nclients {
            if sc.h[i] == H::Decided
                && !self.sh.wait_until(i, |s| s.s == S::Blocked || s.s == S::Done, STEP_TIMEOUT_MS)
            {
                return Err(format!("client {} did not settle", i));
            }
        }
        Ok(())
    }

    fn exec(&self, sc: &mut Sched, tok: &str) -> Result<(), String> {
        let (head, pool_idx) = match tok.split_once('@') {
            Some((h, k)) => (h, k.parse::<usize>().map_err(|_| "bad pool index".to_string())?),
            None => (tok, 0usize),
        };
        let (actor, op) = head.split_once(':').ok_or("bad token")?;
        if pool_idx >= sc.pools.len() {
            return Err("pool index out of range".into());
        }
        if actor == "admin" {
            match op {
                "pause" => {
                    if sc.admin_mid {
                        return Err("not-enabled".into());
                    }
                    self.sh.m.lock().unwrap()[ADMIN].s = S::Running;
                    self.atx.send(AdminCmd::Pause(sc.pools[pool_idx].clone())).unwrap();
                    if !self.sh.wait_until(ADMIN, |s| s.s == S::Done, STEP_TIMEOUT_MS) {
                        return Err("pause() did not return".into());
                    }
                    self.sh.m.lock().unwrap()[ADMIN].s = S::Idle;
                    self.settle(sc)
                }
                // a RESUME is two instrumented instructions: the first of `store` / `notify` in the
                // schedule starts resume() and must park at the hook after that instruction, the
                // second lets it return.  pgcat's order is store, notify.
                "store" | "notify" if !sc.admin_mid => {
                    let expect: &'static str = if op == "store" { "resume:after_store" } else { "resume:after_notify" };
                    self.sh.m.lock().unwrap()[ADMIN].s = S::Running;
                    self.atx.send(AdminCmd::Resume(sc.pools[pool_idx].clone())).unwrap();
                    match hooks::wait_parked(ADMIN as u64, STEP_TIMEOUT_MS) {
                        Some(x) if x == expect => {}
                        other => return Err(format!("resume() did not reach {}: {:?}", expect, other)),
                    }
                    sc.admin_mid = true;
                    sc.admin_first = if op == "store" { "store" } else { "notify" };
                    self.settle(sc)
                }
                "store" | "notify" => {
                    if sc.admin_first == op {
                        return Err("not-enabled".into());
                    }
                    hooks::release(ADMIN as u64);
                    if !self.sh.wait_until(ADMIN, |s| s.s == S::Done, STEP_TIMEOUT_MS) {
                        return Err("resume() did not return".into());
                    }
                    self.sh.m.lock().unwrap()[ADMIN].s = S::Idle;
                    sc.admin_mid = false;
                    self.settle(sc)
                }
                _ => Err("unknown admin op".into()),
            }
        } else {
            let i: usize = actor
                .strip_prefix('c')
                .and_then(|x| x.parse().ok())
                .ok_or("bad actor")?;
            if i >= sc.nclients {
                return Err("client index out of range".into());
            }
            match op {
                // a call is two instrumented instructions: the first of `reg` / `load` in the schedule
                // starts wait_paused() and must park at the hook after that instruction, the second
                // releases it to the other hook.  pgcat's order is reg (notified()), load.
                "reg" | "load" if sc.h[i] == H::Idle => {
                    let expect = if op == "reg" { "wait_paused:after_notified" } else { "wait_paused:after_load" };
                    {
                        let mut g = self.sh.m.lock().unwrap();
                        g[i] = Slot { s: S::Running, wake_pending: false, ret: None, wakes: 0, polls: 0 };
                    }
                    self.ctx[i].send(sc.pools[pool_idx].clone()).unwrap();
                    match hooks::wait_parked(i as u64, STEP_TIMEOUT_MS) {
                        Some(x) if x == expect => {}
                        other => return Err(format!("wait_paused() did not reach {}: {:?}", expect, other)),
                    }
                    sc.h[i] = H::One(op == "reg");
                    Ok(())
                }
                "reg" | "load" => {
                    let expect = match sc.h[i] {
                        H::One(true) if op == "load" => "wait_paused:after_load",
                        H::One(false) if op == "reg" => "wait_paused:after_notified",
                        _ => return Err("not-enabled".into()),
                    };
                    hooks::release(i as u64);
                    match hooks::wait_parked(i as u64, STEP_TIMEOUT_MS) {
                        Some(x) if x == expect => {}
                        other => return Err(format!("wait_paused() did not reach {}: {:?}", expect, other)),
                    }
                    sc.h[i] = H::Loaded;
                    Ok(())
                }
                "decide" => {
                    if sc.h[i] != H::Loaded {
                        return Err("not-enabled".into());
                    }
                    hooks::release(i as u64);
                    sc.h[i] = H::Decided;
                    if !self.sh.wait_until(i, |s| s.s == S::Blocked || s.s == S::Done, STEP_TIMEOUT_MS) {
                        return Err("wait_paused() neither returned nor suspended".into());
                    }
                    Ok(())
                }
                "wake" => {
                    if sc.h[i] != H::Decided {
                        return Err("not-enabled".into());
                    }
                    // bounded observation: the model says the wake-up has been delivered
                    if !self.sh.wait_until(i, |s| s.s == S::Done, 3_000) {
                        return Err("not-enabled".into());
                    }
                    Ok(())
                }
                "done" => {
                    if sc.h[i] != H::Decided || self.sh.m.lock().unwrap()[i].s != S::Done {
                        return Err("not-enabled".into());
                    }
                    self.sh.m.lock().unwrap()[i].s = S::Idle;
                    sc.h[i] = H::Idle;
                    Ok(())
                }
                _ => Err("unknown client op".into()),
            }
        }
    }

    /// Let every actor run to completion so that the threads can be reused.  Works from the slots,
    /// not from the harness' own bookkeeping, so that it also recovers after a step that failed
    /// half way (an actor parked at a hook the schedule did not expect).
    fn cleanup(&self, sc: &mut Sched) -> Result<(), String> {
        let deadline = Instant::now() + Duration::from_millis(STEP_TIMEOUT_MS);
        loop {
            let (admin_busy, busy): (bool, Vec<usize>) = {
                let g = self.sh.m.lock().unwrap();
                (g[ADMIN].s == S::Running, (0..MAXC).filter(|i| g[*i].s == S::Running || g[*i].s == S::Blocked).collect())
            };
            if !admin_busy && busy.is_empty() {
                break;
            }
            if Instant::now() > deadline {
                return Err("cleanup: an actor never returned (client stuck in wait_paused() despite repeated resume(), or resume() stuck)".into());
            }
            if admin_busy {
                hooks::release(ADMIN as u64);
            }
            for i in busy {
                hooks::release(i as u64); // surplus tickets are dropped by hooks::reset()
            }
            if !admin_busy {
                // the main thread has no actor id: hook points are transparent for it
                for p in &sc.pools {
                    p.resume();
                }
            }
            std::thread::sleep(Duration::from_millis(1));
        }
        let mut g = self.sh.m.lock().unwrap();
        for i in 0..=MAXC {
            g[i].s = S::Idle;
        }
        for i in 0..sc.nclients {
            sc.h[i] = H::Idle;
        }
        sc.admin_mid = false;
        Ok(())
    }

    fn schedule(&self, req: &Value) -> Value {
        let nclients = req["clients"].as_u64().unwrap_or(1) as usize;
        let npools = req["pools"].as_u64().unwrap_or(1).max(1) as usize;
        let grace = req["grace_ms"].as_u64().unwrap_or(30);
        if nclients > MAXC {
            return json!({"id": req["id"], "error": "too many clients"});
        }
        hooks::reset();
        hooks::arm(true);
        {
            let mut g = self.sh.m.lock().unwrap();
            for sl in g.iter_mut() {
                *sl = Slot { s: S::Idle, wake_pending: false, ret: None, wakes: 0, polls: 0 };
            }
        }
        let mut sc = Sched {
            pools: (0..npools).map(|_| Gate::new(req["impl"].as_str().unwrap_or("real"))).collect(),
            h: vec![H::Idle; nclients],
            admin_mid: false,
            admin_first: "",
            nclients,
        };
        let mut trace = vec![json!({"step": "init", "ok": true, "obs": self.observe(&sc)})];
        let mut error = Value::Null;
        for t in req["steps"].as_array().cloned().unwrap_or_default() {
            let tok = t.as_str().unwrap_or("");
            match self.exec(&mut sc, tok) {
                Ok(()) => trace.push(json!({"step": tok, "ok": true, "obs": self.observe(&sc)})),
                Err(e) => {
                    trace.push(json!({"step": tok, "ok": false, "err": e, "obs": self.observe(&sc)}));
                    if e != "not-enabled" {
                        error = json!(e);
                    }
                    break;
                }
            }
        }
        // bounded "still blocked" observation
        std::thread::sleep(Duration::from_millis(grace));
        let fin = self.observe(&sc);
        let log: Vec<Value> = {
            let g = hooks::GATE.0.lock().unwrap();
            g.log.iter().map(|(id, name)| json!([id, name])).collect()
        };
        let cl = self.cleanup(&mut sc);
        hooks::arm(false);
        hooks::reset();
        if let Err(e) = cl {
            // threads are in an unknown state: report and stop the process
            let out = json!({"id": req["id"], "trace": trace, "final": fin, "hook_log": log, "error": e, "fatal": true});
            println!("{}", out);
            std::io::stdout().flush().ok();
            std::process::exit(3);
        }
        json!({"id": req["id"], "trace": trace, "final": fin, "hook_log": log, "error": error})
    }
}

// ------------------------------------------------------------------------------------ admin console
//
// {"mode":"admin","id":..,"path":"/verif/.cache/tmp/c16/x.toml","grace_ms":300,"ops":[
//    {"op":"config","toml":"..."}            write the file, config::parse + ConnectionPool::from_config (main.rs start-up)
//    {"op":"write_config","toml":"..."}      rewrite the file only (a later admin RELOAD picks it up)
//    {"op":"admin","sql":"PAUSE db,u"}       the REAL pgcat::admin::handle_admin on an in-memory stream
//    {"op":"connect","client":0,"db":"db","user":"u"}   client.rs Client::handle `pool = self.get_pool()` at session start
//    {"op":"query","client":0}               Client::handle `pool.wait_paused().await` on the pool the session holds,
//                                            then (if it returns) `pool = self.get_pool()`
//    {"op":"observe"} ]}
// One scenario per process (CONFIG and POOLS are process globals).  Hooks stay disarmed.

fn replies(buf: &[u8]) -> Vec<Value> {
    let mut out = Vec::new();
    let mut i = 0;
    while i + 5 <= buf.len() {
        let code = buf[i] as char;
        let len = i32::from_be_bytes([buf[i + 1], buf[i + 2], buf[i + 3], buf[i + 4]]) as usize;
        if len < 4 || i + 1 + len > buf.len() {
            break;
        }
        let body = &buf[i + 5..i + 1 + len];
        match code {
            'C' => out.push(json!({"C": String::from_utf8_lossy(&body[..body.len().saturating_sub(1)])})),
            'E' => {
                let txt = String::from_utf8_lossy(body).to_string();
                let msg = txt.split('\0').find(|f| f.starts_with('M')).map(|f| f[1..].to_string()).unwrap_or(txt);
                out.push(json!({"E": msg}));
            }
            'Z' => out.push(json!("Z")),
            _ => {}
        }
        i += 1 + len;
    }
    out
}

fn admin_mode(d: &Driver, req: &Value) -> Value {
    use bytes::{BufMut, BytesMut};
    hooks::arm(false);
    let path = req["path"].as_str().unwrap_or("/verif/.cache/tmp/c16/admin.toml").to_string();
    let grace = req["grace_ms"].as_u64().unwrap_or(300);
    let rt = tokio::runtime::Builder::new_multi_thread().worker_threads(1).enable_all().build().unwrap();
    let csm: pgcat::pool::ClientServerMap = Arc::new(parking_lot::Mutex::new(std::collections::HashMap::new()));
    let mut held: Vec<Option<(String, String, ConnectionPool)>> = vec![None; MAXC];
    let mut started = vec![false; MAXC];
    let mut nopool = vec![false; MAXC];
    let mut old_pools: Vec<(String, ConnectionPool)> = Vec::new();
    let mut trace = Vec::new();
    let observe = |held: &Vec<Option<(String, String, ConnectionPool)>>, started: &Vec<bool>, nopool: &Vec<bool>| -> Value {
        let g = d.sh.m.lock().unwrap();
        let clients: Vec<Value> = (0..MAXC)
            .filter(|i| held[*i].is_some())
            .map(|i| {
                let st = if nopool[i] { "nopool" } else if !started[i] { "idle" } else { match g[i].s { S::Blocked => "blocked", S::Done => "passed", _ => "running" } };
                let (db, user, pool) = held[i].as_ref().unwrap();
                // what Client::get_pool() would answer at the session's next `pool = self.get_pool()`
                json!({"client": i, "status": st, "session_pool_paused": pool.paused(),
                       "pool_still_configured": pgcat::pool::get_pool(db, user).is_some()})
            })
            .collect();
        let mut pools: Vec<Value> = pgcat::pool::get_all_pools()
            .iter()
            .map(|(id, p)| json!({"pool": format!("{}", id), "paused": p.paused()}))
            .collect();
        pools.sort_by_key(|v| v["pool"].as_str().unwrap_or("").to_string());
        json!({"clients": clients, "pools": pools})
    };
    for op in req["ops"].as_array().cloned().unwrap_or_default() {
        let name = op["op"].as_str().unwrap_or("");
        let res: Value = match name {
            "config" | "write_config" => {
                std::fs::write(&path, op["toml"].as_str().unwrap_or("")).unwrap();
                if name == "config" {
                    let r = rt.block_on(async {
                        pgcat::config::parse(&path).await.map_err(|e| format!("{:?}", e))?;
                        ConnectionPool::from_config(csm.clone()).await.map_err(|e| format!("{:?}", e))
                    });
                    json!({"ok": r.is_ok(), "err": r.err()})
                } else {
                    json!({"ok": true})
                }
            }
            "admin" => {
                let sql = op["sql"].as_str().unwrap_or("");
                let mut q = BytesMut::new();
                q.put_u8(b'Q');
                q.put_i32(sql.len() as i32 + 5);
                q.put_slice(sql.as_bytes());
                q.put_u8(0);
                for (_, p) in pgcat::pool::get_all_pools() {
                    old_pools.push((sql.to_string(), p));
                }
                let mut out: Vec<u8> = Vec::new();
                let r = rt.block_on(pgcat::admin::handle_admin(&mut out, q, csm.clone()));
                json!({"ok": r.is_ok(), "err": r.err().map(|e| format!("{:?}", e)), "reply": replies(&out)})
            }
            "connect" => {
                let i = op["client"].as_u64().unwrap_or(0) as usize;
                let (db, user) = (op["db"].as_str().unwrap_or("").to_string(), op["user"].as_str().unwrap_or("").to_string());
                match pgcat::pool::get_pool(&db, &user) {
                    Some(p) => {
                        held[i] = Some((db, user, p));
                        json!({"ok": true})
                    }
                    None => json!({"ok": false, "err": "no such pool"}),
                }
            }
            "query" => {
                // Client::handle before every checkout: `pool = self.get_pool().await?;` (the session ends with
                // "No pool configured" if the lookup fails), `pool.wait_paused().await;`, then the pool is
                // looked up again.  "stale": true replays the call site as it was before that lookup was added.
                let i = op["client"].as_u64().unwrap_or(0) as usize;
                let stale = op["stale"].as_bool().unwrap_or(false);
                match held[i].clone() {
                    Some((db, user, old)) => {
                        let looked_up = if stale { Some(old) } else { pgcat::pool::get_pool(&db, &user) };
                        match looked_up {
                            None => {
                                nopool[i] = true;
                                json!({"ok": true, "lookup": "No pool configured"})
                            }
                            Some(p) => {
                                held[i] = Some((db, user, p.clone()));
                                {
                                    let mut g = d.sh.m.lock().unwrap();
                                    g[i] = Slot { s: S::Running, wake_pending: false, ret: None, wakes: 0, polls: 0 };
                                }
                                started[i] = true;
                                d.ctx[i].send(Gate::Real(p)).unwrap();
                                let settled = d.sh.wait_until(i, |s| s.s == S::Blocked || s.s == S::Done, STEP_TIMEOUT_MS);
                                json!({"ok": settled})
                            }
                        }
                    }
                    None => json!({"ok": false, "err": "client not connected"}),
                }
            }
            "observe" => json!({"ok": true}),
            _ => json!({"ok": false, "err": "unknown op"}),
        };
        // wake-ups are delivered synchronously inside notify_waiters(): wait until every woken
        // session has re-polled (no timing involved)
        for i in 0..MAXC {
            if started[i] {
                d.sh.wait_until(i, |s| s.s == S::Blocked || s.s == S::Done, STEP_TIMEOUT_MS);
            }
        }
        // Client::handle: a session whose wait_paused() returned refreshes its pool
        for i in 0..MAXC {
            if started[i] && d.sh.m.lock().unwrap()[i].s == S::Done {
                if let Some((db, user, _)) = held[i].clone() {
                    if let Some(p) = pgcat::pool::get_pool(&db, &user) {
                        held[i] = Some((db, user, p));
                    }
                }
            }
        }
        trace.push(json!({"op": op, "res": res, "obs": observe(&held, &started, &nopool)}));
    }
    std::thread::sleep(Duration::from_millis(grace));
    let fin = observe(&held, &started, &nopool);
    // clean-up: release whoever is still blocked, directly on the pool object its session holds
    for i in 0..MAXC {
        if let Some((_, _, p)) = &held[i] {
            if started[i] {
                let deadline = Instant::now() + Duration::from_millis(STEP_TIMEOUT_MS);
                while d.sh.m.lock().unwrap()[i].s != S::Done && Instant::now() < deadline {
                    p.resume();
                    std::thread::sleep(Duration::from_millis(1));
                }
            }
        }
    }
    let _ = std::fs::remove_file(&path);
    std::mem::forget(rt);
    json!({"id": req["id"], "trace": trace, "final": fin})
}

// ------------------------------------------------------------------------------------ races

#[derive(Clone, Debug)]
struct CallRec {
    client: usize,
    t0: u64,
    t1: u64,
    ret: bool,
}

#[derive(Clone, Debug)]
struct OpRec {
    resume: bool,
    a: u64,
    b: u64,
}

fn spin(n: u32) {
    for _ in 0..n {
        std::hint::spin_loop();
    }
}

async fn race_round(rng: &mut StdRng, max_clients: usize, stats: &mut RaceStats) -> Option<Value> {
    let pool = ConnectionPool::default();
    let clock = Arc::new(AtomicU64::new(1));
    let go = Arc::new(AtomicBool::new(false));
    let start_paused = rng.gen_bool(0.6);
    let mut ops0 = Vec::new();
    if start_paused {
        pool.pause();
        ops0.push(OpRec { resume: false, a: 0, b: 0 });
    }
    // admin program: pause/resume ops, always ending with a resume
    let len = rng.gen_range(1..=12usize);
    let mut prog: Vec<bool> = (0..len).map(|_| rng.gen_bool(0.5)).collect();
    *prog.last_mut().unwrap() = true;
    let k = rng.gen_range(1..=max_clients);
    let ntx = rng.gen_range(1..=12usize);
    let (tx, mut rx) = tokio::sync::mpsc::unbounded_channel::<Vec<CallRec>>();
    let mut handles = Vec::new();
    for c in 0..k {
        let pool = pool.clone();
        let clock = clock.clone();
        let go = go.clone();
        let tx = tx.clone();
        let delays: Vec<u32> = (0..ntx).map(|_| rng.gen_range(0..200)).collect();
        let yields: Vec<bool> = (0..ntx).map(|_| rng.gen_bool(0.1)).collect();
        handles.push(tokio::spawn(async move {
            let mut n = 0u32;
            while !go.load(Ordering::Acquire) {
                n += 1;
                if n % 256 == 0 {
                    tokio::task::yield_now().await;
                }
                std::hint::spin_loop();
            }
            let mut recs = Vec::new();
            for t in 0..delays.len() {
                spin(delays[t]);
                if yields[t] {
                    tokio::task::yield_now().await;
                }
                let t0 = clock.fetch_add(1, Ordering::SeqCst);
                let ret = pool.wait_paused().await;
                let t1 = clock.fetch_add(1, Ordering::SeqCst);
                recs.push(CallRec { client: c, t0, t1, ret });
            }
            let _ = tx.send(recs);
        }));
    }
    drop(tx);
    let admin = {
        let pool = pool.clone();
        let clock = clock.clone();
        let go = go.clone();
        let prog = prog.clone();
        let delays: Vec<u32> = (0..prog.len()).map(|_| rng.gen_range(0..200)).collect();
        tokio::spawn(async move {
            let mut n = 0u32;
            while !go.load(Ordering::Acquire) {
                n += 1;
                if n % 256 == 0 {
                    tokio::task::yield_now().await;
                }
                std::hint::spin_loop();
            }
            let mut ops = Vec::new();
            for (i, r) in prog.iter().enumerate() {
                spin(delays[i]);
                let a = clock.fetch_add(1, Ordering::SeqCst);
                if *r {
                    pool.resume()
                } else {
                    pool.pause()
                }
                let b = clock.fetch_add(1, Ordering::SeqCst);
                ops.push(OpRec { resume: *r, a, b });
            }
            ops
        })
    };
    go.store(true, Ordering::Release);
    let mut ops = ops0;
    ops.extend(admin.await.unwrap());
    // (ii) the last admin op was a completed resume: every client must get through
    let mut calls: Vec<CallRec> = Vec::new();
    let mut got = 0;
    let mut slow = false;
    while got < k {
        match tokio::time::timeout(Duration::from_secs(2), rx.recv()).await {
            Ok(Some(r)) => {
                calls.extend(r);
                got += 1;
            }
            Ok(None) => break,
            Err(_) => {
                slow = true;
                // confirm before calling it stuck (an overloaded machine is not a violation)
                match tokio::time::timeout(Duration::from_secs(15), rx.recv()).await {
                    Ok(Some(r)) => {
                        calls.extend(r);
                        got += 1;
                    }
                    _ => {
                        for h in &handles {
                            h.abort();
                        }
                        return Some(json!({"kind": "stuck", "paused_now": pool.paused(), "clients": k, "tx_per_client": ntx,
                            "start_paused": start_paused, "admin_program": prog.iter().map(|r| if *r {"resume"} else {"pause"}).collect::<Vec<_>>(),
                            "clients_finished": got,
                            "what": "paused == false, no resume in flight, a client has been blocked in wait_paused() for more than 17 s"}));
                    }
                }
            }
        }
    }
    if slow {
        stats.slow += 1;
    }
    // (i) no completed call lies entirely inside a definitely-paused interval
    stats.calls += calls.len() as u64;
    for c in &calls {
        if c.ret {
            stats.held_calls += 1;
        }
        if ops.iter().any(|o| o.resume && c.t0 < o.b && c.t1 > o.a) {
            stats.overlap_calls += 1;
        }
        // the call's start tick is immediately followed by a resume's start tick: the client's
        // notified()/load and the resume's store/notify_waiters really run concurrently
        if ops.iter().any(|o| o.resume && o.a == c.t0 + 1) {
            if c.ret {
                stats.adjacent_held += 1;
            } else {
                stats.adjacent_unheld += 1;
            }
        }
        // the call began while a resume() was between its first and last instruction
        if ops.iter().any(|o| o.resume && o.a < c.t0 && c.t0 < o.b) {
            stats.inflight_calls += 1;
            if c.ret {
                stats.inflight_held += 1;
            }
        }
        for (i, p) in ops.iter().enumerate() {
            if p.resume || p.b >= c.t0 {
                continue;
            }
            // the next resume after this pause in program order
            let next = ops[i + 1..].iter().find(|o| o.resume);
            let definitely_paused_until = match next {
                Some(n) => n.a,
                None => u64::MAX,
            };
            if c.t1 < definitely_paused_until {
                return Some(json!({"kind": "passed-while-paused", "client": c.client, "call": [c.t0, c.t1], "returned": c.ret,
                    "pause_completed_at": p.b, "next_admin_op_started_at": next.map(|n| n.a),
                    "admin_ops": ops.iter().map(|o| json!([if o.resume {"resume"} else {"pause"}, o.a, o.b])).collect::<Vec<_>>()}));
            }
        }
    }
    stats.rounds += 1;
    None
}

#[derive(Default)]
struct RaceStats {
    rounds: u64,
    calls: u64,
    held_calls: u64,
    overlap_calls: u64,
    inflight_calls: u64,
    inflight_held: u64,
    adjacent_held: u64,
    adjacent_unheld: u64,
    slow: u64,
}

fn race(req: &Value) -> Value {
    hooks::arm(false);
    let seed = req["seed"].as_u64().unwrap_or(1);
    let rounds = req["rounds"].as_u64().unwrap_or(1000);
    let workers = req["workers"].as_u64().unwrap_or(4) as usize;
    let max_clients = (req["max_clients"].as_u64().unwrap_or(3) as usize).max(1);
    let rt = tokio::runtime::Builder::new_multi_thread()
        .worker_threads(workers)
        .enable_time()
        .build()
        .unwrap();
    let mut rng = StdRng::seed_from_u64(seed);
    let mut stats = RaceStats::default();
    let mut violations = Vec::new();
    rt.block_on(async {
        for r in 0..rounds {
            if let Some(mut v) = race_round(&mut rng, max_clients, &mut stats).await {
                v["round"] = json!(r);
                v["seed"] = json!(seed);
                violations.push(v);
                if violations.len() >= 3 {
                    break;
                }
            }
        }
    });
    json!({"id": req["id"], "rounds": stats.rounds, "calls": stats.calls, "held_calls": stats.held_calls,
           "overlap_calls": stats.overlap_calls, "inflight_calls": stats.inflight_calls,
           "inflight_held": stats.inflight_held, "adjacent_held": stats.adjacent_held,
           "adjacent_unheld": stats.adjacent_unheld, "slow": stats.slow, "violations": violations})
}

fn main() {
    let stdin = std::io::stdin();
    let stdout = std::io::stdout();
    let mut driver: Option<Driver> = None;
    for line in stdin.lock().lines() {
        let line = match line {
            Ok(l) => l,
            Err(_) => break,
        };
        if line.trim().is_empty() {
            continue;
        }
        let req: Value = match serde_json::from_str(&line) {
            Ok(v) => v,
            Err(e) => {
                println!("{}", json!({"error": format!("bad json: {}", e)}));
                continue;
            }
        };
        let out = match req["mode"].as_str().unwrap_or("schedule") {
            "race" => race(&req),
            "admin" => {
                if driver.is_none() {
                    driver = Some(Driver::new());
                }
                admin_mode(driver.as_ref().unwrap(), &req)
            }
            _ => {
                if driver.is_none() {
                    driver = Some(Driver::new());
                }
                driver.as_ref().unwrap().schedule(&req)
            }
        };
        let mut o = stdout.lock();
        writeln!(o, "{}", out).unwrap();
        o.flush().unwrap();
    }
}
