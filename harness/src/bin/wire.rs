//! Scenario runner: pgcat in-process + mock PostgreSQL backends + scripted clients.
//! One scenario (JSON) on stdin, one JSON result on stdout.  One scenario per process, because
//! pgcat's CONFIG, POOLS, stats registries and statement counter are process globals.
use serde_json::{json, Value};
use std::collections::HashMap;
use std::io::Read;
use std::sync::atomic::Ordering;
use std::sync::Arc;
use tokio::sync::Mutex as AMutex;
use vh::client::{self, Client};
use vh::mockpg::{self, Backend, Log};
use vh::pooler::{self, Control, Pooler};
use vh::util::*;

type Shared = Arc<parking_lot::Mutex<HashMap<String, Arc<AMutex<Client>>>>>;

struct Ctx {
    log: Log,
    backends: HashMap<String, Arc<Backend>>,
    pooler: Option<Pooler>,
    clients: Shared,
    cfg_path: String,
    snapshots: Vec<Value>,
    tasks: HashMap<String, tokio::task::JoinHandle<()>>,
    with_hex: bool,
}

fn subst(toml: &str, backends: &HashMap<String, Arc<Backend>>) -> String {
    let mut t = toml.to_string();
    for (n, b) in backends {
        t = t.replace(&format!("@PORT:{}@", n), &b.port.to_string());
    }
    t
}

async fn client_step(log: &Log, port: u16, clients: &Shared, step: &Value, with_hex: bool) {
    let op = step["op"].as_str().unwrap_or("");
    let cname = step["c"].as_str().unwrap_or("c").to_string();
    match op {
        "connect" => {
            let c = Client::connect(port).await;
            match c {
                None => mockpg::log_event(log, json!({"who": cname, "ev": "connect_failed"})),
                Some(mut c) => {
                    let pkt = match step.get("raw_startup").and_then(|x| x.as_str()) {
                        Some(h) => unhex(h),
                        None => client::startup_packet(&step["params"]),
                    };
                    let sent = c.send_raw(&pkt, &[]).await;
                    mockpg::log_event(log, json!({"who": cname, "ev": "startup_sent", "ok": sent, "params": step["params"]}));
                    if step.get("no_auth").and_then(|x| x.as_bool()).unwrap_or(false) {
                        clients.lock().insert(cname, Arc::new(AMutex::new(c)));
                        return;
                    }
                    // authentication exchange
                    let (mut frames, mut outcome) = c.recv("RZE", 1, step["timeout_ms"].as_u64().unwrap_or(3000), with_hex).await;
                    let mut authed = false;
                    if let Some(last) = frames.last().cloned() {
                        if last["t"] == "R" && last["auth"] == 5 {
                            // MD5 challenge
                            let salt = unhex(last["salt"].as_str().unwrap_or(""));
                            let resp = match step.get("password_raw") {
                                Some(v) if !v.is_null() => client::encode(v),
                                _ => {
                                    let user = step.get("auth_user").and_then(|x| x.as_str()).or(step["params"]["user"].as_str()).unwrap_or("");
                                    let pw = step["password"].as_str().unwrap_or("");
                                    let mut salt_used = salt.clone();
                                    if let Some(h) = step.get("salt_override").and_then(|x| x.as_str()) {
                                        salt_used = unhex(h);
                                    }
                                    let h = pgcat::messages::md5_hash_password(user, pw, &salt_used);
                                    client::frame(b'p', &h)
                                }
                            };
                            c.send_raw(&resp, &[]).await;
                            let (f2, o2) = c.recv("ZE", 1, step["timeout_ms"].as_u64().unwrap_or(3000), with_hex).await;
                            frames.extend(f2);
                            outcome = o2;
                        } else if last["t"] == "R" && last["auth"] == 0 {
                            let (f2, o2) = c.recv("ZE", 1, step["timeout_ms"].as_u64().unwrap_or(3000), with_hex).await;
                            frames.extend(f2);
                            outcome = o2;
                        }
                    }
                    for f in &frames {
                        if f["t"] == "R" && f["auth"] == 0 {
                            authed = true;
                        }
                    }
                    mockpg::log_event(log, json!({"who": cname, "ev": "startup_done", "frames": frames, "outcome": outcome, "auth_ok": authed, "pid": c.pid, "key": c.key}));
                    clients.lock().insert(cname, Arc::new(AMutex::new(c)));
                }
            }
        }
        "send" => {
            let c = match clients.lock().get(&cname).cloned() {
                Some(c) => c,
                None => return,
            };
            let mut bytes = vec![];
            let empty = vec![];
            for m in step["msgs"].as_array().unwrap_or(&empty) {
                bytes.extend(client::encode(m));
            }
            let splits: Vec<usize> = step.get("splits").and_then(|x| x.as_array()).map(|a| a.iter().map(|x| x.as_u64().unwrap_or(0) as usize).collect()).unwrap_or_default();
            let ok = c.lock().await.send_raw(&bytes, &splits).await;
            mockpg::log_event(log, json!({"who": cname, "ev": "sent", "ok": ok, "msgs": step["msgs"], "nbytes": bytes.len(), "hex": if with_hex { json!(hex(&bytes)) } else { Value::Null }}));
        }
        "recv" => {
            let c = match clients.lock().get(&cname).cloned() {
                Some(c) => c,
                None => return,
            };
            let until = step["until"].as_str().unwrap_or("Z");
            let count = step["count"].as_u64().unwrap_or(1) as usize;
            let to = step["timeout_ms"].as_u64().unwrap_or(3000);
            let (frames, outcome) = c.lock().await.recv(until, count, to, with_hex).await;
            mockpg::log_event(log, json!({"who": cname, "ev": "recv", "frames": frames, "outcome": outcome, "label": step["label"]}));
        }
        "close" => {
            let c = clients.lock().get(&cname).cloned();
            if let Some(c) = c {
                c.lock().await.stream = None;
                mockpg::log_event(log, json!({"who": cname, "ev": "closed_by_client"}));
            }
        }
        "sleep" => {
            tokio::time::sleep(std::time::Duration::from_millis(step["ms"].as_u64().unwrap_or(10))).await;
        }
        "cancel" => {
            // CancelRequest on a fresh connection, with explicit pid/key or those issued to client `of`
            let (pid, key) = match step.get("of").and_then(|x| x.as_str()) {
                Some(of) => {
                    let c = clients.lock().get(of).cloned();
                    match c {
                        Some(c) => {
                            let g = c.lock().await;
                            (g.pid, g.key)
                        }
                        None => (0, 0),
                    }
                }
                None => (step["pid"].as_i64().unwrap_or(0) as i32, step["key"].as_i64().unwrap_or(0) as i32),
            };
            if let Some(mut c) = Client::connect(port).await {
                let mut b = vec![];
                b.extend(16i32.to_be_bytes());
                b.extend(80877102i32.to_be_bytes());
                b.extend(pid.to_be_bytes());
                b.extend(key.to_be_bytes());
                c.send_raw(&b, &[]).await;
                mockpg::log_event(log, json!({"who": cname, "ev": "cancel_sent", "pid": pid, "key": key}));
                // wait for pgcat to close the connection (it does after forwarding)
                let _ = c.recv("Z", 1, step["timeout_ms"].as_u64().unwrap_or(500), false).await;
            }
        }
        _ => {}
    }
}

async fn run(scn: Value) -> Value {
    let log: Log = Arc::new(parking_lot::Mutex::new(Vec::new()));
    let mut ctx = Ctx {
        log: log.clone(),
        backends: HashMap::new(),
        pooler: None,
        clients: Arc::new(parking_lot::Mutex::new(HashMap::new())),
        cfg_path: String::new(),
        snapshots: vec![],
        tasks: HashMap::new(),
        with_hex: scn.get("hex").and_then(|x| x.as_bool()).unwrap_or(false),
    };
    let empty = vec![];
    for b in scn["backends"].as_array().unwrap_or(&empty) {
        let name = b["name"].as_str().unwrap().to_string();
        let md5 = b.get("md5").and_then(|m| m.as_array()).map(|a| (a[0].as_str().unwrap().to_string(), a[1].as_str().unwrap().to_string()));
        let be = Backend::start(&name, log.clone(), md5).await;
        if let Some(m) = b.get("mode").and_then(|x| x.as_str()) {
            be.set_mode(m);
        }
        if let Some(ms) = b.get("slow_ms").and_then(|x| x.as_u64()) {
            be.slow_ms.store(ms, Ordering::SeqCst);
        }
        ctx.backends.insert(name, be);
    }
    let dir = format!("{}/wire_{}", scn["tmpdir"].as_str().unwrap_or("/verif/.cache/tmp"), std::process::id());
    let _ = std::fs::create_dir_all(&dir);
    ctx.cfg_path = format!("{}/pgcat.toml", dir);
    std::fs::write(&ctx.cfg_path, subst(scn["toml"].as_str().unwrap_or(""), &ctx.backends)).unwrap();
    let mut result = json!({});
    match pooler::start(&ctx.cfg_path, scn.get("real_signals").and_then(|x| x.as_bool()).unwrap_or(false)).await {
        Ok(p) => ctx.pooler = Some(p),
        Err(e) => {
            result["start_error"] = json!(e);
            let _ = std::fs::remove_dir_all(&dir);
            return result;
        }
    }
    let port = ctx.pooler.as_ref().unwrap().port;
    for step in scn["steps"].as_array().unwrap_or(&empty) {
        let op = step["op"].as_str().unwrap_or("");
        match op {
            "backend" => {
                if let Some(b) = ctx.backends.get(step["b"].as_str().unwrap_or("")) {
                    if let Some(m) = step.get("mode").and_then(|x| x.as_str()) {
                        b.set_mode(m);
                    }
                    if let Some(ms) = step.get("slow_ms").and_then(|x| x.as_u64()) {
                        b.slow_ms.store(ms, Ordering::SeqCst);
                    }
                    mockpg::log_event(&log, json!({"who": "harness", "ev": "backend_mode", "b": step["b"], "mode": step["mode"]}));
                }
            }
            "snapshot" => {
                let mut s = pooler::snapshot();
                s["label"] = step["label"].clone();
                s["csm"] = json!(ctx.pooler.as_ref().unwrap().client_server_map.lock().len());
                let mut bs = serde_json::Map::new();
                for (n, b) in &ctx.backends {
                    let open: Vec<Value> = b.open_conns.lock().iter().map(|(k, v)| json!({"conn": k, "s": v})).collect();
                    bs.insert(n.clone(), json!({"open": open, "max_open": b.max_open.load(Ordering::SeqCst)}));
                }
                s["backends"] = Value::Object(bs);
                s["total_clients"] = json!(ctx.pooler.as_ref().unwrap().total_clients.load(Ordering::SeqCst));
                s["exited"] = json!(ctx.pooler.as_ref().unwrap().exited.load(Ordering::SeqCst));
                s["task_results"] = json!(ctx.pooler.as_ref().unwrap().task_results.lock().clone());
                s["seq"] = json!(mockpg::SEQ.load(Ordering::SeqCst));
                ctx.snapshots.push(s);
            }
            "control" => {
                let c = match step["sig"].as_str().unwrap_or("") {
                    "int" => Control::Sigint,
                    "term" => Control::Sigterm,
                    _ => Control::Sighup,
                };
                let _ = ctx.pooler.as_ref().unwrap().control.send(c).await;
                mockpg::log_event(&log, json!({"who": "harness", "ev": "control", "sig": step["sig"]}));
            }
            "write_config" => {
                std::fs::write(&ctx.cfg_path, subst(step["toml"].as_str().unwrap_or(""), &ctx.backends)).unwrap();
                mockpg::log_event(&log, json!({"who": "harness", "ev": "config_written"}));
            }
            "reload" => {
                let r = pgcat::config::reload_config(ctx.pooler.as_ref().unwrap().client_server_map.clone()).await;
                mockpg::log_event(&log, json!({"who": "harness", "ev": "reload", "result": format!("{:?}", r)}));
            }
            "wait_exit" => {
                let t0 = std::time::Instant::now();
                let to = step["timeout_ms"].as_u64().unwrap_or(5000);
                while !ctx.pooler.as_ref().unwrap().exited.load(Ordering::SeqCst) && (t0.elapsed().as_millis() as u64) < to {
                    tokio::time::sleep(std::time::Duration::from_millis(5)).await;
                }
                mockpg::log_event(&log, json!({"who": "harness", "ev": "wait_exit", "exited": ctx.pooler.as_ref().unwrap().exited.load(Ordering::SeqCst), "ms": t0.elapsed().as_millis() as u64}));
            }
            "spawn" => {
                // run a list of client steps concurrently (for steps that block: pool waits, pauses)
                let name = step["task"].as_str().unwrap_or("t").to_string();
                let steps: Vec<Value> = step["steps"].as_array().cloned().unwrap_or_default();
                let clients = ctx.clients.clone();
                let log2 = log.clone();
                let with_hex = ctx.with_hex;
                let h = tokio::spawn(async move {
                    for s in steps {
                        client_step(&log2, port, &clients, &s, with_hex).await;
                    }
                });
                ctx.tasks.insert(name, h);
            }
            "join" => {
                let name = step["task"].as_str().unwrap_or("t").to_string();
                if let Some(h) = ctx.tasks.remove(&name) {
                    let to = step["timeout_ms"].as_u64().unwrap_or(10000);
                    let r = tokio::time::timeout(std::time::Duration::from_millis(to), h).await;
                    mockpg::log_event(&log, json!({"who": "harness", "ev": "join", "task": name, "finished": r.is_ok()}));
                }
            }
            _ => {
                client_step(&log, port, &ctx.clients, step, ctx.with_hex).await;
            }
        }
    }
    result["events"] = json!(log.lock().clone());
    result["snapshots"] = json!(ctx.snapshots);
    result["task_results"] = json!(ctx.pooler.as_ref().unwrap().task_results.lock().clone());
    result["ports"] = json!(ctx.backends.iter().map(|(k, v)| (k.clone(), v.port)).collect::<HashMap<_, _>>());
    let _ = std::fs::remove_dir_all(&dir);
    result
}

fn main() {
    if std::env::var("VH_PANIC_TRACE").is_err() {
        quiet_panics();
    }
    let mut inp = String::new();
    std::io::stdin().read_to_string(&mut inp).unwrap();
    let scn: Value = serde_json::from_str(&inp).expect("scenario json");
    let workers = scn.get("workers").and_then(|x| x.as_u64()).unwrap_or(2) as usize;
    let rt = tokio::runtime::Builder::new_multi_thread().worker_threads(workers).enable_all().build().unwrap();
    let out = rt.block_on(run(scn));
    println!("{}", out);
    // do not wait for lingering tasks (hung backends, blocked clients)
    std::process::exit(0);
}
