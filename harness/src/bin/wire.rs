//! Scenario runner: pgcat in-process + mock PostgreSQL backends + scripted clients.
//! One scenario (JSON) on stdin, one JSON result on stdout.  One scenario per process, because
//! pgcat's CONFIG, POOLS, stats registries and statement counter are process globals.
use serde_json::{json, Value};
use std::collections::HashMap;
use std::io::Read;
use std::sync::atomic::Ordering;
use std::sync::Arc;
use tokio::sync::Mutex as AMutex;
use vh::client::{self, Client};
use vh::mockpg::{self, Backend, Log};
use vh::pooler::{self, Control, Pooler};
use vh::util::*;

type Shared = Arc<parking_lot::Mutex<HashMap<String, Arc<AMutex<Client>>>>>;

struct Ctx {
    log: Log,
    backends: HashMap<String, Arc<Backend>>,
    pooler: Option<Pooler>,
    clients: Shared,
    cfg_path: String,
    snapshots: Vec<Value>,
    tasks: HashMap<String, tokio::task::JoinHandle<()>>,
    with_hex: bool,
}

fn subst(toml: &str, backends: &HashMap<String, Arc<Backend>>) -> String {
    let mut t = toml.to_string();
    for (n, b) in backends {
        t = t.replace(&format!("@PORT:{}@", n), &b.port.to_string());
    }
    t
}

/// C09: build the PasswordMessage from the computed answer `h` after the edits in `e`.
fn c09_edit_response(h: &mut Vec<u8>, e: &Value) -> Vec<u8> {
    if let Some(n) = e.get("trunc").and_then(|x| x.as_u64()) {
        h.truncate(n as usize);
    }
    if let Some(i) = e.get("xor_at").and_then(|x| x.as_u64()) {
        if (i as usize) < h.len() {
            h[i as usize] ^= 1;
        }
    }
    if let Some(a) = e.get("append").and_then(|x| x.as_str()) {
        h.extend(unhex(a));
    }
    let declared = e.get("declared_len").and_then(|x| x.as_i64()).map(|x| x as i32).unwrap_or(h.len() as i32 + 4);
    let tag = e.get("tag").and_then(|x| x.as_str()).and_then(|t| t.as_bytes().first().cloned()).unwrap_or(b'p');
    let mut f = vec![tag];
    f.extend(declared.to_be_bytes());
    f.extend(h.iter());
    if let Some(a) = e.get("after").and_then(|x| x.as_str()) {
        f.extend(unhex(a)); // bytes pipelined right behind the message
    }
    if let Some(n) = e.get("partial").and_then(|x| x.as_u64()) {
        f.truncate(n as usize);
    }
    f
}

async fn client_step(log: &Log, port: u16, clients: &Shared, step: &Value, with_hex: bool) {
    let op = step["op"].as_str().unwrap_or("");
    let cname = step["c"].as_str().unwrap_or("c").to_string();
    match op {
        "connect" => {
            let c = Client::connect(port).await;
            match c {
                None => mockpg::log_event(log, json!({"who": cname, "ev": "connect_failed"})),
                Some(mut c) => {
                    let pkt = match step.get("raw_startup").and_then(|x| x.as_str()) {
                        Some(h) => unhex(h),
                        None => client::startup_packet(&step["params"]),
                    };
                    let sent = c.send_raw(&pkt, &[]).await;
                    mockpg::log_event(log, json!({"who": cname, "ev": "startup_sent", "ok": sent, "params": step["params"]}));
                    if step.get("no_auth").and_then(|x| x.as_bool()).unwrap_or(false) {
                        clients.lock().insert(cname, Arc::new(AMutex::new(c)));
                        return;
                    }
                    // authentication exchange
                    // C09 (additive): "ssl_byte": true reads the single-byte answer to an SSLRequest first
                    let mut resp_hex = Value::Null;
                    let mut ssl_byte = Value::Null;
                    if step.get("ssl_byte").and_then(|x| x.as_bool()).unwrap_or(false) {
                        use tokio::io::AsyncReadExt;
                        let mut one = [0u8; 1];
                        if let Some(s) = c.stream.as_mut() {
                            if let Ok(Ok(1)) = tokio::time::timeout(std::time::Duration::from_millis(step["timeout_ms"].as_u64().unwrap_or(3000)), s.read(&mut one)).await {
                                ssl_byte = json!((one[0] as char).to_string());
                            }
                        }
                    }
                    let (mut frames, mut outcome) = c.recv("RZE", 1, step["timeout_ms"].as_u64().unwrap_or(3000), with_hex).await;
                    let mut authed = false;
                    if let Some(last) = frames.last().cloned() {
                        if last["t"] == "R" && last["auth"] == 5 {
                            // MD5 challenge
                            let salt = unhex(last["salt"].as_str().unwrap_or(""));
                            let resp = match step.get("password_raw") {
                                Some(v) if !v.is_null() => client::encode(v),
                                _ => {
                                    let user = step.get("auth_user").and_then(|x| x.as_str()).or(step["params"]["user"].as_str()).unwrap_or("");
                                    let pw = step["password"].as_str().unwrap_or("");
                                    let mut salt_used = salt.clone();
                                    if let Some(h) = step.get("salt_override").and_then(|x| x.as_str()) {
                                        salt_used = unhex(h);
                                    }
                                    let mut h = pgcat::messages::md5_hash_password(user, pw, &salt_used);
                                    // C09 (additive): "resp_edit" {trunc,xor_at,append,declared_len,tag,partial} mangles the computed answer
                                    match step.get("resp_edit") {
                                        Some(e) if e.is_object() => c09_edit_response(&mut h, e),
                                        _ => client::frame(b'p', &h),
                                    }
                                }
                            };
                            c.send_raw(&resp, &[]).await;
                            resp_hex = json!(hex(&resp)); // C09: the exact answer bytes sent
                            let (f2, o2) = c.recv("ZE", 1, step["timeout_ms"].as_u64().unwrap_or(3000), with_hex).await;
                            frames.extend(f2);
                            outcome = o2;
                        } else if last["t"] == "R" && last["auth"] == 0 {
                            let (f2, o2) = c.recv("ZE", 1, step["timeout_ms"].as_u64().unwrap_or(3000), with_hex).await;
                            frames.extend(f2);
                            outcome = o2;
                        }
                    }
                    for f in &frames {
                        if f["t"] == "R" && f["auth"] == 0 {
                            authed = true;
                        }
                    }
                    mockpg::log_event(log, json!({"who": cname, "ev": "startup_done", "frames": frames, "outcome": outcome, "auth_ok": authed, "pid": c.pid, "key": c.key, "resp_hex": resp_hex, "ssl_byte": ssl_byte}));
                    clients.lock().insert(cname, Arc::new(AMutex::new(c)));
                }
            }
        }
        "send" => {
            let c = match clients.lock().get(&cname).cloned() {
                Some(c) => c,
                None => return,
            };
            let mut bytes = vec![];
            let empty = vec![];
            for m in step["msgs"].as_array().unwrap_or(&empty) {
                bytes.extend(client::encode(m));
            }
            let splits: Vec<usize> = step.get("splits").and_then(|x| x.as_array()).map(|a| a.iter().map(|x| x.as_u64().unwrap_or(0) as usize).collect()).unwrap_or_default();
            let ok = c.lock().await.send_raw(&bytes, &splits).await;
            mockpg::log_event(log, json!({"who": cname, "ev": "sent", "ok": ok, "msgs": step["msgs"], "nbytes": bytes.len(), "hex": if with_hex { json!(hex(&bytes)) } else { Value::Null }}));
        }
        "recv" => {
            let c = match clients.lock().get(&cname).cloned() {
                Some(c) => c,
                None => return,
            };
            let until = step["until"].as_str().unwrap_or("Z");
            let count = step["count"].as_u64().unwrap_or(1) as usize;
            let to = step["timeout_ms"].as_u64().unwrap_or(3000);
            let mut g = c.lock().await;
            let raw0 = g.rawlog.len();
            let (frames, outcome) = g.recv(until, count, to, with_hex).await;
            // C03: with "hex": true the exact bytes received during this step (Client.rawlog) are exposed as `raw`
            let raw = if with_hex { json!(hex(&g.rawlog[raw0..])) } else { Value::Null };
            drop(g);
            mockpg::log_event(log, json!({"who": cname, "ev": "recv", "frames": frames, "outcome": outcome, "label": step["label"], "raw": raw}));
        }
        "close" => {
            let c = clients.lock().get(&cname).cloned();
            if let Some(c) = c {
                if step.get("rst").and_then(|x| x.as_bool()).unwrap_or(false) {
                    // SO_LINGER 0: the kernel sends RST at once, the peer's next write fails
                    if let Some(st) = c.lock().await.stream.as_ref() {
                        let _ = st.set_linger(Some(std::time::Duration::from_secs(0)));
                    }
                }
                c.lock().await.stream = None;
                mockpg::log_event(log, json!({"who": cname, "ev": "closed_by_client"}));
            }
        }
        // C11 (additive): shut down the WRITE half only (pgcat reads EOF after everything that was sent,
        // the client can still read every reply up to pgcat's own close)
        "half_close" => {
            let c = clients.lock().get(&cname).cloned();
            if let Some(c) = c {
                use tokio::io::AsyncWriteExt;
                let mut g = c.lock().await;
                let ok = match g.stream.as_mut() {
                    Some(s) => s.shutdown().await.is_ok(),
                    None => false,
                };
                mockpg::log_event(log, json!({"who": cname, "ev": "half_closed", "ok": ok}));
            }
        }
        // C11 (additive): read exactly n raw bytes (the one-byte answer to an SSLRequest is not a frame)
        "read_raw" => {
            let c = clients.lock().get(&cname).cloned();
            if let Some(c) = c {
                use tokio::io::AsyncReadExt;
                let n = step["n"].as_u64().unwrap_or(1) as usize;
                let to = step["timeout_ms"].as_u64().unwrap_or(3000);
                let mut buf = vec![0u8; n];
                let mut g = c.lock().await;
                let outcome = match g.stream.as_mut() {
                    Some(s) => match tokio::time::timeout(std::time::Duration::from_millis(to), s.read_exact(&mut buf)).await {
                        Err(_) => "timeout",
                        Ok(Err(_)) => "closed",
                        Ok(Ok(_)) => "ok",
                    },
                    None => "closed",
                };
                mockpg::log_event(log, json!({"who": cname, "ev": "read_raw", "outcome": outcome, "hex": hex(&buf)}));
            }
        }
        "sleep" => {
            tokio::time::sleep(std::time::Duration::from_millis(step["ms"].as_u64().unwrap_or(10))).await;
        }
        "cancel" => {
            // CancelRequest on a fresh connection, with explicit pid/key or those issued to client `of`
            let (pid, key) = match step.get("of").and_then(|x| x.as_str()) {
                Some(of) => {
                    let c = clients.lock().get(of).cloned();
                    match c {
                        Some(c) => {
                            let g = c.lock().await;
                            (g.pid, g.key)
                        }
                        None => (0, 0),
                    }
                }
                None => (step["pid"].as_i64().unwrap_or(0) as i32, step["key"].as_i64().unwrap_or(0) as i32),
            };
            // C10 (additive): "pid_of": client => that client's pid with the explicit (wrong) "key"
            let (pid, key) = match step.get("pid_of").and_then(|x| x.as_str()) {
                Some(of) => {
                    let c = clients.lock().get(of).cloned();
                    match c {
                        Some(c) => (c.lock().await.pid, key),
                        None => (pid, key),
                    }
                }
                None => (pid, key),
            };
            if let Some(mut c) = Client::connect(port).await {
                let mut b = vec![];
                b.extend(16i32.to_be_bytes());
                b.extend(80877102i32.to_be_bytes());
                b.extend(pid.to_be_bytes());
                b.extend(key.to_be_bytes());
                // mix (additive): "splits": [byte offsets] sends the 16-byte CancelRequest in several TCP writes
                let csplits: Vec<usize> = step.get("splits").and_then(|x| x.as_array()).map(|a| a.iter().map(|x| x.as_u64().unwrap_or(0) as usize).collect()).unwrap_or_default();
                c.send_raw(&b, &csplits).await;
                mockpg::log_event(log, json!({"who": cname, "ev": "cancel_sent", "pid": pid, "key": key}));
                // wait for pgcat to close the connection (it does after forwarding)
                let _ = c.recv("Z", 1, step["timeout_ms"].as_u64().unwrap_or(500), false).await;
            }
        }
        _ => {}
    }
}

async fn run(scn: Value) -> Value {
    let log: Log = Arc::new(parking_lot::Mutex::new(Vec::new()));
    let mut ctx = Ctx {
        log: log.clone(),
        backends: HashMap::new(),
        pooler: None,
        clients: Arc::new(parking_lot::Mutex::new(HashMap::new())),
        cfg_path: String::new(),
        snapshots: vec![],
        tasks: HashMap::new(),
        with_hex: scn.get("hex").and_then(|x| x.as_bool()).unwrap_or(false),
    };
    let empty = vec![];
    if scn.get("timing").and_then(|x| x.as_bool()).unwrap_or(false) {
        mockpg::LOG_TIME.store(true, Ordering::SeqCst); // C20: every event carries t_us
    }
    if scn.get("log_out").and_then(|x| x.as_bool()).unwrap_or(false) {
        mockpg::LOG_OUT.store(true, Ordering::SeqCst); // C03: log every byte the mock backends write
    }
    for b in scn["backends"].as_array().unwrap_or(&empty) {
        let name = b["name"].as_str().unwrap().to_string();
        let md5 = b.get("md5").and_then(|m| m.as_array()).map(|a| (a[0].as_str().unwrap().to_string(), a[1].as_str().unwrap().to_string()));
        let be = match b.get("host").and_then(|x| x.as_str()) {
            Some(h) => Backend::start_at(&name, log.clone(), md5, h).await,
            None => Backend::start(&name, log.clone(), md5).await,
        };
        if let Some(k) = b.get("keys").and_then(|x| x.as_str()) {
            *be.key_scheme.lock() = k.to_string(); // C10: unusual BackendKeyData (neg | zero | min | max)
        }
        if let Some(m) = b.get("mode").and_then(|x| x.as_str()) {
            be.set_mode(m);
        }
        if let Some(ms) = b.get("slow_ms").and_then(|x| x.as_u64()) {
            be.slow_ms.store(ms, Ordering::SeqCst);
        }
        if let Some(p) = b.get("c12_params") {
            // C12 (additive): this backend's own session defaults / read-only reports (see mockpg::C12_PARAMS)
            if let Ok(mut g) = mockpg::C12_PARAMS.lock() {
                g.insert(name.clone(), p.clone());
            }
        }
        if let Some(sh) = b.get("shadow").and_then(|x| x.as_object()) {
            // C09: auth_query answers (user -> "md5...")
            let mut g = be.shadow.lock();
            for (k, v) in sh {
                g.insert(k.clone(), v.as_str().unwrap_or("").to_string());
            }
        }
        ctx.backends.insert(name, be);
    }
    let dir = format!("{}/wire_{}", scn["tmpdir"].as_str().unwrap_or("/verif/.cache/tmp"), std::process::id());
    let _ = std::fs::create_dir_all(&dir);
    ctx.cfg_path = format!("{}/pgcat.toml", dir);
    std::fs::write(&ctx.cfg_path, subst(scn["toml"].as_str().unwrap_or(""), &ctx.backends)).unwrap();
    let mut result = json!({});
    match pooler::start(&ctx.cfg_path, scn.get("real_signals").and_then(|x| x.as_bool()).unwrap_or(false)).await {
        Ok(p) => {
            POOLER_STARTED.store(true, Ordering::SeqCst);
            ctx.pooler = Some(p)
        }
        Err(e) => {
            result["start_error"] = json!(e);
            let _ = std::fs::remove_dir_all(&dir);
            return result;
        }
    }
    let port = ctx.pooler.as_ref().unwrap().port;
    let mut marks: HashMap<String, usize> = HashMap::new(); // C10: mark_events / wait_event above_mark
    for step in scn["steps"].as_array().unwrap_or(&empty) {
        let op = step["op"].as_str().unwrap_or("");
        match op {
            "backend" => {
                if let Some(b) = ctx.backends.get(step["b"].as_str().unwrap_or("")) {
                    if let Some(m) = step.get("mode").and_then(|x| x.as_str()) {
                        b.set_mode(m);
                    }
                    if let Some(ms) = step.get("slow_ms").and_then(|x| x.as_u64()) {
                        b.slow_ms.store(ms, Ordering::SeqCst);
                    }
                    if let Some(sh) = step.get("shadow").and_then(|x| x.as_object()) {
                        // C09: replace the auth_query answers
                        let mut g = b.shadow.lock();
                        g.clear();
                        for (k, v) in sh {
                            g.insert(k.clone(), v.as_str().unwrap_or("").to_string());
                        }
                    }
                    if let Some(rs) = step.get("reply_segs").and_then(|x| x.as_array()) {
                        // C20: cut every flush of this backend at these offsets, reply_segd ms apart ([] switches it off)
                        *b.reply_segs.lock() = rs.iter().filter_map(|x| x.as_u64()).map(|x| x as usize).collect();
                        if let Some(d) = step.get("reply_segd").and_then(|x| x.as_u64()) {
                            b.reply_segd.store(d, Ordering::SeqCst);
                        }
                    }
                    if let Some(r) = step.get("refuse_new").and_then(|x| x.as_bool()) {
                        // C10: new connections are refused (established sessions keep working) / accepted again;
                        // returns once the accept loop has dropped / re-opened its listening socket
                        b.refuse_new.store(r, Ordering::SeqCst);
                        let t0 = std::time::Instant::now();
                        while b.listening.load(Ordering::SeqCst) == r && t0.elapsed().as_millis() < 2000 {
                            tokio::time::sleep(std::time::Duration::from_millis(2)).await;
                        }
                        mockpg::log_event(&log, json!({"who": "harness", "ev": "refuse_new", "b": step["b"], "on": r, "listening": b.listening.load(Ordering::SeqCst)}));
                    }
                    if let Some(g) = step.get("open_gate").and_then(|x| x.as_str()) {
                        b.gates.lock().insert(g.to_string()); // C10: let the statement carrying /*mock:gate=<g>*/ finish
                    }
                    if let Some(hm) = step.get("hang_match") {
                        *b.hang_match.lock() = hm.as_str().map(|x| x.to_string());
                    }
                    if let Some(fo) = step.get("fault_on") {
                        // C07: {"tags": "cf", "kind": "hang"|"close"|"mid"|"mid_hang"} or null to disarm
                        *b.fault_on.lock() = match (fo.get("tags").and_then(|x| x.as_str()), fo.get("kind").and_then(|x| x.as_str())) {
                            (Some(t), Some(k)) => Some((t.to_string(), k.to_string())),
                            _ => None,
                        };
                    }
                    if step.get("reset_sessions").and_then(|x| x.as_bool()).unwrap_or(false) {
                        b.reset_epoch.fetch_add(1, Ordering::SeqCst);
                    }
                    if let Some(se) = step.get("slow_exact") {
                        // {"sql": ";", "ms": 600, "count": 1}
                        *b.slow_exact.lock() = se.get("sql").and_then(|x| x.as_str()).map(|t| {
                            (t.to_string(), se["ms"].as_u64().unwrap_or(500), se["count"].as_u64().unwrap_or(1))
                        });
                    }
                    mockpg::log_event(&log, json!({"who": "harness", "ev": "backend_mode", "b": step["b"], "mode": step["mode"]}));
                }
            }
            "snapshot" => {
                let mut s = pooler::snapshot();
                s["label"] = step["label"].clone();
                s["csm"] = json!(ctx.pooler.as_ref().unwrap().client_server_map.lock().len());
                let mut bs = serde_json::Map::new();
                for (n, b) in &ctx.backends {
                    let open: Vec<Value> = b.open_conns.lock().iter().map(|(k, v)| json!({"conn": k, "s": v})).collect();
                    bs.insert(n.clone(), json!({"open": open, "max_open": b.max_open.load(Ordering::SeqCst), "max_open_settled": b.max_open_settled.load(Ordering::SeqCst)}));
                }
                s["backends"] = Value::Object(bs);
                s["total_clients"] = json!(ctx.pooler.as_ref().unwrap().total_clients.load(Ordering::SeqCst));
                s["exited"] = json!(ctx.pooler.as_ref().unwrap().exited.load(Ordering::SeqCst));
                s["task_results"] = json!(ctx.pooler.as_ref().unwrap().task_results.lock().clone());
                s["seq"] = json!(mockpg::SEQ.load(Ordering::SeqCst));
                ctx.snapshots.push(s);
            }
            "bans" => {
                // C07: wall clock + the ban list of every pool (pool.get_bans(): address, reason, stored timestamp)
                let mut pools = vec![];
                let mut all: Vec<_> = pgcat::pool::get_all_pools().into_iter().collect();
                all.sort_by_key(|(id, _)| format!("{}", id));
                for (id, pool) in all {
                    let mut bans: Vec<Value> = pool
                        .get_bans()
                        .iter()
                        .map(|(a, (r, t))| json!({"host": a.host, "port": a.port, "shard": a.shard, "index": a.address_index, "role": format!("{:?}", a.role), "reason": format!("{:?}", r), "ts": t.timestamp()}))
                        .collect();
                    bans.sort_by_key(|b| (b["shard"].as_u64(), b["index"].as_u64()));
                    pools.push(json!({"pool": format!("{}", id), "bans": bans}));
                }
                let unix_ms = std::time::SystemTime::now().duration_since(std::time::UNIX_EPOCH).map(|d| d.as_millis() as u64).unwrap_or(0);
                mockpg::log_event(&log, json!({"who": "harness", "ev": "bans", "label": step["label"], "unix_ms": unix_ms, "pools": pools}));
            }
            "sleep_until_frac" => {
                // C07: sleep until the wall clock's millisecond-of-second is `ms` (ban ages are differences of whole seconds)
                let target = step["ms"].as_u64().unwrap_or(0) % 1000;
                let now = std::time::SystemTime::now().duration_since(std::time::UNIX_EPOCH).map(|d| d.as_millis() as u64).unwrap_or(0);
                let cur = now % 1000;
                let wait = if cur <= target { target - cur } else { 1000 - cur + target };
                tokio::time::sleep(std::time::Duration::from_millis(wait)).await;
            }
            "control" => {
                let c = match step["sig"].as_str().unwrap_or("") {
                    "int" => Control::Sigint,
                    "term" => Control::Sigterm,
                    _ => Control::Sighup,
                };
                let _ = ctx.pooler.as_ref().unwrap().control.send(c).await;
                mockpg::log_event(&log, json!({"who": "harness", "ev": "control", "sig": step["sig"]}));
            }
            "write_config" => {
                std::fs::write(&ctx.cfg_path, subst(step["toml"].as_str().unwrap_or(""), &ctx.backends)).unwrap();
                mockpg::log_event(&log, json!({"who": "harness", "ev": "config_written"}));
            }
            // C18 (additive): start one more real statistics Collector the way main.rs does.  The first tick of its
            // interval fires at once: an end of the statistics period (update_averages + reset_current_counts for
            // every address with a registered server) happens NOW instead of 15 s after the start.
            // C18 (additive): wait for a settled point instead of a fixed sleep: return once everything observable (the
            // statistics registries via the public API, pool states, the global event counter of clients and mock
            // backends, the list of ended pooler tasks) has not moved for `quiet_ms`, or at `deadline_ms`.
            "settle_all" => {
                let quiet = step["quiet_ms"].as_u64().unwrap_or(40);
                let deadline = step["deadline_ms"].as_u64().unwrap_or(1500);
                let t0 = std::time::Instant::now();
                let fp = |ctx: &Ctx| {
                    let s = pooler::snapshot();
                    format!("{}|{}|{}|{}|{}", s["clients"], s["servers"], s["pools"], ctx.pooler.as_ref().unwrap().task_results.lock().len(), mockpg::SEQ.load(Ordering::SeqCst))
                };
                let mut last = fp(&ctx);
                let mut since = std::time::Instant::now();
                loop {
                    tokio::time::sleep(std::time::Duration::from_millis(5)).await;
                    let cur = fp(&ctx);
                    if cur != last {
                        last = cur;
                        since = std::time::Instant::now();
                    }
                    if since.elapsed().as_millis() as u64 >= quiet || t0.elapsed().as_millis() as u64 >= deadline {
                        break;
                    }
                }
            }
            "collector" => {
                let mut c = pgcat::stats::Collector::default();
                c.collect().await;
                tokio::time::sleep(std::time::Duration::from_millis(step["settle_ms"].as_u64().unwrap_or(30))).await;
                mockpg::log_event(&log, json!({"who": "harness", "ev": "collector_started"}));
            }
            "reload" => {
                let r = pgcat::config::reload_config(ctx.pooler.as_ref().unwrap().client_server_map.clone()).await;
                mockpg::log_event(&log, json!({"who": "harness", "ev": "reload", "result": format!("{:?}", r)}));
            }
            // C14 (additive): reload_config in its own task (a panic becomes the result "panic"); the config file
            // removed; CONFIG / POOLS / pool-object identities as seen through pgcat's public API
            "reload_guarded" => {
                let r = vh::reloadobs::guarded_reload(ctx.pooler.as_ref().unwrap().client_server_map.clone()).await;
                mockpg::log_event(&log, json!({"who": "harness", "ev": "reload", "result": r, "label": step["label"]}));
            }
            "delete_config" => {
                let ok = std::fs::remove_file(&ctx.cfg_path).is_ok();
                mockpg::log_event(&log, json!({"who": "harness", "ev": "config_deleted", "ok": ok}));
            }
            // C14 (additive): wait until the mock backends have logged no open/ready/close event for `quiet_ms` (deadline `timeout_ms`):
            // connections of replaced pool objects are closed asynchronously; observations are taken at a settled point
            "settle" => {
                let quiet = step["quiet_ms"].as_u64().unwrap_or(12);
                let to = step["timeout_ms"].as_u64().unwrap_or(600);
                let count = |log: &Log| log.lock().iter().filter(|e| e["ev"] == "open" || e["ev"] == "ready" || e["ev"] == "close").count();
                let t0 = std::time::Instant::now();
                let mut last = count(&log);
                let mut since = std::time::Instant::now();
                while (t0.elapsed().as_millis() as u64) < to {
                    tokio::time::sleep(std::time::Duration::from_millis(2)).await;
                    let n = count(&log);
                    if n != last {
                        last = n;
                        since = std::time::Instant::now();
                    } else if (since.elapsed().as_millis() as u64) >= quiet {
                        break;
                    }
                }
            }
            "reload_state" => {
                let s = vh::reloadobs::observe_full(step.get("full").and_then(|x| x.as_bool()).unwrap_or(false));
                mockpg::log_event(&log, json!({"who": "harness", "ev": "reload_state", "label": step["label"], "state": s}));
            }
            "wait_tasks" => {
                // C09: wait until at least `n` pgcat client tasks have ended (task_results.len() >= n)
                let n = step["n"].as_u64().unwrap_or(0) as usize;
                let to = step["timeout_ms"].as_u64().unwrap_or(3000);
                let t0 = std::time::Instant::now();
                while ctx.pooler.as_ref().unwrap().task_results.lock().len() < n && (t0.elapsed().as_millis() as u64) < to {
                    tokio::time::sleep(std::time::Duration::from_millis(2)).await;
                }
                let tr = ctx.pooler.as_ref().unwrap().task_results.lock().clone();
                mockpg::log_event(&log, json!({"who": "harness", "ev": "wait_tasks", "n": n, "label": step["label"], "task_results": tr}));
            }
            "wait_event" | "mark_events" => {
                // C10: wait until the log holds at least `count` events with this `ev` (and `who`, and whose
                // JSON text contains `contains`, if given).  `mark_events` remembers the current number under
                // `mark`; `wait_event` with `above_mark` waits for that number + `count`.
                let ev = step["ev"].as_str().unwrap_or("").to_string();
                let who = step.get("who").and_then(|x| x.as_str()).map(|x| x.to_string());
                let contains = step.get("contains").and_then(|x| x.as_str()).map(|x| x.to_string());
                let count_now = |log: &Log| log.lock().iter().filter(|e| e["ev"] == ev.as_str() && who.as_ref().map(|w| e["who"] == w.as_str()).unwrap_or(true) && contains.as_ref().map(|c| e.to_string().contains(c.as_str())).unwrap_or(true)).count();
                if op == "mark_events" {
                    let n0 = count_now(&log);
                    marks.insert(step["mark"].as_str().unwrap_or("m").to_string(), n0);
                    mockpg::log_event(&log, json!({"who": "harness", "ev": "mark", "mark": step["mark"], "of": ev, "count": n0}));
                } else {
                    let base = step.get("above_mark").and_then(|x| x.as_str()).and_then(|m| marks.get(m).cloned()).unwrap_or(0);
                    let n = base + step["count"].as_u64().unwrap_or(1) as usize;
                    let to = step["timeout_ms"].as_u64().unwrap_or(1000);
                    let t0 = std::time::Instant::now();
                    while count_now(&log) < n && (t0.elapsed().as_millis() as u64) < to {
                        tokio::time::sleep(std::time::Duration::from_millis(2)).await;
                    }
                }
            }
            "wait_csm" => {
                // C10 (synchronisation only): wait until the key issued to client `of` is / is not in client_server_map
                let want = step["present"].as_bool().unwrap_or(false);
                let to = step["timeout_ms"].as_u64().unwrap_or(1000);
                let c = ctx.clients.lock().get(step["of"].as_str().unwrap_or("")).cloned();
                if let Some(c) = c {
                    let (pid, key) = {
                        let g = c.lock().await;
                        (g.pid, g.key)
                    };
                    let t0 = std::time::Instant::now();
                    while ctx.pooler.as_ref().unwrap().client_server_map.lock().contains_key(&(pid, key)) != want && (t0.elapsed().as_millis() as u64) < to {
                        tokio::time::sleep(std::time::Duration::from_millis(2)).await;
                    }
                }
            }
            "drain_stall" => {
                // C10: the main loop stops / resumes reading the client accounting channel (see pooler::drain_stall)
                let on = step["on"].as_bool().unwrap_or(true);
                if !on {
                    // logged BEFORE the release: whatever the released tasks do is logged after it
                    mockpg::log_event(&log, json!({"who": "harness", "ev": "drain_stall", "on": false, "filled": 0}));
                }
                let filled = pooler::drain_stall(on).await;
                if on {
                    mockpg::log_event(&log, json!({"who": "harness", "ev": "drain_stall", "on": true, "filled": filled}));
                }
            }
            "contend" => {
                // C10: keep client_server_map's mutex busy for `ms` milliseconds from a plain OS thread
                // (held ~400 us at a time, free for a few us in between).  Code that takes the mutex with
                // lock() is only delayed; code that would skip its access when the mutex is busy is exposed.
                let ms = step["ms"].as_u64().unwrap_or(200);
                let map = ctx.pooler.as_ref().unwrap().client_server_map.clone();
                std::thread::spawn(move || {
                    let t0 = std::time::Instant::now();
                    while (t0.elapsed().as_millis() as u64) < ms {
                        let g = map.lock();
                        let h0 = std::time::Instant::now();
                        while h0.elapsed().as_micros() < 400 {
                            std::hint::spin_loop();
                        }
                        drop(g);
                        std::hint::spin_loop();
                    }
                });
                mockpg::log_event(&log, json!({"who": "harness", "ev": "contend", "ms": ms}));
            }
            "hook" => {
                // C10: arm/disarm pgcat::verif_hooks; `park` = accept indices (1-based, every accepted
                // connection counts, cancel requests too) of the client tasks that stop at a point.
                let on = step["arm"].as_bool().unwrap_or(true);
                let park: Vec<u64> = step.get("park").and_then(|x| x.as_array()).map(|a| a.iter().filter_map(|x| x.as_u64()).collect()).unwrap_or_default();
                pooler::HOOK_ACTORS.store(on, Ordering::SeqCst);
                {
                    // every client task except the listed ones passes every point (a practically unlimited number of tickets)
                    let mut g = pgcat::verif_hooks::GATE.0.lock().unwrap();
                    for id in 0..4096u64 {
                        if park.contains(&id) {
                            g.tickets.remove(&id);
                        } else {
                            g.tickets.insert(id, u64::MAX / 2);
                        }
                    }
                }
                pgcat::verif_hooks::arm(on);
                if on {
                    // A parked client task blocks its tokio worker thread.  If that worker was the one that
                    // had just polled the I/O driver and nobody else is awake, the whole runtime would stall;
                    // two always-runnable tasks keep other workers awake (a running worker polls the driver
                    // every few dozen ticks) for as long as the hooks are armed.
                    for _ in 0..2 {
                        tokio::spawn(async {
                            while pooler::HOOK_ACTORS.load(Ordering::SeqCst) {
                                std::thread::sleep(std::time::Duration::from_micros(40));
                                tokio::task::yield_now().await;
                            }
                        });
                    }
                }
                mockpg::log_event(&log, json!({"who": "harness", "ev": "hook", "arm": on, "park": park, "accepted": pooler::ACCEPTED.load(Ordering::SeqCst)}));
            }
            "hook_wait" => {
                let actor = step["actor"].as_u64().unwrap_or(0);
                let to = step["timeout_ms"].as_u64().unwrap_or(1000);
                let p = tokio::task::spawn_blocking(move || pgcat::verif_hooks::wait_parked(actor, to)).await.ok().flatten();
                mockpg::log_event(&log, json!({"who": "harness", "ev": "hook_parked", "actor": actor, "point": p}));
            }
            "hook_release" => {
                let actor = step["actor"].as_u64().unwrap_or(0);
                pgcat::verif_hooks::release(actor);
                mockpg::log_event(&log, json!({"who": "harness", "ev": "hook_released", "actor": actor}));
            }
            // C11 (additive): wait until at least n pgcat client tasks have ended (their results are
            // recorded by a watcher task a moment after the socket closes)
            "wait_tasks" => {
                let t0 = std::time::Instant::now();
                let to = step["timeout_ms"].as_u64().unwrap_or(5000);
                let n = step["n"].as_u64().unwrap_or(1) as usize;
                while ctx.pooler.as_ref().unwrap().task_results.lock().len() < n && (t0.elapsed().as_millis() as u64) < to {
                    tokio::time::sleep(std::time::Duration::from_millis(1)).await;
                }
                let have = ctx.pooler.as_ref().unwrap().task_results.lock().len();
                mockpg::log_event(&log, json!({"who": "harness", "ev": "wait_tasks", "have": have, "want": n, "ms": t0.elapsed().as_millis() as u64}));
            }
            "wait_inuse" => {
                // wait until the pooler's bb8 pools report exactly n connections in use (or timeout)
                let want = step["n"].as_u64().unwrap_or(0);
                let to = step["timeout_ms"].as_u64().unwrap_or(1500);
                let t0 = std::time::Instant::now();
                let mut got;
                loop {
                    got = 0u64;
                    for (_, pool) in pgcat::pool::get_all_pools() {
                        for s in 0..pool.shards() {
                            for i in 0..pool.servers(s) {
                                let st = pool.pool_state(s, i);
                                got += (st.connections - st.idle_connections.min(st.connections)) as u64;
                            }
                        }
                    }
                    if got == want || (t0.elapsed().as_millis() as u64) >= to {
                        break;
                    }
                    tokio::time::sleep(std::time::Duration::from_millis(2)).await;
                }
                if got != want {
                    mockpg::log_event(&log, json!({"who": "harness", "ev": "wait_inuse_timeout", "want": want, "got": got}));
                }
            }
            "wait_clients" => {
                // mix (additive, synchronisation only): wait until exactly n non-admin clients are registered in the client
                // statistics (pool name != "pgcat"), or timeout; the values seen last are logged
                let want = step["n"].as_u64().unwrap_or(0) as usize;
                let to = step["timeout_ms"].as_u64().unwrap_or(1500);
                let t0 = std::time::Instant::now();
                let mut got;
                loop {
                    got = pgcat::stats::get_client_stats().values().filter(|c| c.pool_name() != "pgcat").count();
                    if got == want || (t0.elapsed().as_millis() as u64) >= to {
                        break;
                    }
                    tokio::time::sleep(std::time::Duration::from_millis(2)).await;
                }
                mockpg::log_event(&log, json!({"who": "harness", "ev": "wait_clients", "want": want, "got": got, "label": step["label"], "ms": t0.elapsed().as_millis() as u64}));
            }
            "wait_waiting" => {
                // C04 (additive): wait until exactly n registered clients are in state "waiting" (inside pool.get()), or timeout
                let want = step["n"].as_u64().unwrap_or(0) as usize;
                let to = step["timeout_ms"].as_u64().unwrap_or(1500);
                let t0 = std::time::Instant::now();
                let mut got;
                loop {
                    got = pgcat::stats::get_client_stats().values().filter(|c| format!("{}", c.state.load(Ordering::Relaxed)) == "waiting").count();
                    if got == want || (t0.elapsed().as_millis() as u64) >= to {
                        break;
                    }
                    tokio::time::sleep(std::time::Duration::from_millis(2)).await;
                }
                if got != want {
                    mockpg::log_event(&log, json!({"who": "harness", "ev": "wait_waiting_timeout", "want": want, "got": got}));
                }
            }
            "wait_total" => {
                // C17 (additive): wait until the main loop's total_clients equals `value` (and, if given, `exited`
                // equals the flag) or `timeout_ms` passed; logs the values seen last with a wall-clock stamp
                // (timeout_ms = 0: a pure time-stamped mark)
                let want = step["value"].as_i64();
                let want_exit = step.get("exited").and_then(|x| x.as_bool());
                let to = step["timeout_ms"].as_u64().unwrap_or(0);
                let t0 = std::time::Instant::now();
                loop {
                    let p = ctx.pooler.as_ref().unwrap();
                    let t = p.total_clients.load(Ordering::SeqCst);
                    let e = p.exited.load(Ordering::SeqCst);
                    if (want.map(|w| w == t).unwrap_or(true) && want_exit.map(|w| w == e).unwrap_or(true)) || (t0.elapsed().as_millis() as u64) >= to {
                        let unix_ms = std::time::SystemTime::now().duration_since(std::time::UNIX_EPOCH).map(|d| d.as_millis() as u64).unwrap_or(0);
                        mockpg::log_event(&log, json!({"who": "harness", "ev": "wait_total", "label": step["label"], "total": t, "exited": e, "unix_ms": unix_ms, "waited_ms": t0.elapsed().as_millis() as u64}));
                        break;
                    }
                    tokio::time::sleep(std::time::Duration::from_millis(2)).await;
                }
            }
            "wait_exit" => {
                let t0 = std::time::Instant::now();
                let to = step["timeout_ms"].as_u64().unwrap_or(5000);
                while !ctx.pooler.as_ref().unwrap().exited.load(Ordering::SeqCst) && (t0.elapsed().as_millis() as u64) < to {
                    tokio::time::sleep(std::time::Duration::from_millis(5)).await;
                }
                mockpg::log_event(&log, json!({"who": "harness", "ev": "wait_exit", "exited": ctx.pooler.as_ref().unwrap().exited.load(Ordering::SeqCst), "ms": t0.elapsed().as_millis() as u64}));
            }
            "spawn" => {
                // run a list of client steps concurrently (for steps that block: pool waits, pauses)
                let name = step["task"].as_str().unwrap_or("t").to_string();
                let steps: Vec<Value> = step["steps"].as_array().cloned().unwrap_or_default();
                let clients = ctx.clients.clone();
                let log2 = log.clone();
                let with_hex = ctx.with_hex;
                let h = tokio::spawn(async move {
                    for s in steps {
                        client_step(&log2, port, &clients, &s, with_hex).await;
                    }
                });
                ctx.tasks.insert(name, h);
            }
            "join" => {
                let name = step["task"].as_str().unwrap_or("t").to_string();
                if let Some(h) = ctx.tasks.remove(&name) {
                    let to = step["timeout_ms"].as_u64().unwrap_or(10000);
                    let r = tokio::time::timeout(std::time::Duration::from_millis(to), h).await;
                    mockpg::log_event(&log, json!({"who": "harness", "ev": "join", "task": name, "finished": r.is_ok()}));
                }
            }
            _ => {
                client_step(&log, port, &ctx.clients, step, ctx.with_hex).await;
            }
        }
    }
    // C10: every arrival at a verif_hooks point while armed (actor id, point)
    result["hook_log"] = json!(pgcat::verif_hooks::GATE.0.lock().unwrap().log.iter().map(|(a, p)| json!([a, p])).collect::<Vec<_>>());
    result["events"] = json!(log.lock().clone());
    result["snapshots"] = json!(ctx.snapshots);
    result["task_results"] = json!(ctx.pooler.as_ref().unwrap().task_results.lock().clone());
    result["ports"] = json!(ctx.backends.iter().map(|(k, v)| (k.clone(), v.port)).collect::<HashMap<_, _>>());
    let _ = std::fs::remove_dir_all(&dir);
    result
}

/// C11 (additive): did the in-process pooler start, and what did the harness's OWN main thread panic with, if it did.
/// pgcat's client tasks run in spawned tokio tasks: their panics never reach the main thread; a panic of the main thread is the
/// harness (a socket it could not get, ...) or start-up code — it is reported as `harness_panic`, never as a dead pooler.
static POOLER_STARTED: std::sync::atomic::AtomicBool = std::sync::atomic::AtomicBool::new(false);
static MAIN_PANIC: parking_lot::Mutex<Option<String>> = parking_lot::Mutex::new(None);

fn main() {
    let trace = std::env::var("VH_PANIC_TRACE").is_ok();
    let default_hook = std::panic::take_hook();
    std::panic::set_hook(Box::new(move |info| {
        if std::thread::current().name() == Some("main") {
            *MAIN_PANIC.lock() = Some(format!("{}", info));
        }
        if trace {
            default_hook(info);
        }
    }));
    let r = std::panic::catch_unwind(|| {
        let mut inp = String::new();
        std::io::stdin().read_to_string(&mut inp).unwrap();
        let scn: Value = serde_json::from_str(&inp).expect("scenario json");
        let workers = scn.get("workers").and_then(|x| x.as_u64()).unwrap_or(2) as usize;
        let rt = tokio::runtime::Builder::new_multi_thread().worker_threads(workers).enable_all().build().unwrap();
        rt.block_on(run(scn))
    });
    match r {
        Ok(out) => println!("{}", out),
        Err(_) => {
            let msg = MAIN_PANIC.lock().clone().unwrap_or_else(|| "panic on the harness main thread".to_string());
            println!("{}", json!({"harness_panic": msg, "pooler_started": POOLER_STARTED.load(Ordering::SeqCst)}));
            std::process::exit(3);
        }
    }
    // do not wait for lingering tasks (hung backends, blocked clients)
    std::process::exit(0);
}
