//! Shared harness code: line protocol helpers, hex, panic capture.
pub mod util;
pub mod astproj;
pub mod cfgwalk;
pub mod mockpg;
pub mod client;
pub mod pooler;
pub mod reloadobs;
