//! Shared harness code: line protocol helpers, hex, panic capture.
pub mod util;
pub mod astproj;
