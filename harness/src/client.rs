//! Scripted PostgreSQL client: builds frontend messages from JSON, decodes backend frames to JSON.
use crate::util::{hex, unhex};
use bytes::{Buf, BufMut, BytesMut};
use serde_json::{json, Value};
use tokio::io::{AsyncReadExt, AsyncWriteExt};
use tokio::net::TcpStream;

pub fn frame(code: u8, body: &[u8]) -> Vec<u8> {
    let mut b = BytesMut::new();
    b.put_u8(code);
    b.put_i32(body.len() as i32 + 4);
    b.put_slice(body);
    b.to_vec()
}

fn cs(v: &Value, k: &str) -> Vec<u8> {
    let mut s = v.get(k).and_then(|x| x.as_str()).unwrap_or("").as_bytes().to_vec();
    s.push(0);
    s
}

/// text or {"hex": ".."} or null
fn bytes_of(v: &Value) -> Option<Vec<u8>> {
    match v {
        Value::Null => None,
        Value::String(s) => Some(s.as_bytes().to_vec()),
        Value::Object(o) => o.get("hex").and_then(|h| h.as_str()).map(unhex),
        other => Some(other.to_string().into_bytes()),
    }
}

pub fn startup_packet(params: &Value) -> Vec<u8> {
    let mut b = BytesMut::new();
    b.put_i32(196608);
    if let Some(o) = params.as_object() {
        for (k, v) in o {
            b.put_slice(k.as_bytes());
            b.put_u8(0);
            b.put_slice(v.as_str().unwrap_or("").as_bytes());
            b.put_u8(0);
        }
    }
    b.put_u8(0);
    let mut out = BytesMut::new();
    out.put_i32(b.len() as i32 + 4);
    out.put_slice(&b);
    out.to_vec()
}

pub fn encode(m: &Value) -> Vec<u8> {
    if let Some(h) = m.get("raw").and_then(|x| x.as_str()) {
        return unhex(h);
    }
    let t = m.get("t").and_then(|x| x.as_str()).unwrap_or("Q");
    match t {
        "Q" => {
            let mut body = bytes_of(m.get("sql").unwrap_or(&Value::Null)).unwrap_or_default();
            body.push(0);
            frame(b'Q', &body)
        }
        "P" => {
            let mut b = cs(m, "name");
            let mut q = bytes_of(m.get("sql").unwrap_or(&Value::Null)).unwrap_or_default();
            q.push(0);
            b.extend(q);
            let types: Vec<i64> = m.get("types").and_then(|x| x.as_array()).map(|a| a.iter().map(|x| x.as_i64().unwrap_or(0)).collect()).unwrap_or_default();
            b.extend((types.len() as i16).to_be_bytes());
            for t in types {
                b.extend((t as i32).to_be_bytes());
            }
            frame(b'P', &b)
        }
        "B" => {
            let mut b = cs(m, "portal");
            b.extend(cs(m, "name"));
            let fmts: Vec<i64> = m.get("fmts").and_then(|x| x.as_array()).map(|a| a.iter().map(|x| x.as_i64().unwrap_or(0)).collect()).unwrap_or_default();
            b.extend((fmts.len() as i16).to_be_bytes());
            for f in fmts {
                b.extend((f as i16).to_be_bytes());
            }
            let empty = vec![];
            let params = m.get("params").and_then(|x| x.as_array()).unwrap_or(&empty);
            b.extend((params.len() as i16).to_be_bytes());
            for p in params {
                match bytes_of(p) {
                    None => b.extend((-1i32).to_be_bytes()),
                    Some(v) => {
                        b.extend((v.len() as i32).to_be_bytes());
                        b.extend(v);
                    }
                }
            }
            let rf: Vec<i64> = m.get("rfmts").and_then(|x| x.as_array()).map(|a| a.iter().map(|x| x.as_i64().unwrap_or(0)).collect()).unwrap_or_default();
            b.extend((rf.len() as i16).to_be_bytes());
            for f in rf {
                b.extend((f as i16).to_be_bytes());
            }
            frame(b'B', &b)
        }
        "D" | "C" => {
            let mut b = vec![m.get("kind").and_then(|x| x.as_str()).unwrap_or("S").as_bytes()[0]];
            b.extend(cs(m, "name"));
            frame(t.as_bytes()[0], &b)
        }
        "E" => {
            let mut b = cs(m, "portal");
            b.extend((m.get("max").and_then(|x| x.as_i64()).unwrap_or(0) as i32).to_be_bytes());
            frame(b'E', &b)
        }
        "S" | "H" | "X" | "c" => frame(t.as_bytes()[0], &[]),
        "d" => frame(b'd', &bytes_of(m.get("data").unwrap_or(&Value::Null)).unwrap_or_default()),
        "f" => frame(b'f', &cs(m, "msg")),
        "p" => {
            let mut b = bytes_of(m.get("data").unwrap_or(&Value::Null)).unwrap_or_default();
            if m.get("nul").and_then(|x| x.as_bool()).unwrap_or(true) {
                b.push(0);
            }
            frame(b'p', &b)
        }
        other => {
            let body = bytes_of(m.get("body").unwrap_or(&Value::Null)).unwrap_or_default();
            frame(other.as_bytes()[0], &body)
        }
    }
}

fn rd_cstr(b: &mut &[u8]) -> String {
    let p = b.iter().position(|x| *x == 0).unwrap_or(b.len());
    let s = String::from_utf8_lossy(&b[..p]).to_string();
    *b = if p < b.len() { &b[p + 1..] } else { &b[p..] };
    s
}

pub fn decode(code: u8, body: &[u8], with_hex: bool) -> Value {
    let mut o = json!({"t": (code as char).to_string(), "len": body.len()});
    if with_hex {
        o["hex"] = json!(hex(body));
    }
    let mut b = body;
    match code {
        b'Z' => o["status"] = json!(b.first().map(|x| (*x as char).to_string())),
        b'C' => o["tag"] = json!(rd_cstr(&mut b)),
        b'S' => {
            o["k"] = json!(rd_cstr(&mut b));
            o["v"] = json!(rd_cstr(&mut b));
        }
        b'K' => {
            if b.len() >= 8 {
                o["pid"] = json!(b.get_i32());
                o["key"] = json!(b.get_i32());
            }
        }
        b'R' => {
            if b.len() >= 4 {
                let c = b.get_i32();
                o["auth"] = json!(c);
                if c == 5 && b.len() >= 4 {
                    o["salt"] = json!(hex(&b[..4]));
                }
            }
        }
        b'E' | b'N' => {
            let mut f = serde_json::Map::new();
            while !b.is_empty() && b[0] != 0 {
                let k = b[0] as char;
                b = &b[1..];
                f.insert(k.to_string(), json!(rd_cstr(&mut b)));
            }
            o["fields"] = Value::Object(f);
        }
        b'D' => {
            if b.len() >= 2 {
                let n = b.get_i16();
                let mut cols = vec![];
                for _ in 0..n.max(0) {
                    if b.len() < 4 {
                        break;
                    }
                    let l = b.get_i32();
                    if l < 0 {
                        cols.push(Value::Null);
                    } else {
                        let l = (l as usize).min(b.len());
                        let s = String::from_utf8_lossy(&b[..l]).to_string();
                        // long padding columns are summarised
                        if l > 64 {
                            cols.push(json!({"len": l}));
                        } else {
                            cols.push(json!(s));
                        }
                        b = &b[l..];
                    }
                }
                o["cols"] = json!(cols);
            }
        }
        b'T' => {
            if b.len() >= 2 {
                let n = b.get_i16();
                let mut names = vec![];
                for _ in 0..n.max(0) {
                    names.push(rd_cstr(&mut b));
                    if b.len() >= 18 {
                        b = &b[18..];
                    }
                }
                o["names"] = json!(names);
            }
        }
        _ => {}
    }
    o
}

pub struct Client {
    pub stream: Option<TcpStream>,
    pub pid: i32,
    pub key: i32,
    pub rawlog: Vec<u8>, // every byte received
}

impl Client {
    pub async fn connect(port: u16) -> Option<Client> {
        let s = TcpStream::connect(("127.0.0.1", port)).await.ok()?;
        let _ = s.set_nodelay(true);
        Some(Client { stream: Some(s), pid: 0, key: 0, rawlog: vec![] })
    }

    pub async fn send_raw(&mut self, bytes: &[u8], splits: &[usize]) -> bool {
        let s = match self.stream.as_mut() {
            Some(s) => s,
            None => return false,
        };
        let mut at = 0;
        let mut cuts: Vec<usize> = splits.iter().cloned().filter(|x| *x > 0 && *x < bytes.len()).collect();
        cuts.sort();
        cuts.dedup();
        cuts.push(bytes.len());
        for c in cuts {
            if s.write_all(&bytes[at..c]).await.is_err() {
                return false;
            }
            let _ = s.flush().await;
            at = c;
            if at < bytes.len() {
                tokio::time::sleep(std::time::Duration::from_millis(3)).await;
            }
        }
        true
    }

    /// Read frames until `count` frames whose tag is in `until` were seen, EOF, or `timeout_ms`
    /// of silence.  Returns (frames, outcome).
    pub async fn recv(&mut self, until: &str, count: usize, timeout_ms: u64, with_hex: bool) -> (Vec<Value>, &'static str) {
        let mut frames = vec![];
        let mut seen = 0;
        let s = match self.stream.as_mut() {
            Some(s) => s,
            None => return (frames, "closed"),
        };
        let to = std::time::Duration::from_millis(timeout_ms);
        loop {
            if count > 0 && seen >= count {
                return (frames, "ok");
            }
            let mut hdr = [0u8; 5];
            match tokio::time::timeout(to, s.read_exact(&mut hdr)).await {
                Err(_) => return (frames, "timeout"),
                Ok(Err(_)) => return (frames, "closed"),
                Ok(Ok(_)) => {}
            }
            let len = i32::from_be_bytes([hdr[1], hdr[2], hdr[3], hdr[4]]);
            if len < 4 {
                frames.push(json!({"t": "?", "bad_len": len, "code": hdr[0]}));
                return (frames, "garbage");
            }
            let mut body = vec![0u8; len as usize - 4];
            match tokio::time::timeout(std::time::Duration::from_millis(timeout_ms.max(3000)), s.read_exact(&mut body)).await {
                Err(_) => return (frames, "timeout-in-frame"),
                Ok(Err(_)) => return (frames, "closed-in-frame"),
                Ok(Ok(_)) => {}
            }
            self.rawlog.extend_from_slice(&hdr);
            self.rawlog.extend_from_slice(&body);
            let f = decode(hdr[0], &body, with_hex);
            if hdr[0] == b'K' {
                self.pid = f["pid"].as_i64().unwrap_or(0) as i32;
                self.key = f["key"].as_i64().unwrap_or(0) as i32;
            }
            frames.push(f);
            if until.as_bytes().contains(&hdr[0]) {
                seen += 1;
            }
        }
    }
}
