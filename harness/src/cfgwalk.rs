//! Reusable part of the C15 driver: feed TOML text to the real `pgcat::config::parse`,
//! build the pools with the real `ConnectionPool::from_config` and walk every
//! (pool, user, shard, server) through the real accessors.  Nothing here needs a
//! PostgreSQL server: with `validate_config = false` in `[general]` the bb8 pools
//! are built unchecked.  A wire-level harness can call `load` + `build` + `walk`
//! and then run statements against the pools that `walk` describes.
use bytes::{BufMut, BytesMut};
use pgcat::config::{Address, Role};
use pgcat::pool::{get_all_pools, BanReason, ClientServerMap, ConnectionPool, POOLS};
use pgcat::stats::ClientStats;
use serde_json::{json, Value};
use std::collections::HashMap;
use std::sync::Arc;

fn panic_msg(e: Box<dyn std::any::Any + Send>) -> String {
    if let Some(s) = e.downcast_ref::<&str>() {
        s.to_string()
    } else if let Some(s) = e.downcast_ref::<String>() {
        s.clone()
    } else {
        "panic".to_string()
    }
}

pub fn role_s(r: Role) -> &'static str {
    match r {
        Role::Primary => "primary",
        Role::Replica => "replica",
        Role::Mirror => "mirror",
    }
}

fn role_opt(v: &Value) -> Option<Role> {
    match v.as_str() {
        Some("primary") => Some(Role::Primary),
        Some("replica") => Some(Role::Replica),
        Some("mirror") => Some(Role::Mirror),
        _ => None,
    }
}

/// `config::parse` on the text (written to `path` first).  Ok(()) = accepted (and stored in the
/// global CONFIG), Err = rejected / panicked ("panic: ..").
pub async fn load(text: &str, path: &str) -> Result<(), String> {
    std::fs::write(path, text).map_err(|e| format!("harness: cannot write {}: {}", path, e))?;
    let p = path.to_string();
    match tokio::spawn(async move { pgcat::config::parse(&p).await }).await {
        Ok(Ok(())) => Ok(()),
        Ok(Err(e)) => Err(format!("{:?}", e)),
        Err(e) if e.is_panic() => Err(format!("panic: {}", panic_msg(e.into_panic()))),
        Err(e) => Err(format!("join: {}", e)),
    }
}

/// Real `ConnectionPool::from_config` on the current global CONFIG, starting from an empty POOLS
/// map (so that no pool of a previous configuration is reused).  "ok" | "err: .." | "panic: ..".
pub async fn build(csm: ClientServerMap) -> String {
    POOLS.store(Arc::new(HashMap::new()));
    match tokio::spawn(async move { ConnectionPool::from_config(csm).await }).await {
        Ok(Ok(())) => "ok".to_string(),
        Ok(Err(e)) => format!("err: {:?}", e),
        Err(e) if e.is_panic() => format!("panic: {}", panic_msg(e.into_panic())),
        Err(e) => format!("join: {}", e),
    }
}

fn addr_json(a: &Address) -> Value {
    json!({
        "host": a.host, "port": a.port, "role": role_s(a.role), "shard": a.shard,
        "index": a.address_index, "replica_number": a.replica_number, "id": a.id,
        "database": a.database, "username": a.username, "pool_name": a.pool_name, "name": a.name(),
        "mirrors": a.mirrors.iter().map(|m| json!({"host": m.host, "port": m.port, "role": role_s(m.role),
            "shard": m.shard, "index": m.address_index, "replica_number": m.replica_number})).collect::<Vec<_>>(),
    })
}

/// Every field of the built pool's PoolSettings (the values the running pooler works with).
pub fn settings_json(s: &pgcat::pool::PoolSettings) -> Value {
    let u = &s.user;
    json!({
        "pool_mode": s.pool_mode.to_string(),
        "load_balancing_mode": s.load_balancing_mode.to_string(),
        "checkout_failure_limit": s.checkout_failure_limit,
        "shards": s.shards,
        "db": s.db,
        "user": {
            "username": u.username, "password": u.password, "pool_size": u.pool_size, "min_pool_size": u.min_pool_size,
            "pool_mode": u.pool_mode.map(|m| m.to_string()), "server_lifetime": u.server_lifetime,
            "statement_timeout": u.statement_timeout, "connect_timeout": u.connect_timeout, "idle_timeout": u.idle_timeout,
            "server_username": u.server_username, "server_password": u.server_password,
            "auth_type": format!("{:?}", u.auth_type),
        },
        "default_role": s.default_role.map(role_s),
        "query_parser_enabled": s.query_parser_enabled,
        "query_parser_max_length": s.query_parser_max_length,
        "query_parser_read_write_splitting": s.query_parser_read_write_splitting,
        "primary_reads_enabled": s.primary_reads_enabled,
        "db_activity": [s.db_activity_based_routing, s.db_activity_init_delay, s.db_activity_ttl, s.table_mutation_cache_ms_ttl],
        "sharding_function": s.sharding_function.to_string(),
        "automatic_sharding_key": s.automatic_sharding_key,
        "healthcheck_timeout": s.healthcheck_timeout,
        "healthcheck_delay": s.healthcheck_delay,
        "ban_time": s.ban_time,
        "sharding_key_regex": s.sharding_key_regex.as_ref().map(|r| r.as_str().to_string()),
        "shard_id_regex": s.shard_id_regex.as_ref().map(|r| r.as_str().to_string()),
        "default_shard": format!("{:?}", s.default_shard),
        "regex_search_limit": s.regex_search_limit,
        "auth_query": s.auth_query, "auth_query_user": s.auth_query_user, "auth_query_password": s.auth_query_password,
        "plugins": serde_json::to_value(&s.plugins).unwrap_or(Value::Null),
    })
}

fn sorted_pools() -> Vec<(String, String, ConnectionPool)> {
    let mut v: Vec<(String, String, ConnectionPool)> = get_all_pools()
        .into_iter()
        .map(|(id, p)| (id.db.clone(), id.user.clone(), p))
        .collect();
    v.sort_by(|a, b| (a.0.clone(), a.1.clone()).cmp(&(b.0.clone(), b.1.clone())));
    v
}

macro_rules! step {
    ($panics:expr, $what:expr, $body:expr) => {
        match crate::util::guarded(|| $body) {
            Ok(v) => Some(v),
            Err(m) => {
                $panics.push(json!({"step": $what, "panic": m}));
                None
            }
        }
    };
}

/// Walk every pool in POOLS: shards(), servers(s), address(s,i), pool_state(s,i),
/// is_banned / ban / get_bans / try_unban / unban on every address, get_addresses_from_host.
/// Every call is guarded; a panic is recorded in "panics" with the step that caused it.
pub async fn walk() -> Value {
    let mut out = Vec::new();
    for (db, user, pool) in sorted_pools() {
        let mut panics: Vec<Value> = Vec::new();
        let n = pool.shards();
        let s = &pool.settings;
        let mut shards_json = Vec::new();
        for sh in 0..n {
            let m = step!(panics, format!("servers({})", sh), pool.servers(sh)).unwrap_or(0);
            let mut row = Vec::new();
            for i in 0..m {
                let a = match step!(panics, format!("address({},{})", sh, i), pool.address(sh, i).clone()) {
                    Some(a) => a,
                    None => continue,
                };
                let mut j = addr_json(&a);
                let st = step!(panics, format!("pool_state({},{})", sh, i), pool.pool_state(sh, i));
                j["state"] = match st {
                    Some(st) => json!({"connections": st.connections, "idle": st.idle_connections}),
                    None => Value::Null,
                };
                // what get() does with a candidate: self.databases[address.shard][address.address_index]
                j["state_by_address"] = json!(step!(panics, format!("pool_state(a.shard={},a.index={})", a.shard, a.address_index),
                    pool.pool_state(a.shard, a.address_index)).is_some());
                j["banned_before"] = json!(step!(panics, format!("is_banned[{},{}]", sh, i), pool.is_banned(&a)));
                step!(panics, format!("ban[{},{}]", sh, i), pool.ban(&a, BanReason::AdminBan(3600), None));
                j["banned_after_ban"] = json!(step!(panics, format!("is_banned2[{},{}]", sh, i), pool.is_banned(&a)));
                j["in_get_bans"] = json!(step!(panics, format!("get_bans[{},{}]", sh, i), pool.get_bans().iter().any(|(x, _)| *x == a)));
                let (p2, a2) = (pool.clone(), a.clone());
                j["try_unban"] = match tokio::spawn(async move { p2.try_unban(&a2).await }).await {
                    Ok(b) => json!(b),
                    Err(e) => {
                        let m = if e.is_panic() { panic_msg(e.into_panic()) } else { "join".to_string() };
                        panics.push(json!({"step": format!("try_unban[{},{}]", sh, i), "panic": m}));
                        Value::Null
                    }
                };
                step!(panics, format!("unban[{},{}]", sh, i), pool.unban(&a));
                j["banned_after_unban"] = json!(step!(panics, format!("is_banned3[{},{}]", sh, i), pool.is_banned(&a)));
                j["by_host"] = json!(step!(panics, format!("get_addresses_from_host[{},{}]", sh, i),
                    pool.get_addresses_from_host(&a.host).iter().map(|x| json!([x.shard, x.address_index])).collect::<Vec<_>>()));
                row.push(j);
            }
            shards_json.push(Value::Array(row));
        }
        let databases = step!(panics, "databases()".to_string(), pool.databases());
        out.push(json!({
            "db": db, "user": user, "shards": n, "settings_shards": s.shards, "databases": databases,
            "default_shard": format!("{:?}", s.default_shard),
            "default_role": s.default_role.map(role_s),
            "pool_size": s.user.pool_size, "min_pool_size": s.user.min_pool_size,
            "automatic_sharding_key": s.automatic_sharding_key,
            "plugins": s.plugins.is_some(),
            "settings": settings_json(s),
            "addresses": shards_json, "panics": panics,
        }));
    }
    Value::Array(out)
}

fn qmsg(sql: &str) -> BytesMut {
    let mut b = BytesMut::new();
    b.put_u8(b'Q');
    b.put_i32(sql.len() as i32 + 5);
    b.put_slice(sql.as_bytes());
    b.put_u8(0);
    b
}

/// Decode DataRow messages of an admin reply into rows of strings.
pub fn data_rows(buf: &[u8]) -> Vec<Vec<String>> {
    let mut rows = Vec::new();
    let mut i = 0;
    while i + 5 <= buf.len() {
        let code = buf[i];
        let len = i32::from_be_bytes([buf[i + 1], buf[i + 2], buf[i + 3], buf[i + 4]]) as usize;
        if len < 4 || i + 1 + len > buf.len() {
            break;
        }
        let body = &buf[i + 5..i + 1 + len];
        if code == b'D' && body.len() >= 2 {
            let n = i16::from_be_bytes([body[0], body[1]]) as usize;
            let mut p = 2;
            let mut row = Vec::new();
            for _ in 0..n {
                if p + 4 > body.len() {
                    break;
                }
                let l = i32::from_be_bytes([body[p], body[p + 1], body[p + 2], body[p + 3]]);
                p += 4;
                if l < 0 {
                    row.push("NULL".to_string());
                } else {
                    let l = l as usize;
                    row.push(String::from_utf8_lossy(&body[p..p + l]).to_string());
                    p += l;
                }
            }
            rows.push(row);
        }
        i += 1 + len;
    }
    rows
}

/// Run admin statements through the real `pgcat::admin::handle_admin` (writing into a Vec).
pub async fn admin(cmds: &[String], csm: ClientServerMap) -> Value {
    let mut out = serde_json::Map::new();
    for c in cmds {
        let q = qmsg(c);
        let csm2 = csm.clone();
        let r = tokio::spawn(async move {
            let mut sink: Vec<u8> = Vec::new();
            let r = pgcat::admin::handle_admin(&mut sink, q, csm2).await;
            (r.map_err(|e| format!("{:?}", e)), sink)
        })
        .await;
        let v = match r {
            Ok((Ok(()), sink)) => json!({"ok": true, "rows": data_rows(&sink)}),
            Ok((Err(e), _)) => json!({"err": e}),
            Err(e) if e.is_panic() => json!({"panic": panic_msg(e.into_panic())}),
            Err(e) => json!({"err": format!("join: {}", e)}),
        };
        out.insert(c.clone(), v);
    }
    Value::Object(out)
}

/// The real `ConnectionPool::get` against servers that refuse connections: every candidate is
/// tried (checkout error => `address.error_count` incremented, non-primaries banned), then
/// AllServersDown.  The set of addresses whose error count moved is exactly the candidate set
/// `get` computed for (shard, role).  `probes`: [[shard|null, role|null], ..].
pub async fn probe_get(db: &str, user: &str, probes: &[Value]) -> Value {
    let pool = match pgcat::pool::get_pool(db, user) {
        Some(p) => p,
        None => return json!({"err": "no such pool"}),
    };
    let mut res = Vec::new();
    for pr in probes {
        let shard = pr.get(0).and_then(|x| x.as_u64()).map(|x| x as usize);
        let role = pr.get(1).and_then(role_opt);
        // reset observation state
        let mut all = Vec::new();
        for sh in 0..pool.shards() {
            if let Ok(m) = crate::util::guarded(|| pool.servers(sh)) {
                for i in 0..m {
                    if let Ok(a) = crate::util::guarded(|| pool.address(sh, i).clone()) {
                        a.reset_error_count();
                        let _ = crate::util::guarded(|| pool.unban(&a));
                        all.push((sh, i, a));
                    }
                }
            }
        }
        let p2 = pool.clone();
        let (d, u) = (db.to_string(), user.to_string());
        let started = std::time::Instant::now();
        let r = tokio::spawn(async move {
            let cs = ClientStats::new(1, "verif", &u, &d, tokio::time::Instant::now());
            match p2.get(shard, role, &cs).await {
                Ok((_c, a)) => format!("connected:{}:{}", a.host, a.port),
                Err(e) => format!("{:?}", e),
            }
        })
        .await;
        let outcome = match r {
            Ok(s) => s,
            Err(e) if e.is_panic() => format!("panic: {}", panic_msg(e.into_panic())),
            Err(e) => format!("join: {}", e),
        };
        let tried: Vec<Value> = all.iter().filter(|(_, _, a)| a.error_count() > 0).map(|(s, i, a)| json!([s, i, a.host, a.port, role_s(a.role), a.error_count()])).collect();
        let banned: Vec<Value> = crate::util::guarded(|| pool.get_bans()).unwrap_or_default().iter().map(|(a, _)| json!([a.shard, a.address_index])).collect();
        res.push(json!({"probe": pr, "outcome": outcome, "tried": tried, "banned": banned, "elapsed_ms": started.elapsed().as_millis() as u64}));
        for (_, _, a) in &all {
            a.reset_error_count();
            let _ = crate::util::guarded(|| pool.unban(a));
        }
    }
    Value::Array(res)
}

/// One configuration, end to end.  `case`: {"toml": text, "admin": [cmds]?, "probe": {"db","user","probes"}?, "show": bool?}
pub async fn run_config(case: &Value, path: &str) -> Value {
    let text = case["toml"].as_str().unwrap_or("");
    let mut o = json!({});
    match load(text, path).await {
        Ok(()) => o["accept"] = json!(true),
        Err(e) => {
            o["accept"] = json!(false);
            o["error"] = json!(e);
            return o;
        }
    }
    if case.get("dump").and_then(|x| x.as_bool()).unwrap_or(false) {
        // the parsed configuration as stored (every option, defaults filled in by serde)
        o["config"] = serde_json::to_value(pgcat::config::get_config()).unwrap_or(Value::Null);
    }
    if case.get("parse_only").and_then(|x| x.as_bool()).unwrap_or(false) {
        return o;
    }
    if case.get("show").and_then(|x| x.as_bool()).unwrap_or(false) {
        // main.rs calls config.show() right after binding the listener
        // (no logger is installed: the records go nowhere, but with the level raised the
        // arguments of the info!() calls are evaluated as they are in the real binary)
        log::set_max_level(log::LevelFilter::Info);
        let r = crate::util::guarded(|| pgcat::config::get_config().show());
        log::set_max_level(log::LevelFilter::Off);
        o["show"] = match r {
            Ok(()) => json!("ok"),
            Err(m) => json!(format!("panic: {}", m)),
        };
    }
    if pgcat::config::get_config().general.tls_certificate.is_some() {
        // what every TLS client connection does first (client.rs startup_tls -> Tls::new)
        o["tls"] = match crate::util::guarded(|| pgcat::tls::Tls::new().map(|_| ())) {
            Ok(Ok(())) => json!("ok"),
            Ok(Err(e)) => json!(format!("err: {:?}", e)),
            Err(m) => json!(format!("panic: {}", m)),
        };
    }
    let csm: ClientServerMap = Arc::new(parking_lot::Mutex::new(HashMap::new()));
    let b = build(csm.clone()).await;
    o["from_config"] = json!(b);
    if b != "ok" {
        return o;
    }
    o["pools"] = walk().await;
    if let Some(cmds) = case.get("admin").and_then(|x| x.as_array()) {
        let cmds: Vec<String> = cmds.iter().filter_map(|x| x.as_str().map(|s| s.to_string())).collect();
        o["admin"] = admin(&cmds, csm.clone()).await;
    }
    if let Some(p) = case.get("probe") {
        let empty = Vec::new();
        o["probe"] = probe_get(
            p["db"].as_str().unwrap_or(""),
            p["user"].as_str().unwrap_or(""),
            p["probes"].as_array().unwrap_or(&empty),
        )
        .await;
    }
    // drop the pools of this configuration (reaper tasks end with them)
    POOLS.store(Arc::new(HashMap::new()));
    o
}
