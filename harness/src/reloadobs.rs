//! C14: observation of the two process globals a reload touches.
//!   CONFIG  -> path, a digest of everything outside `pools`, per pool `Pool::hash_value()` + user names
//!   POOLS   -> per (db,user): `config_hash`, the identity of the ConnectionPool object, its servers
//! Identity of a ConnectionPool = address of its `settings: Arc<PoolSettings>` (every clone of the
//! ConnectionPool shares that Arc, a rebuilt pool has a new one).  The harness keeps a `Weak` of
//! every object it has seen: a Weak keeps the ALLOCATION (not the value) alive, so an address is
//! never reused for a later object, and `strong_count` tells how many clones are still alive.
use parking_lot::Mutex;
use pgcat::config::get_config;
use pgcat::pool::{get_all_pools, ClientServerMap, PoolSettings};
use serde_json::{json, Value};
use std::collections::hash_map::DefaultHasher;
use std::hash::{Hash, Hasher};
use std::sync::{Arc, Weak};

static SEEN: once_cell::sync::Lazy<Mutex<Vec<(usize, String, Weak<PoolSettings>)>>> = once_cell::sync::Lazy::new(|| Mutex::new(Vec::new()));

fn digest(s: &str) -> String {
    let mut h = DefaultHasher::new();
    s.hash(&mut h);
    format!("{:016x}", h.finish())
}

pub fn observe() -> Value {
    observe_full(false)
}

/// `full`: also the Debug text of every pool's settings and addresses (mirrors included)
pub fn observe_full(full: bool) -> Value {
    let cfg = get_config();
    let mut cpools = vec![];
    let mut names: Vec<&String> = cfg.pools.keys().collect();
    names.sort();
    for n in names {
        let p = &cfg.pools[n];
        let users: Vec<String> = p.users.values().map(|u| u.username.clone()).collect();
        cpools.push(json!({"name": n, "hash": format!("{:016x}", p.hash_value()), "users": users}));
    }
    let general = digest(&format!("{:?}|{:?}", cfg.general, cfg.plugins));
    let mut pools = vec![];
    let mut all: Vec<_> = get_all_pools().into_iter().collect();
    all.sort_by_key(|(id, _)| (id.db.clone(), id.user.clone()));
    let mut seen = SEEN.lock();
    for (id, pool) in all.iter() {
        let ptr = Arc::as_ptr(&pool.settings) as usize;
        if !seen.iter().any(|(p, _, _)| *p == ptr) {
            seen.push((ptr, format!("{}", id), Arc::downgrade(&pool.settings)));
        }
        let obj = seen.iter().position(|(p, _, _)| *p == ptr).unwrap();
        let mut servers = vec![];
        let mut addr_dbg = String::new();
        for s in 0..pool.shards() {
            for i in 0..pool.servers(s) {
                let a = pool.address(s, i);
                servers.push(json!({"shard": s, "port": a.port, "role": format!("{:?}", a.role), "host": a.host, "index": i,
                                    "mirrors": a.mirrors.iter().map(|m| json!([m.host, m.port, m.address_index])).collect::<Vec<_>>()}));
                addr_dbg.push_str(&format!("{}:{}:{:?}:{}:{}:{:?};", a.host, a.port, a.role, a.shard, a.database,
                                           a.mirrors.iter().map(|m| (m.host.clone(), m.port, m.address_index)).collect::<Vec<_>>()));
            }
        }
        let mut bans: Vec<Value> = pool.get_bans().iter().map(|(a, _)| json!([a.shard, a.address_index])).collect();
        bans.sort_by_key(|b| b.to_string());
        let settings_dbg = format!("{:?}|{}", pool.settings, addr_dbg);
        pools.push(json!({"db": id.db, "user": id.user, "hash": format!("{:016x}", pool.config_hash), "obj": obj,
                          "mode": format!("{:?}", pool.settings.pool_mode), "pool_size": pool.settings.user.pool_size,
                          "default_role": format!("{:?}", pool.settings.default_role), "password": pool.settings.user.password, "servers": servers,
                          "statement_timeout": pool.settings.user.statement_timeout, "paused": pool.paused(), "bans": bans, "shards": pool.shards(),
                          "settings_digest": digest(&settings_dbg), "settings": if full { json!(settings_dbg) } else { Value::Null }}));
    }
    drop(all); // the temporary clones made by get_all_pools() must not count as holders
    // every pool object ever seen: how many ConnectionPool clones (store + clients) still exist
    let objects: Vec<Value> = seen.iter().enumerate().map(|(i, (_, id, w))| json!({"obj": i, "id": id, "clones": w.strong_count()})).collect();
    json!({"config": {"path": cfg.path, "general": general, "pools": cpools,
                      "idle_client_in_transaction_timeout": cfg.general.idle_client_in_transaction_timeout},
           "pools": pools, "objects": objects})
}

/// reload_config in its own task: a panic inside it is reported, not propagated.
pub async fn guarded_reload(csm: ClientServerMap) -> String {
    let h = tokio::spawn(async move { pgcat::config::reload_config(csm).await });
    match h.await {
        Ok(r) => format!("{:?}", r),
        Err(e) => {
            if e.is_panic() {
                "panic".to_string()
            } else {
                "cancelled".to_string()
            }
        }
    }
}
