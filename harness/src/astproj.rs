//! Projection of sqlparser's AST to the abstract statement shape of coq/Route/Model.v
//! (exactly the fields pgcat's `infer` inspects plus the ones the property speaks about).
//!
//! Per statement: {"k": "start"} | {"k": "query", "q": Q} | {"k": "other", "name": ..},
//! plus two summary flags computed by an independent walk (sqlparser's own `Visitor` over the
//! whole statement): "any_lock" (some Query node anywhere has a locking clause) and "any_mut"
//! (some Query node anywhere has an Insert/Update body or a SELECT .. INTO arm).
//! Q = {"locks": bool, "with": [Q..], "subs": [Q..], "body": B}
//!     with: the CTE queries; subs: every other Query node that is a direct child of this one
//!     in sqlparser's visitor order and is neither a CTE nor a parenthesised arm of the body
//!     (derived tables, scalar/EXISTS/IN sub-queries, sub-queries in VALUES rows, ORDER BY,
//!     LIMIT, ...).  with + subs + the "nested" arms of B are exactly the direct children.
//! B = {"b": "select", "into": bool} | {"b": "nested", "q": Q} | {"b": "setop", "l": B, "r": B}
//!   | {"b": "values"} | {"b": "insert"} | {"b": "update"} | {"b": "table"}
use serde_json::{json, Value};
use sqlparser::ast::{Query, SetExpr, Statement, Visit, Visitor};
use std::ops::ControlFlow;

/// Collects the projection of every direct child Query of the visited Query that is not
/// listed as structural (CTE / parenthesised body arm).
struct DirectChildren {
    depth: usize,
    structural: Vec<*const Query>,
    out: Vec<Value>,
}

impl Visitor for DirectChildren {
    type Break = ();
    fn pre_visit_query(&mut self, q: &Query) -> ControlFlow<()> {
        if self.depth == 1 && !self.structural.contains(&(q as *const Query)) {
            self.out.push(query(q));
        }
        self.depth += 1;
        ControlFlow::Continue(())
    }
    fn post_visit_query(&mut self, _q: &Query) -> ControlFlow<()> {
        self.depth -= 1;
        ControlFlow::Continue(())
    }
}

fn nested_arms(b: &SetExpr, acc: &mut Vec<*const Query>) {
    match b {
        SetExpr::Query(q) => acc.push(&**q as *const Query),
        SetExpr::SetOperation { left, right, .. } => {
            nested_arms(left, acc);
            nested_arms(right, acc);
        }
        _ => {}
    }
}

fn body(b: &SetExpr) -> Value {
    match b {
        SetExpr::Select(s) => json!({"b": "select", "into": s.into.is_some()}),
        SetExpr::Query(q) => json!({"b": "nested", "q": query(q)}),
        SetExpr::SetOperation { left, right, .. } => json!({"b": "setop", "l": body(left), "r": body(right)}),
        SetExpr::Values(_) => json!({"b": "values"}),
        SetExpr::Insert(_) => json!({"b": "insert"}),
        SetExpr::Update(_) => json!({"b": "update"}),
        SetExpr::Table(_) => json!({"b": "table"}),
    }
}

pub fn query(q: &Query) -> Value {
    let mut structural: Vec<*const Query> = vec![];
    let ctes: Vec<Value> = match &q.with {
        Some(w) => w
            .cte_tables
            .iter()
            .map(|c| {
                structural.push(&*c.query as *const Query);
                query(&c.query)
            })
            .collect(),
        None => vec![],
    };
    nested_arms(&q.body, &mut structural);
    let mut v = DirectChildren { depth: 0, structural, out: vec![] };
    let _ = q.visit(&mut v);
    json!({"locks": !q.locks.is_empty(), "with": ctes, "subs": v.out, "body": body(&q.body)})
}

fn stmt_name(s: &Statement) -> String {
    let d = format!("{:?}", s);
    d.split(|c: char| !c.is_alphanumeric()).next().unwrap_or("").to_string()
}

/// Independent summary of a whole statement (every Query node at any depth, wherever it sits).
struct Flags {
    any_lock: bool,
    any_mut: bool,
}

fn setexpr_mut(b: &SetExpr) -> bool {
    match b {
        SetExpr::Insert(_) | SetExpr::Update(_) => true,
        SetExpr::Select(s) => s.into.is_some(),
        SetExpr::SetOperation { left, right, .. } => setexpr_mut(left) || setexpr_mut(right),
        // SetExpr::Query is a Query node of its own: the visitor reaches it.
        _ => false,
    }
}

impl Visitor for Flags {
    type Break = ();
    fn pre_visit_query(&mut self, q: &Query) -> ControlFlow<()> {
        if !q.locks.is_empty() {
            self.any_lock = true;
        }
        if setexpr_mut(&q.body) {
            self.any_mut = true;
        }
        ControlFlow::Continue(())
    }
}

pub fn flags(s: &Statement) -> (bool, bool) {
    let mut f = Flags { any_lock: false, any_mut: false };
    let _ = s.visit(&mut f);
    (f.any_lock, f.any_mut)
}

pub fn project(ast: &Vec<Statement>) -> Vec<Value> {
    ast.iter()
        .map(|s| {
            let mut v = match s {
                Statement::StartTransaction { .. } => json!({"k": "start"}),
                Statement::Query(q) => json!({"k": "query", "q": query(q)}),
                other => json!({"k": "other", "name": stmt_name(other)}),
            };
            let (l, m) = flags(s);
            v["any_lock"] = json!(l);
            v["any_mut"] = json!(m);
            v
        })
        .collect()
}
