//! Projection of sqlparser's AST to the abstract statement shape of coq/Route/Model.v
//! (exactly the fields pgcat's `infer` inspects plus the ones the property speaks about).
use serde_json::{json, Value};
use sqlparser::ast::{Query, SetExpr, Statement};

fn body(b: &SetExpr) -> Value {
    match b {
        SetExpr::Select(s) => json!({"b": "select", "into": s.into.is_some()}),
        SetExpr::Query(q) => json!({"b": "nested", "q": query(q)}),
        SetExpr::SetOperation { left, right, .. } => json!({"b": "setop", "l": body(left), "r": body(right)}),
        SetExpr::Values(_) => json!({"b": "values"}),
        SetExpr::Insert(_) => json!({"b": "insert"}),
        SetExpr::Update(_) => json!({"b": "update"}),
        SetExpr::Table(_) => json!({"b": "table"}),
    }
}

pub fn query(q: &Query) -> Value {
    let ctes: Vec<Value> = match &q.with {
        Some(w) => w.cte_tables.iter().map(|c| query(&c.query)).collect(),
        None => vec![],
    };
    json!({"locks": !q.locks.is_empty(), "with": ctes, "body": body(&q.body)})
}

fn stmt_name(s: &Statement) -> String {
    let d = format!("{:?}", s);
    d.split(|c: char| !c.is_alphanumeric()).next().unwrap_or("").to_string()
}

pub fn project(ast: &Vec<Statement>) -> Vec<Value> {
    ast.iter()
        .map(|s| match s {
            Statement::StartTransaction { .. } => json!({"k": "start"}),
            Statement::Query(q) => json!({"k": "query", "q": query(q)}),
            other => json!({"k": "other", "name": stmt_name(other)}),
        })
        .collect()
}
