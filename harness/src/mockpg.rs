//! A mock PostgreSQL backend speaking the v3 wire protocol, with the session semantics the
//! properties talk about (transaction status, COPY, GUCs incl. transaction-local values,
//! named statements, SQL PREPARE, roles) and scriptable faults.  It is the executable
//! counterpart of coq/Env/Backend.v.  Every message it receives is logged together with the
//! session state at that instant.
use crate::util::hex;
use bytes::{Buf, BufMut, BytesMut};
use parking_lot::Mutex;
use serde_json::{json, Value};
use std::collections::{BTreeMap, HashMap};
use std::sync::atomic::{AtomicU64, AtomicU8, Ordering};
use std::sync::Arc;
use tokio::io::{AsyncReadExt, AsyncWriteExt};
use tokio::net::{TcpListener, TcpStream};

pub type Log = Arc<Mutex<Vec<Value>>>;
pub static SEQ: AtomicU64 = AtomicU64::new(0);
/// C03: when set (scenario option "log_out"), every flush of a session is logged as an `out` event with the exact bytes written.
pub static LOG_OUT: std::sync::atomic::AtomicBool = std::sync::atomic::AtomicBool::new(false);

/// C20: when set (scenario option "timing"), every event also carries `t_us` (wall clock, microseconds) so that
/// per-request latencies can be bounded coarsely.  Off by default: events are unchanged for everybody else.
pub static LOG_TIME: std::sync::atomic::AtomicBool = std::sync::atomic::AtomicBool::new(false);

/// C12 (additive): per-backend session parameters, set from the scenario's backend entry `c12_params`:
/// {"defaults": {GUC: value ..}       session defaults of settable reported GUCs (TimeZone, DateStyle, ..),
///  "readonly": {name: value ..}      read-only reported parameters (merged over server_version, server_encoding,
///                                    integer_datetimes, is_superuser), reported at startup,
///  "by_conn": {"2": {"defaults": .., "readonly": ..}}   overrides for one connection id}.
/// A backend that has an entry refuses `SET <read-only parameter>` with 55P02 like PostgreSQL.
pub static C12_PARAMS: std::sync::Mutex<BTreeMap<String, Value>> = std::sync::Mutex::new(BTreeMap::new());
/// C12 (additive): `COPY .. FROM STDIN /*mock: copy_continue*/; <more statements>` in one simple Query: like PostgreSQL
/// the statements behind the COPY run after CopyDone (before the single ReadyForQuery); CopyFail drops them.
/// Without the directive the rest of the query string is dropped as before.  Key: (backend name, connection id).
static C12_PENDING: std::sync::Mutex<BTreeMap<(String, u64), Vec<String>>> = std::sync::Mutex::new(BTreeMap::new());

fn c12_params(be: &str, conn: u64) -> Option<(BTreeMap<String, String>, BTreeMap<String, String>)> {
    let g = C12_PARAMS.lock().ok()?;
    let cfg = g.get(be)?;
    let mut d = BTreeMap::new();
    let mut r = BTreeMap::new();
    for layer in [Some(cfg), cfg.get("by_conn").and_then(|b| b.get(conn.to_string()))].into_iter().flatten() {
        if let Some(o) = layer.get("defaults").and_then(|x| x.as_object()) {
            for (k, v) in o {
                d.insert(k.clone(), v.as_str().unwrap_or("").to_string());
            }
        }
        if let Some(o) = layer.get("readonly").and_then(|x| x.as_object()) {
            for (k, v) in o {
                r.insert(k.clone(), v.as_str().unwrap_or("").to_string());
            }
        }
    }
    Some((d, r))
}

pub fn log_event(log: &Log, mut v: Value) {
    let mut g = log.lock();
    if LOG_TIME.load(Ordering::Relaxed) {
        v["t_us"] = json!(std::time::SystemTime::now().duration_since(std::time::UNIX_EPOCH).map(|d| d.as_micros() as u64).unwrap_or(0));
    }
    v["seq"] = json!(SEQ.fetch_add(1, Ordering::SeqCst));
    g.push(v);
}

pub const MODE_NORMAL: u8 = 0;
pub const MODE_DOWN: u8 = 1; // not listening (connection refused); existing connections are closed
pub const MODE_HANG: u8 = 2; // accepts and reads, never answers
pub const MODE_CLOSE_MID_REPLY: u8 = 3; // writes half of the next reply, then closes
pub const MODE_SLOW: u8 = 4; // answers after slow_ms
pub const MODE_ERROR: u8 = 5; // answers every statement with an ErrorResponse
pub const MODE_HANG_STARTUP: u8 = 6; // accepts, never completes the startup
pub const MODE_REFUSE: u8 = 7; // like "down" for the pooler (existing connections are closed, new ones are closed at once) but the port stays bound: no other process can grab it
pub const MODE_NOREAD: u8 = 8; // C20: established sessions stop reading (the peer's writes fill the TCP buffers and then block); nothing is answered
pub const MODE_DOWN_HELD: u8 = 9; // C20: like "down" (not listening: connect() is refused by the kernel; existing connections are closed) but the port stays bound by a non-listening socket, so no other process can be given it meanwhile

pub struct Backend {
    pub name: String,
    pub port: u16,
    pub mode: AtomicU8,
    pub slow_ms: AtomicU64,
    pub log: Log,
    pub next_conn: AtomicU64,
    pub md5: Option<(String, String)>, // (user, password) => MD5 auth; None => trust
    pub shadow: Mutex<HashMap<String, String>>, // auth_query answers: user -> md5 hash
    pub open_conns: Mutex<BTreeMap<u64, Value>>, // live sessions: id -> last known state
    pub max_open: AtomicU64,
    pub max_open_settled: AtomicU64, // C04: highest session count that persisted for 30 ms
    pub host: String, // address the listener binds (default 127.0.0.1; C07 uses 127.0.0.x aliases so that admin BAN <host> can tell servers apart)
    pub hang_match: Mutex<Option<String>>, // C07: a simple query containing this text is swallowed and never answered
    pub fault_on: Mutex<Option<(String, String)>>, // C07: (message tags, kind): a session that receives a message with one of these tags
                                                   // hangs (kind "hang": nothing more is answered), dies ("close": closed without a reply), or answers that
                                                   // message with half of the bytes and then closes ("mid") / stops ("mid_hang"), or rejects it with an ErrorResponse ("error")
    pub reset_epoch: AtomicU64, // C02/C04: bumping it makes every open session close with a TCP RST (SO_LINGER 0) at its next idle poll; the listener stays up
    pub slow_exact: Mutex<Option<(String, u64, u64)>>, // C01/C02: a simple query whose text IS this string is answered after ms, for the next `count` occurrences (the health check `;` carries no directive)
    pub busy: Mutex<BTreeMap<u64, String>>, // C10: session id -> the statement it is executing right now (reported in every `cancel` event)
    pub gates: Mutex<std::collections::HashSet<String>>, // C10: opened gates; a statement with /*mock:gate=NAME*/ is answered only after NAME was opened
    pub key_scheme: Mutex<String>, // C10: which BackendKeyData the sessions announce: "" (small positive) | neg | zero | min | max
    pub refuse_new: std::sync::atomic::AtomicBool, // C10: while set the listener is gone (connect() is refused by the kernel, the port stays reserved) but ESTABLISHED sessions keep working
    pub listening: std::sync::atomic::AtomicBool, // C10: whether the accept loop currently has a listening socket
    pub reply_segs: Mutex<Vec<usize>>, // C20: cut EVERY flush of this backend into TCP writes at these offsets (like the segs= directive, but per backend)
    pub reply_segd: AtomicU64,         // C20: pause (ms) between those pieces
}

fn put_msg(out: &mut BytesMut, code: u8, body: &[u8]) {
    out.put_u8(code);
    out.put_i32(body.len() as i32 + 4);
    out.put_slice(body);
}

fn cstr(s: &str) -> Vec<u8> {
    let mut v = s.as_bytes().to_vec();
    v.push(0);
    v
}

pub fn error_msg(sev: &str, code: &str, msg: &str) -> Vec<u8> {
    let mut b = Vec::new();
    b.push(b'S');
    b.extend(cstr(sev));
    b.push(b'V');
    b.extend(cstr(sev));
    b.push(b'C');
    b.extend(cstr(code));
    b.push(b'M');
    b.extend(cstr(msg));
    b.push(0);
    b
}

const REPORTED: [&str; 6] = [
    "application_name",
    "client_encoding",
    "DateStyle",
    "TimeZone",
    "standard_conforming_strings",
    "IntervalStyle",
];

fn canon(k: &str) -> String {
    let l = k.to_ascii_lowercase();
    for r in REPORTED.iter() {
        if r.to_ascii_lowercase() == l {
            return r.to_string();
        }
    }
    l
}

#[derive(Clone, Debug)]
struct Stmt {
    query: String,
    types: Vec<i32>,
}

struct Sess {
    id: u64,
    txn: u8,
    copy_in: bool,
    defaults: BTreeMap<String, String>,
    gucs: BTreeMap<String, String>,        // session values
    local: BTreeMap<String, String>,       // SET LOCAL values (until txn end)
    txn_snapshot: Option<BTreeMap<String, String>>, // session values at BEGIN (for ROLLBACK)
    role: Option<String>,
    stmts: BTreeMap<String, Stmt>, // protocol-level named statements ("" = unnamed)
    sql_prepared: BTreeMap<String, String>,
    portals: BTreeMap<String, String>, // portal -> query text
    skip_until_sync: bool,
    listens: Vec<String>,
    out_set: std::collections::BTreeSet<String>, // GUCs set while NOT inside a transaction block, not reset since
    role_out: bool,
}

impl Sess {
    fn effective(&self, k: &str) -> Option<String> {
        self.local.get(k).or_else(|| self.gucs.get(k)).cloned()
    }
    fn dirty_gucs(&self) -> Vec<String> {
        let mut d = Vec::new();
        let mut keys: Vec<&String> = self.gucs.keys().chain(self.local.keys()).chain(self.defaults.keys()).collect();
        keys.sort();
        keys.dedup();
        for k in keys {
            if self.effective(k) != self.defaults.get(k).cloned() {
                d.push(format!("{}={}", k, self.effective(k).unwrap_or_default()));
            }
        }
        d
    }
    fn state(&self) -> Value {
        json!({
            "txn": (self.txn as char).to_string(),
            "copy": self.copy_in,
            "gucs": self.dirty_gucs(),
            "gucs_out": self.out_set.iter().filter(|k| self.effective(k) != self.defaults.get(*k).cloned()).collect::<Vec<_>>(),
            "role_out": self.role_out && self.role.is_some(),
            "role": self.role,
            "stmts": self.stmts.iter().filter(|(k, _)| !k.is_empty()).map(|(k, v)| json!([k, v.query, v.types])).collect::<Vec<_>>(),
            "sql_prepared": self.sql_prepared.keys().collect::<Vec<_>>(),
            "listens": self.listens,
        })
    }
    fn tracked(&self) -> Value {
        let mut m = serde_json::Map::new();
        for k in REPORTED.iter() {
            if let Some(v) = self.effective(k) {
                m.insert(k.to_string(), json!(v));
            }
        }
        Value::Object(m)
    }
}

/// Split a simple-query string into statements at top-level semicolons.
pub fn split_statements(q: &str) -> Vec<String> {
    let b = q.as_bytes();
    let mut out = Vec::new();
    let mut cur = Vec::new();
    let mut i = 0;
    while i < b.len() {
        let c = b[i];
        if c == b'\'' {
            // string literal ('' escape; backslashes are NOT treated specially for splitting
            // unless preceded by E)
            let estr = !cur.is_empty() && (cur[cur.len() - 1] == b'E' || cur[cur.len() - 1] == b'e');
            cur.push(c);
            i += 1;
            while i < b.len() {
                if estr && b[i] == b'\\' && i + 1 < b.len() {
                    cur.push(b[i]);
                    cur.push(b[i + 1]);
                    i += 2;
                    continue;
                }
                cur.push(b[i]);
                if b[i] == b'\'' {
                    if i + 1 < b.len() && b[i + 1] == b'\'' {
                        cur.push(b'\'');
                        i += 2;
                        continue;
                    }
                    i += 1;
                    break;
                }
                i += 1;
            }
            continue;
        }
        if c == b'"' {
            cur.push(c);
            i += 1;
            while i < b.len() {
                cur.push(b[i]);
                if b[i] == b'"' {
                    i += 1;
                    break;
                }
                i += 1;
            }
            continue;
        }
        if c == b'-' && i + 1 < b.len() && b[i + 1] == b'-' {
            while i < b.len() && b[i] != b'\n' {
                i += 1;
            }
            continue;
        }
        if c == b'/' && i + 1 < b.len() && b[i + 1] == b'*' {
            // keep comments (they carry mock directives and client tags)
            while i < b.len() {
                cur.push(b[i]);
                if b[i] == b'/' && cur.len() >= 4 && cur[cur.len() - 2] == b'*' {
                    i += 1;
                    break;
                }
                i += 1;
            }
            continue;
        }
        if c == b';' {
            out.push(String::from_utf8_lossy(&cur).to_string());
            cur.clear();
            i += 1;
            continue;
        }
        cur.push(c);
        i += 1;
    }
    if !String::from_utf8_lossy(&cur).trim().is_empty() {
        out.push(String::from_utf8_lossy(&cur).to_string());
    }
    out
}

/// Parse an SQL value: '...' ('' escape; backslash escapes when `scs_off` or E'...'), or a bare word.
/// Returns None on a syntax error (unterminated literal, trailing junk).
pub fn parse_value(s: &str, scs_off: bool) -> Option<String> {
    let t = s.trim();
    let b = t.as_bytes();
    if b.is_empty() {
        return None;
    }
    let (estr, start) = if (b[0] == b'E' || b[0] == b'e') && b.len() > 1 && b[1] == b'\'' {
        (true, 1)
    } else {
        (false, 0)
    };
    if b[start] == b'\'' {
        let esc = estr || scs_off;
        let mut out = Vec::new();
        let mut i = start + 1;
        loop {
            if i >= b.len() {
                return None; // unterminated
            }
            if esc && b[i] == b'\\' {
                if i + 1 >= b.len() {
                    return None;
                }
                out.push(b[i + 1]);
                i += 2;
                continue;
            }
            if b[i] == b'\'' {
                if i + 1 < b.len() && b[i + 1] == b'\'' {
                    out.push(b'\'');
                    i += 2;
                    continue;
                }
                i += 1;
                break;
            }
            out.push(b[i]);
            i += 1;
        }
        if !t[i..].trim().is_empty() {
            return None;
        }
        return Some(String::from_utf8_lossy(&out).to_string());
    }
    // bare word / number / identifier list (DateStyle = ISO, MDY)
    if t.contains('\'') {
        return None;
    }
    Some(t.trim_matches('"').to_string())
}

fn directives(sql: &str) -> HashMap<String, String> {
    let mut m = HashMap::new();
    let mut rest = sql;
    while let Some(p) = rest.find("/*mock:") {
        let after = &rest[p + 7..];
        if let Some(e) = after.find("*/") {
            for kv in after[..e].split(',') {
                let kv = kv.trim();
                if kv.is_empty() {
                    continue;
                }
                match kv.split_once('=') {
                    Some((k, v)) => m.insert(k.trim().to_string(), v.trim().to_string()),
                    None => m.insert(kv.to_string(), "1".to_string()),
                };
            }
            rest = &after[e + 2..];
        } else {
            break;
        }
    }
    m
}

fn strip_comments(sql: &str) -> String {
    let mut out = String::new();
    let mut rest = sql;
    while let Some(p) = rest.find("/*") {
        out.push_str(&rest[..p]);
        match rest[p..].find("*/") {
            Some(e) => rest = &rest[p + e + 2..],
            None => {
                rest = "";
                break;
            }
        }
    }
    out.push_str(rest);
    out.trim().to_string()
}

enum Flow {
    Continue,
    Close,
    Hang,
}

/// C03 scripting state of one session (directives segs= / segd= / copy_in / copy_reply_raw=).
#[derive(Default)]
struct C03Script {
    segs: Vec<usize>,               // cut the NEXT flush into separate TCP writes at these byte offsets
    seg_delay_ms: u64,              // pause between the pieces (default 2 ms)
    copy_reply_raw: Option<Vec<u8>>, // bytes to emit instead of `C Z` / `E Z` when CopyDone/CopyFail arrives
    copy_abort_at: usize,            // C11 (additive): directive copy_abort_at=N on COPY .. FROM STDIN: the backend aborts the COPY at the N-th CopyData (bad row)
    copy_data_seen: usize,
    copy_simple: bool,               // the COPY was started by a simple Query (ReadyForQuery follows the error at once)
    copy_reply_raw2: Option<Vec<u8>>, // if set: after copy_reply_raw the session is in COPY IN again (a second COPY
                                      // of the same Query) and answers the next CopyDone/CopyFail with these bytes
}

struct Conn {
    be: Arc<Backend>,
    s: Sess,
    stream: TcpStream,
    out: BytesMut,
    c03: C03Script,
    c07_mid: u8, // C07: the next non-empty flush writes half of its bytes and then closes (1) / hangs (2); directives mid / mid_hang, fault_on kinds
}

impl Conn {
    fn param_status(&mut self, k: &str, v: &str) {
        let mut b = cstr(k);
        b.extend(cstr(v));
        put_msg(&mut self.out, b'S', &b);
    }

    fn set_guc(&mut self, k: &str, v: Option<String>, local: bool) {
        let k = canon(k);
        if self.s.txn == b'I' && v.is_some() {
            self.s.out_set.insert(k.clone());
        }
        let before = self.s.effective(&k);
        match (v, local) {
            (Some(v), true) => {
                self.s.local.insert(k.clone(), v);
            }
            (Some(v), false) => {
                self.s.local.remove(&k);
                self.s.gucs.insert(k.clone(), v);
            }
            (None, _) => {
                self.s.local.remove(&k);
                match self.s.defaults.get(&k).cloned() {
                    Some(d) => {
                        self.s.gucs.insert(k.clone(), d);
                    }
                    None => {
                        self.s.gucs.remove(&k);
                    }
                }
            }
        }
        let after = self.s.effective(&k);
        if before != after && REPORTED.contains(&k.as_str()) {
            let v = after.unwrap_or_default();
            self.param_status(&k, &v);
        }
    }

    fn restore_gucs(&mut self, target: BTreeMap<String, String>) {
        let mut keys: Vec<String> = self.s.gucs.keys().chain(self.s.local.keys()).chain(target.keys()).cloned().collect();
        keys.sort();
        keys.dedup();
        let before: Vec<(String, Option<String>)> = keys.iter().map(|k| (k.clone(), self.s.effective(k))).collect();
        self.s.local.clear();
        self.s.gucs = target;
        for (k, b) in before {
            let a = self.s.effective(&k);
            if a != b && REPORTED.contains(&k.as_str()) {
                let v = a.unwrap_or_default();
                self.param_status(&k, &v);
            }
        }
    }

    fn end_txn(&mut self, commit: bool) {
        if commit && self.s.txn == b'T' {
            let g = self.s.gucs.clone();
            self.restore_gucs(g); // drops SET LOCAL values
        } else {
            match self.s.txn_snapshot.clone() {
                Some(snap) => self.restore_gucs(snap),
                None => {
                    let g = self.s.gucs.clone();
                    self.restore_gucs(g)
                }
            }
        }
        self.s.txn_snapshot = None;
        self.s.txn = b'I';
        self.s.portals.clear();
    }

    fn err(&mut self, code: &str, msg: &str) {
        put_msg(&mut self.out, b'E', &error_msg("ERROR", code, msg));
        if self.s.txn == b'T' {
            self.s.txn = b'E';
        }
    }

    fn complete(&mut self, tag: &str) {
        put_msg(&mut self.out, b'C', &cstr(tag));
    }

    fn rfq(&mut self) {
        let t = self.s.txn;
        put_msg(&mut self.out, b'Z', &[t]);
    }

    fn rows(&mut self, sql: &str, n: usize, size: usize, describe: bool) {
        // RowDescription: backend, conn, sql, pad
        if describe {
            let mut b = BytesMut::new();
            b.put_i16(4);
            for name in ["backend", "conn", "sql", "pad"] {
                b.put_slice(&cstr(name));
                b.put_i32(0);
                b.put_i16(0);
                b.put_i32(25);
                b.put_i16(-1);
                b.put_i32(-1);
                b.put_i16(0);
            }
            put_msg(&mut self.out, b'T', &b);
        }
        let pad = "x".repeat(size);
        for _ in 0..n {
            let mut b = BytesMut::new();
            b.put_i16(4);
            for v in [self.be.name.as_str(), &self.s.id.to_string(), sql, pad.as_str()] {
                b.put_i32(v.len() as i32);
                b.put_slice(v.as_bytes());
            }
            put_msg(&mut self.out, b'D', &b);
        }
    }

    /// Execute one SQL statement; `simple` = simple protocol (RowDescription is sent).
    /// Returns Flow and whether COPY IN started.
    async fn exec(&mut self, raw: &str, simple: bool) -> Flow {
        let d = directives(raw);
        let sql = strip_comments(raw);
        let up = sql.to_ascii_uppercase();
        let words: Vec<&str> = up.split_whitespace().collect();
        if let Some(ms) = d.get("sleep") {
            tokio::time::sleep(std::time::Duration::from_millis(ms.parse().unwrap_or(0))).await;
        }
        if let Some(g) = d.get("gate") {
            // C10: a statement that runs until the harness opens its gate (step backend/open_gate); gives up after 15 s
            let t0 = std::time::Instant::now();
            while !self.be.gates.lock().contains(g) && t0.elapsed().as_secs() < 15 {
                tokio::time::sleep(std::time::Duration::from_millis(2)).await;
            }
        }
        if d.contains_key("hang") {
            return Flow::Hang;
        }
        if d.contains_key("close") {
            return Flow::Close;
        }
        // C07 (additive): the reply that contains this statement's result is cut in the middle, then the session closes / hangs
        if d.contains_key("mid") {
            self.c07_mid = 1;
        }
        if d.contains_key("mid_hang") {
            self.c07_mid = 2;
        }
        // C03 (additive): segs=a:b:c cuts the next flush into TCP writes at these offsets (segd=ms pause);
        // copy_reply_raw=<hex> replaces the reply to CopyDone/CopyFail; copy_in (with raw=) enters COPY IN mode.
        if let Some(sg) = d.get("segs") {
            self.c03.segs = sg.split(':').filter_map(|x| x.trim().parse().ok()).collect();
            self.c03.seg_delay_ms = d.get("segd").and_then(|x| x.parse().ok()).unwrap_or(2);
        }
        if let Some(h) = d.get("copy_reply_raw") {
            self.c03.copy_reply_raw = Some(crate::util::unhex(h));
        }
        if let Some(h) = d.get("copy_reply_raw2") {
            self.c03.copy_reply_raw2 = Some(crate::util::unhex(h));
        }
        if let Some(h) = d.get("raw") {
            self.out.put_slice(&crate::util::unhex(h));
            if d.contains_key("copy_in") {
                self.s.copy_in = true;
            }
            return Flow::Continue;
        }
        if d.contains_key("notice") {
            put_msg(&mut self.out, b'N', &error_msg("NOTICE", "00000", "a notice"));
        }
        if let Some(ps) = d.get("ps") {
            if let Some((k, v)) = ps.split_once(':') {
                self.param_status(k, v);
            }
        }
        if self.be.mode.load(Ordering::SeqCst) == MODE_ERROR || d.contains_key("error") {
            self.err("XX000", "mock error");
            return Flow::Continue;
        }
        if words.is_empty() {
            put_msg(&mut self.out, b'I', &[]);
            return Flow::Continue;
        }
        // C09 (additive): an auth_query (a statement mentioning pg_shadow) is answered from Backend.shadow with the
        // columns (usename, passwd): one row for the shadow user whose quoted name occurs in the statement, else no row.
        if up.contains("PG_SHADOW") {
            let hit = {
                let g = self.be.shadow.lock();
                let mut ks: Vec<String> = g.keys().cloned().collect();
                ks.sort();
                ks.into_iter().find(|u| sql.contains(&format!("'{}'", u))).map(|u| (u.clone(), g[&u].clone()))
            };
            if simple {
                let mut b = BytesMut::new();
                b.put_i16(2);
                for name in ["usename", "passwd"] {
                    b.put_slice(&cstr(name));
                    b.put_i32(0);
                    b.put_i16(0);
                    b.put_i32(25);
                    b.put_i16(-1);
                    b.put_i32(-1);
                    b.put_i16(0);
                }
                put_msg(&mut self.out, b'T', &b);
            }
            match hit {
                Some((u, h)) => {
                    // a value "name\tpasswd" overrides the usename column (a row for somebody else)
                    let (u, h) = match h.split_once('\t') {
                        Some((a, b)) => (a.to_string(), b.to_string()),
                        None => (u, h),
                    };
                    let mut b = BytesMut::new();
                    b.put_i16(2);
                    for v in [u.as_str(), h.as_str()] {
                        b.put_i32(v.len() as i32);
                        b.put_slice(v.as_bytes());
                    }
                    put_msg(&mut self.out, b'D', &b);
                    self.complete("SELECT 1");
                }
                None => self.complete("SELECT 0"),
            }
            return Flow::Continue;
        }
        // failed transaction: only COMMIT/ROLLBACK/END allowed
        if self.s.txn == b'E' && !matches!(words[0], "COMMIT" | "ROLLBACK" | "END" | "ABORT") {
            self.err("25P02", "current transaction is aborted, commands ignored until end of transaction block");
            return Flow::Continue;
        }
        match words[0] {
            "BEGIN" | "START" => {
                if self.s.txn == b'I' {
                    self.s.txn = b'T';
                    self.s.txn_snapshot = Some(self.s.gucs.clone());
                }
                self.complete("BEGIN");
            }
            "COMMIT" | "END" => {
                let tag = if self.s.txn == b'E' { "ROLLBACK" } else { "COMMIT" };
                let commit = self.s.txn == b'T';
                self.end_txn(commit);
                self.complete(tag);
            }
            "ROLLBACK" | "ABORT" => {
                self.end_txn(false);
                self.complete("ROLLBACK");
            }
            "SET" => {
                // C12 (additive): for SET, comments are stripped outside string literals only, so that a value
                // containing "/*" survives (strip_comments is not quote-aware).
                let sql = {
                    let q = strip_comments_q(raw);
                    if q.len() >= 3 && q[..3].eq_ignore_ascii_case("SET") { q } else { sql.clone() }
                };
                let mut rest = sql[3..].trim_start();
                let mut local = false;
                let upr = rest.to_ascii_uppercase();
                if upr.starts_with("LOCAL ") {
                    local = true;
                    rest = rest[6..].trim_start();
                } else if upr.starts_with("SESSION ") && !upr.starts_with("SESSION AUTHORIZATION") {
                    rest = rest[8..].trim_start();
                }
                let upr = rest.to_ascii_uppercase();
                if upr.starts_with("ROLE ") {
                    match parse_value(&rest[5..], false) {
                        Some(v) => {
                            self.s.role = if v.eq_ignore_ascii_case("none") { None } else { Some(v) };
                            self.s.role_out = self.s.txn == b'I';
                            self.complete("SET");
                        }
                        None => self.err("42601", "syntax error in SET ROLE"),
                    }
                } else if upr.starts_with("SESSION AUTHORIZATION") {
                    self.s.role = Some(format!("auth:{}", rest[21..].trim()));
                    self.complete("SET");
                } else {
                    // name { TO | = } value
                    let (name, val) = match rest.find(|c: char| c == '=' || c.is_whitespace()) {
                        Some(p) => {
                            let name = rest[..p].trim();
                            let mut v = rest[p..].trim_start();
                            if v.starts_with('=') {
                                v = v[1..].trim_start();
                            } else if v.len() >= 2 && v[..2].eq_ignore_ascii_case("TO") {
                                v = v[2..].trim_start();
                            }
                            (name.to_string(), v.to_string())
                        }
                        None => (rest.to_string(), String::new()),
                    };
                    let scs_off = self.s.effective("standard_conforming_strings").map(|v| v == "off").unwrap_or(false);
                    match parse_value(&val, scs_off) {
                        // C12 (additive): a value starting with "!invalid!" is refused the way PostgreSQL refuses a value
                        // that fails a GUC's check hook
                        Some(v) if v.starts_with("!invalid!") => self.err("22023", "invalid value for parameter"),
                        // C12 (additive): a backend with c12_params refuses SET of a read-only parameter like PostgreSQL
                        Some(_) if c12_params(&self.be.name, self.s.id).map(|(_, r)| {
                            let n = name.to_ascii_lowercase();
                            r.keys().any(|k| k.to_ascii_lowercase() == n)
                                || ["server_version", "server_encoding", "integer_datetimes", "is_superuser", "in_hot_standby"].contains(&n.as_str())
                        }).unwrap_or(false) => self.err("55P02", &format!("parameter \"{}\" cannot be changed", name)),
                        Some(v) => {
                            if v.eq_ignore_ascii_case("default") && !val.trim_start().starts_with('\'') {
                                self.set_guc(&name, None, local);
                            } else {
                                self.set_guc(&name, Some(v), local && self.s.txn != b'I');
                            }
                            self.complete("SET");
                        }
                        None => self.err("42601", "syntax error at or near value"),
                    }
                }
            }
            "RESET" => {
                if words.get(1) == Some(&"ALL") {
                    let d = self.s.defaults.clone();
                    self.restore_gucs(d);
                    self.s.out_set.clear();
                } else if words.get(1) == Some(&"ROLE") {
                    self.s.role = None;
                } else if words.get(1) == Some(&"SESSION") {
                    self.s.role = None;
                } else if let Some(n) = sql.split_whitespace().nth(1) {
                    self.set_guc(n, None, false);
                }
                self.complete("RESET");
            }
            "DISCARD" => {
                let d = self.s.defaults.clone();
                self.restore_gucs(d);
                self.s.out_set.clear();
                self.s.role = None;
                self.s.stmts.clear();
                self.s.sql_prepared.clear();
                self.s.listens.clear();
                self.complete("DISCARD ALL");
            }
            "DEALLOCATE" => {
                if words.get(1) == Some(&"ALL") || (words.get(1) == Some(&"PREPARE") && words.get(2) == Some(&"ALL")) {
                    self.s.stmts.retain(|k, _| k.is_empty());
                    self.s.sql_prepared.clear();
                    self.complete("DEALLOCATE ALL");
                } else {
                    let n = sql.split_whitespace().last().unwrap_or("").to_string();
                    if self.s.sql_prepared.remove(&n).is_some() || self.s.stmts.remove(&n).is_some() {
                        self.complete("DEALLOCATE");
                    } else {
                        self.err("26000", &format!("prepared statement \"{}\" does not exist", n));
                    }
                }
            }
            "PREPARE" => {
                let n = sql.split_whitespace().nth(1).unwrap_or("").split('(').next().unwrap_or("").to_string();
                if self.s.sql_prepared.contains_key(&n) || self.s.stmts.contains_key(&n) {
                    self.err("42P05", &format!("prepared statement \"{}\" already exists", n));
                } else {
                    self.s.sql_prepared.insert(n, sql.clone());
                    self.complete("PREPARE");
                }
            }
            "LISTEN" => {
                self.s.listens.push(sql.split_whitespace().nth(1).unwrap_or("").to_string());
                self.complete("LISTEN");
            }
            "COPY" => {
                if up.contains("FROM STDIN") {
                    let mut b = BytesMut::new();
                    b.put_u8(0);
                    b.put_i16(1);
                    b.put_i16(0);
                    put_msg(&mut self.out, b'G', &b);
                    self.s.copy_in = true;
                    self.c03.copy_abort_at = d.get("copy_abort_at").and_then(|x| x.parse().ok()).unwrap_or(0);
                    self.c03.copy_data_seen = 0;
                    self.c03.copy_simple = simple;
                } else {
                    let n: usize = d.get("rows").and_then(|x| x.parse().ok()).unwrap_or(2);
                    let size: usize = d.get("size").and_then(|x| x.parse().ok()).unwrap_or(8);
                    let mut b = BytesMut::new();
                    b.put_u8(0);
                    b.put_i16(1);
                    b.put_i16(0);
                    put_msg(&mut self.out, b'H', &b);
                    for i in 0..n {
                        let line = format!("{}\t{}\n", i, "y".repeat(size));
                        put_msg(&mut self.out, b'd', line.as_bytes());
                    }
                    put_msg(&mut self.out, b'c', &[]);
                    self.complete(&format!("COPY {}", n));
                }
            }
            "SELECT" | "WITH" | "SHOW" | "VALUES" | "TABLE" | "EXPLAIN" | "FETCH" => {
                let n: usize = d.get("rows").and_then(|x| x.parse().ok()).unwrap_or(1);
                let size: usize = d.get("size").and_then(|x| x.parse().ok()).unwrap_or(0);
                let tagsql = raw.trim().to_string();
                self.rows(&tagsql, n, size, simple);
                if d.contains_key("suspend") && !simple {
                    put_msg(&mut self.out, b's', &[]);
                } else {
                    let tag = d.get("tag").cloned().unwrap_or(format!("SELECT {}", n));
                    self.complete(&tag);
                }
            }
            "INSERT" => self.complete(&d.get("tag").cloned().unwrap_or("INSERT 0 1".into())),
            "UPDATE" | "DELETE" | "MERGE" => {
                let t = format!("{} 1", words[0]);
                self.complete(&d.get("tag").cloned().unwrap_or(t))
            }
            _ => {
                let t = if words.len() > 1 && matches!(words[0], "CREATE" | "DROP" | "ALTER") {
                    format!("{} {}", words[0], words[1])
                } else {
                    words[0].to_string()
                };
                self.complete(&d.get("tag").cloned().unwrap_or(t));
            }
        }
        Flow::Continue
    }

    async fn flush(&mut self) -> bool {
        let mode = self.be.mode.load(Ordering::SeqCst);
        if mode == MODE_SLOW {
            tokio::time::sleep(std::time::Duration::from_millis(self.be.slow_ms.load(Ordering::SeqCst))).await;
        }
        if self.c07_mid != 0 && !self.out.is_empty() {
            let half = self.out.len() / 2;
            let _ = self.stream.write_all(&self.out[..half]).await;
            let _ = self.stream.flush().await;
            self.out.clear();
            if self.c07_mid == 2 {
                let mut buf = [0u8; 4096];
                loop {
                    match self.stream.read(&mut buf).await {
                        Ok(0) | Err(_) => break,
                        Ok(_) => {}
                    }
                }
            }
            self.c07_mid = 0;
            return false;
        }
        if mode == MODE_CLOSE_MID_REPLY && !self.out.is_empty() {
            let half = self.out.len() / 2;
            let _ = self.stream.write_all(&self.out[..half]).await;
            let _ = self.stream.flush().await;
            self.out.clear();
            return false;
        }
        if LOG_OUT.load(Ordering::SeqCst) {
            log_event(&self.be.log, json!({"who": self.be.name, "conn": self.s.id, "ev": "out", "nbytes": self.out.len(), "hex": hex(&self.out), "segs": self.c03.segs}));
        }
        if self.c03.segs.is_empty() {
            // C20: per-backend cut points (step `backend` reply_segs / reply_segd) apply to every flush
            let bs = self.be.reply_segs.lock().clone();
            if !bs.is_empty() {
                self.c03.segs = bs;
                self.c03.seg_delay_ms = self.be.reply_segd.load(Ordering::SeqCst);
            }
        }
        if !self.c03.segs.is_empty() {
            // C03: write the reply in pieces (separate TCP segments: TCP_NODELAY is on, short pause between them)
            let mut cuts: Vec<usize> = self.c03.segs.iter().cloned().filter(|x| *x > 0 && *x < self.out.len()).collect();
            cuts.sort();
            cuts.dedup();
            cuts.push(self.out.len());
            self.c03.segs.clear();
            let mut at = 0;
            let mut ok = true;
            for c in cuts {
                ok = ok && self.stream.write_all(&self.out[at..c]).await.is_ok() && self.stream.flush().await.is_ok();
                at = c;
                if at < self.out.len() {
                    tokio::time::sleep(std::time::Duration::from_millis(self.c03.seg_delay_ms)).await;
                }
            }
            self.out.clear();
            return ok;
        }
        let ok = self.stream.write_all(&self.out).await.is_ok() && self.stream.flush().await.is_ok();
        self.out.clear();
        ok
    }

    fn log_msg(&self, tag: u8, detail: Value) {
        log_event(
            &self.be.log,
            json!({"who": self.be.name, "conn": self.s.id, "ev": "msg", "tag": (tag as char).to_string(), "detail": detail,
                   "state": self.s.state(), "tracked": self.s.tracked()}),
        );
    }

    fn publish_state(&self) {
        self.be.open_conns.lock().insert(self.s.id, json!({"state": self.s.state(), "tracked": self.s.tracked()}));
    }
}

fn read_cstr(b: &mut &[u8]) -> String {
    let p = b.iter().position(|x| *x == 0).unwrap_or(b.len());
    let s = String::from_utf8_lossy(&b[..p]).to_string();
    *b = if p < b.len() { &b[p + 1..] } else { &b[p..] };
    s
}

async fn session(be: Arc<Backend>, mut stream: TcpStream) {
    let _ = stream.set_nodelay(true);
    let id = be.next_conn.fetch_add(1, Ordering::SeqCst);
    // ---- startup packet
    let len = match stream.read_i32().await {
        Ok(l) => l,
        Err(_) => return,
    };
    if !(8..=100000).contains(&len) {
        return;
    }
    let mut body = vec![0u8; len as usize - 4];
    if stream.read_exact(&mut body).await.is_err() {
        return;
    }
    let mut b = &body[..];
    let code = b.get_i32();
    if code == 80877102 {
        // CancelRequest
        let pid = b.get_i32();
        let key = b.get_i32();
        // C10 (additive fields): which sessions exist / are executing what at the instant the CancelRequest arrives
        let busy: Vec<Value> = be.busy.lock().iter().map(|(k, v)| json!([k, v])).collect();
        let open: Vec<u64> = be.open_conns.lock().keys().cloned().collect();
        log_event(&be.log, json!({"who": be.name, "ev": "cancel", "pid": pid, "key": key, "busy": busy, "open": open}));
        return;
    }
    if code == 80877103 {
        // SSLRequest: not supported
        let _ = stream.write_all(b"N").await;
        return;
    }
    let mut params = BTreeMap::new();
    loop {
        let k = read_cstr(&mut b);
        if k.is_empty() {
            break;
        }
        let v = read_cstr(&mut b);
        params.insert(k, v);
    }
    log_event(&be.log, json!({"who": be.name, "conn": id, "ev": "open", "params": params}));
    if be.mode.load(Ordering::SeqCst) == MODE_HANG_STARTUP {
        let mut buf = [0u8; 64];
        while let Ok(n) = stream.read(&mut buf).await {
            if n == 0 {
                break;
            }
        }
        log_event(&be.log, json!({"who": be.name, "conn": id, "ev": "close", "why": "client closed (hung startup)"}));
        return;
    }
    let mut out = BytesMut::new();
    // ---- authentication
    if let Some((user, password)) = &be.md5 {
        let salt = [1u8, 2, 3, 4];
        let mut m = BytesMut::new();
        m.put_i32(5);
        m.put_slice(&salt);
        put_msg(&mut out, b'R', &m);
        let _ = stream.write_all(&out).await;
        out.clear();
        let code = stream.read_u8().await.unwrap_or(0);
        let l = stream.read_i32().await.unwrap_or(4);
        let mut pw = vec![0u8; (l.max(4) - 4) as usize];
        let _ = stream.read_exact(&mut pw).await;
        let expect = pgcat::messages::md5_hash_password(user, password, &salt);
        if code != b'p' || pw != expect || params.get("user") != Some(user) {
            put_msg(&mut out, b'E', &error_msg("FATAL", "28P01", "password authentication failed"));
            let _ = stream.write_all(&out).await;
            log_event(&be.log, json!({"who": be.name, "conn": id, "ev": "close", "why": "auth failed"}));
            return;
        }
    }
    let mut m = BytesMut::new();
    m.put_i32(0);
    put_msg(&mut out, b'R', &m);
    let mut defaults = BTreeMap::new();
    defaults.insert("application_name".to_string(), params.get("application_name").cloned().unwrap_or_default());
    defaults.insert("client_encoding".to_string(), "UTF8".to_string());
    defaults.insert("DateStyle".to_string(), "ISO, MDY".to_string());
    defaults.insert("TimeZone".to_string(), "Etc/UTC".to_string());
    defaults.insert("standard_conforming_strings".to_string(), "on".to_string());
    defaults.insert("IntervalStyle".to_string(), "postgres".to_string());
    let mut readonly: Vec<(String, String)> = [("server_version", "14.0 (mock)"), ("server_encoding", "UTF8"), ("integer_datetimes", "on"), ("is_superuser", "off")]
        .iter().map(|(k, v)| (k.to_string(), v.to_string())).collect();
    // C12 (additive): heterogeneous servers: this backend's / this connection's own defaults and read-only reports
    if let Some((d, r)) = c12_params(&be.name, id) {
        for (k, v) in d {
            defaults.insert(canon(&k), v);
        }
        for (k, v) in r {
            match readonly.iter_mut().find(|(n, _)| *n == k) {
                Some(e) => e.1 = v,
                None => readonly.push((k, v)),
            }
        }
    }
    for (k, v) in defaults.iter() {
        let mut b = cstr(k);
        b.extend(cstr(v));
        put_msg(&mut out, b'S', &b);
    }
    for (k, v) in readonly.iter() {
        let mut b = cstr(k);
        b.extend(cstr(v));
        put_msg(&mut out, b'S', &b);
    }
    let mut k = BytesMut::new();
    let (kpid, kkey) = be.session_keys(id); // C10: key_scheme (default: 1000+id, 7*(1000+id)+13)
    k.put_i32(kpid);
    k.put_i32(kkey);
    put_msg(&mut out, b'K', &k);
    put_msg(&mut out, b'Z', &[b'I']);
    if stream.write_all(&out).await.is_err() {
        return;
    }
    let s = Sess {
        id,
        txn: b'I',
        copy_in: false,
        gucs: defaults.clone(),
        defaults,
        local: BTreeMap::new(),
        txn_snapshot: None,
        role: None,
        stmts: BTreeMap::new(),
        sql_prepared: BTreeMap::new(),
        portals: BTreeMap::new(),
        skip_until_sync: false,
        listens: vec![],
        out_set: Default::default(),
        role_out: false,
    };
    let mut c = Conn { be: be.clone(), s, stream, out: BytesMut::new(), c03: C03Script::default(), c07_mid: 0 };
    log_event(&be.log, json!({"who": be.name, "conn": id, "ev": "ready", "pid": kpid, "key": kkey}));
    c.publish_state();
    {
        let n = be.open_conns.lock().len() as u64;
        be.max_open.fetch_max(n, Ordering::SeqCst);
        // C04: `max_open` can overshoot for an instant when the pooler closes one connection and
        // opens the next (its Terminate may still be unread here).  `max_open_settled` only counts
        // a level that is still there 15 and 30 ms later.
        if n > be.max_open_settled.load(Ordering::SeqCst) {
            let be4 = be.clone();
            tokio::spawn(async move {
                let mut m = n;
                for _ in 0..2 {
                    tokio::time::sleep(std::time::Duration::from_millis(15)).await;
                    m = m.min(be4.open_conns.lock().len() as u64);
                }
                be4.max_open_settled.fetch_max(m, Ordering::SeqCst);
            });
        }
    }
    let why = run_session(&mut c).await;
    be.open_conns.lock().remove(&id);
    be.busy.lock().remove(&id);
    log_event(&be.log, json!({"who": be.name, "conn": id, "ev": "close", "why": why, "state": c.s.state()}));
}

async fn run_session(c: &mut Conn) -> String {
    let epoch0 = c.be.reset_epoch.load(Ordering::SeqCst);
    loop {
        // C20: "noread" = the session stays open but does not read while the mode lasts
        while c.be.mode.load(Ordering::SeqCst) == MODE_NOREAD {
            tokio::time::sleep(std::time::Duration::from_millis(10)).await;
        }
        let code = loop {
            match tokio::time::timeout(std::time::Duration::from_millis(20), c.stream.read_u8()).await {
                Ok(Ok(x)) => break x,
                Ok(Err(_)) => return "eof".into(),
                Err(_) => {
                    let m = c.be.mode.load(Ordering::SeqCst);
                    if m == MODE_DOWN || m == MODE_REFUSE || m == MODE_DOWN_HELD {
                        return "backend down".into();
                    }
                    if c.be.reset_epoch.load(Ordering::SeqCst) != epoch0 {
                        let _ = c.stream.set_linger(Some(std::time::Duration::from_secs(0)));
                        return "reset by backend".into();
                    }
                }
            }
        };
        let len = match c.stream.read_i32().await {
            Ok(x) => x,
            Err(_) => return "eof in header".into(),
        };
        if len < 4 {
            return "bad length".into();
        }
        let mut body = vec![0u8; len as usize - 4];
        if c.stream.read_exact(&mut body).await.is_err() {
            return "eof in body".into();
        }
        let mode = c.be.mode.load(Ordering::SeqCst);
        if mode == MODE_DOWN || mode == MODE_REFUSE || mode == MODE_DOWN_HELD {
            return "backend down".into();
        }
        let mut raw = BytesMut::new();
        put_msg(&mut raw, code, &body);
        let mut b = &body[..];
        // PostgreSQL in COPY IN mode: Flush and Sync are ignored, CopyData/CopyDone/CopyFail are
        // the protocol; any other message aborts the COPY with an error and is NOT executed.
        if c.s.copy_in && !matches!(code, b'd' | b'c' | b'f' | b'H' | b'S' | b'X') {
            c.log_msg(code, json!({"raw": hex(&raw), "rejected_in_copy": true}));
            c.s.copy_in = false;
            c.err("08P01", "unexpected message type during COPY from stdin");
            if code == b'Q' {
                c.rfq();
            } else {
                c.s.skip_until_sync = true;
            }
            c.publish_state();
            if !c.flush().await {
                return "closed mid reply".into();
            }
            continue;
        }
        // C07 (additive): per-backend fault armed on message tags (step `backend` fault_on)
        let c07_fault = c.be.fault_on.lock().clone().and_then(|(tags, kind)| if tags.as_bytes().contains(&code) { Some(kind) } else { None });
        if let Some(kind) = c07_fault {
            if kind == "hang" || kind == "close" {
                let mut detail = json!({"raw": hex(&raw), "c07_fault": kind});
                if code == b'P' {
                    let mut bb = &body[..];
                    let name = read_cstr(&mut bb);
                    detail["name"] = json!(name);
                    detail["sql"] = json!(read_cstr(&mut bb));
                }
                c.log_msg(code, detail);
                c.publish_state();
                if kind == "close" {
                    return "c07 fault: close".into();
                }
                let mut buf = [0u8; 4096];
                loop {
                    match c.stream.read(&mut buf).await {
                        Ok(0) | Err(_) => return "peer closed while hung (c07 fault)".into(),
                        Ok(_) => {}
                    }
                }
            }
            if kind == "error" {
                // the server is fine and REJECTS the message: ErrorResponse, the rest of the batch is skipped up to the Sync
                let mut detail = json!({"raw": hex(&raw), "c07_fault": kind});
                if code == b'P' {
                    let mut bb = &body[..];
                    let name = read_cstr(&mut bb);
                    detail["name"] = json!(name);
                    detail["sql"] = json!(read_cstr(&mut bb));
                }
                c.log_msg(code, detail);
                if !c.s.skip_until_sync {
                    c.err("42601", "mock: statement rejected (c07 fault)");
                    c.s.skip_until_sync = true;
                }
                c.publish_state();
                if !c.flush().await {
                    return "closed mid reply".into();
                }
                continue;
            }
            c.c07_mid = if kind == "mid_hang" { 2 } else { 1 };
        }
        let flow = match code {
            b'Q' => {
                let q = read_cstr(&mut b);
                c.be.busy.lock().insert(c.s.id, q.clone()); // C10
                c.log_msg(code, json!({"sql": q, "raw": hex(&raw)}));
                let hm = c.be.hang_match.lock().clone();
                let slow = {
                    let mut g = c.be.slow_exact.lock();
                    match g.as_mut() {
                        Some((t, ms, n)) if *n > 0 && *t == q => {
                            *n -= 1;
                            Some(*ms)
                        }
                        _ => None,
                    }
                };
                if let Some(ms) = slow {
                    tokio::time::sleep(std::time::Duration::from_millis(ms)).await;
                }
                if mode == MODE_HANG || hm.map(|m| q.contains(&m)).unwrap_or(false) {
                    Flow::Hang
                } else {
                    let stmts = split_statements(&q);
                    let mut flow = Flow::Continue;
                    let c12_snap = if c.s.txn == b'I' { Some(c.s.gucs.clone()) } else { None };
                    if stmts.is_empty() {
                        put_msg(&mut c.out, b'I', &[]);
                    }
                    for (c12_i, st) in stmts.iter().enumerate() {
                        let before_err = c.s.txn;
                        flow = c.exec(&st, true).await;
                        let errored = c.out.len() > 0 && last_is_error(&c.out);
                        if !matches!(flow, Flow::Continue) || c.s.copy_in {
                            if c.s.copy_in && directives(st).contains_key("copy_continue") {
                                if let Ok(mut g) = C12_PENDING.lock() {
                                    g.insert((c.be.name.clone(), c.s.id), stmts[c12_i + 1..].to_vec());
                                }
                            }
                            break;
                        }
                        let _ = before_err;
                        if errored {
                            // simple protocol: an error aborts the rest of the query string
                            break;
                        }
                    }
                    // C12 (additive): a multi-statement simple Query is one implicit transaction: an "invalid value" error
                    // (22023, only produced by the !invalid! marker) rolls back the SETs that preceded it in the message.
                    if let Some(snap) = c12_snap {
                        if c.s.txn == b'I' && matches!(last_error_code(&c.out).as_deref(), Some("22023") | Some("55P02")) {
                            c.restore_gucs(snap);
                        }
                    }
                    if matches!(flow, Flow::Continue) && !c.s.copy_in && !directives(&q).contains_key("raw") {
                        c.rfq();
                    }
                    flow
                }
            }
            b'd' => {
                c.log_msg(code, json!({"len": body.len(), "raw": hex(&raw)}));
                if c.s.copy_in && c.c03.copy_abort_at > 0 {
                    c.c03.copy_data_seen += 1;
                    if c.c03.copy_data_seen == c.c03.copy_abort_at {
                        // C11 (additive, only with the directive): PostgreSQL aborts a COPY at a bad row at once: ErrorResponse
                        // (+ ReadyForQuery in the simple protocol, skip-until-Sync in the extended one); CopyData/CopyDone/CopyFail
                        // that still arrive are silently dropped (the arms below already ignore them outside COPY)
                        c.s.copy_in = false;
                        c.err("22P02", "invalid input syntax for type integer (COPY aborted by the backend)");
                        if c.c03.copy_simple {
                            c.rfq();
                        } else {
                            c.s.skip_until_sync = true;
                        }
                    }
                }
                Flow::Continue
            }
            b'c' | b'f' => {
                c.log_msg(code, json!({"raw": hex(&raw)}));
                if c.s.copy_in && c.c03.copy_reply_raw.is_some() {
                    // C03: scripted reply to CopyDone/CopyFail
                    c.s.copy_in = false;
                    let r = c.c03.copy_reply_raw.take().unwrap();
                    c.out.put_slice(&r);
                    if c.c03.copy_reply_raw2.is_some() {
                        // the scripted reply ended with a CopyInResponse: COPY IN again
                        c.c03.copy_reply_raw = c.c03.copy_reply_raw2.take();
                        c.s.copy_in = true;
                    }
                } else if c.s.copy_in {
                    c.s.copy_in = false;
                    let c12_rest = C12_PENDING.lock().ok().and_then(|mut g| g.remove(&(c.be.name.clone(), c.s.id))).unwrap_or_default();
                    if code == b'c' {
                        c.complete("COPY 1");
                        // C12 (additive): the statements that followed the COPY in the same query string
                        for (i, st) in c12_rest.iter().enumerate() {
                            let _ = c.exec(st, true).await;
                            if c.s.copy_in {
                                if directives(st).contains_key("copy_continue") {
                                    if let Ok(mut g) = C12_PENDING.lock() {
                                        g.insert((c.be.name.clone(), c.s.id), c12_rest[i + 1..].to_vec());
                                    }
                                }
                                break;
                            }
                            if c.out.len() > 0 && last_is_error(&c.out) {
                                break;
                            }
                        }
                    } else {
                        c.err("57014", "COPY from stdin failed");
                    }
                    if !c.s.copy_in {
                        c.rfq();
                    }
                }
                Flow::Continue
            }
            b'P' => {
                let name = read_cstr(&mut b);
                let q = read_cstr(&mut b);
                let n = if b.len() >= 2 { b.get_i16() } else { 0 };
                let mut types = vec![];
                for _ in 0..n.max(0) {
                    if b.len() >= 4 {
                        types.push(b.get_i32());
                    }
                }
                c.log_msg(code, json!({"name": name, "sql": q, "types": types, "raw": hex(&raw)}));
                if !c.s.skip_until_sync {
                    let d = directives(&q);
                    if d.contains_key("parse_error") || c.be.mode.load(Ordering::SeqCst) == MODE_ERROR {
                        c.err("42601", "mock parse error");
                        c.s.skip_until_sync = true;
                    } else if !name.is_empty() && (c.s.stmts.contains_key(&name) || c.s.sql_prepared.contains_key(&name)) {
                        c.err("42P05", &format!("prepared statement \"{}\" already exists", name));
                        c.s.skip_until_sync = true;
                    } else if c.s.txn == b'E'
                        && !matches!(
                            strip_comments(&q).trim_start().to_uppercase().split(|ch: char| !ch.is_ascii_alphabetic()).next().unwrap_or(""),
                            "COMMIT" | "ROLLBACK" | "END" | "ABORT"
                        )
                    {
                        // exec_parse_message: transaction-exit statements are accepted in a failed transaction
                        c.err("25P02", "current transaction is aborted");
                        c.s.skip_until_sync = true;
                    } else {
                        c.s.stmts.insert(name, Stmt { query: q, types });
                        put_msg(&mut c.out, b'1', &[]);
                    }
                }
                Flow::Continue
            }
            b'B' => {
                let portal = read_cstr(&mut b);
                let name = read_cstr(&mut b);
                c.log_msg(code, json!({"portal": portal, "name": name, "raw": hex(&raw)}));
                if !c.s.skip_until_sync {
                    match c.s.stmts.get(&name).cloned() {
                        Some(st) => {
                            c.s.portals.insert(portal, st.query);
                            put_msg(&mut c.out, b'2', &[]);
                        }
                        None => {
                            c.err("26000", &format!("prepared statement \"{}\" does not exist", name));
                            c.s.skip_until_sync = true;
                        }
                    }
                }
                Flow::Continue
            }
            b'D' => {
                let kind = if b.is_empty() { 0 } else { b.get_u8() };
                let name = read_cstr(&mut b);
                c.log_msg(code, json!({"kind": (kind as char).to_string(), "name": name, "raw": hex(&raw)}));
                if !c.s.skip_until_sync {
                    let known = if kind == b'S' { c.s.stmts.contains_key(&name) } else { c.s.portals.contains_key(&name) };
                    if known {
                        if kind == b'S' {
                            let nt = c.s.stmts.get(&name).map(|s| s.types.clone()).unwrap_or_default();
                            let mut t = BytesMut::new();
                            t.put_i16(nt.len() as i16);
                            for x in nt {
                                t.put_i32(x);
                            }
                            put_msg(&mut c.out, b't', &t);
                        }
                        put_msg(&mut c.out, b'n', &[]);
                    } else {
                        c.err("26000", &format!("{} \"{}\" does not exist", if kind == b'S' { "prepared statement" } else { "portal" }, name));
                        c.s.skip_until_sync = true;
                    }
                }
                Flow::Continue
            }
            b'E' => {
                let portal = read_cstr(&mut b);
                let q = c.s.portals.get(&portal).cloned();
                c.be.busy.lock().insert(c.s.id, q.clone().unwrap_or_default()); // C10
                c.log_msg(code, json!({"portal": portal, "sql": q, "raw": hex(&raw)}));
                let mut flow = Flow::Continue;
                if !c.s.skip_until_sync {
                    if mode == MODE_HANG {
                        flow = Flow::Hang;
                    } else {
                        match q {
                            Some(q) => {
                                let n0 = c.out.len();
                                flow = c.exec(&q, false).await;
                                if c.out.len() > n0 && last_is_error(&c.out) {
                                    c.s.skip_until_sync = true;
                                }
                            }
                            None => {
                                c.err("34000", &format!("portal \"{}\" does not exist", portal));
                                c.s.skip_until_sync = true;
                            }
                        }
                    }
                }
                flow
            }
            b'C' => {
                let kind = if b.is_empty() { 0 } else { b.get_u8() };
                let name = read_cstr(&mut b);
                c.log_msg(code, json!({"kind": (kind as char).to_string(), "name": name, "raw": hex(&raw)}));
                if !c.s.skip_until_sync {
                    if kind == b'S' {
                        c.s.stmts.remove(&name);
                    } else {
                        c.s.portals.remove(&name);
                    }
                    put_msg(&mut c.out, b'3', &[]);
                }
                Flow::Continue
            }
            b'S' => {
                c.log_msg(code, json!({"raw": hex(&raw)}));
                c.s.skip_until_sync = false;
                if mode == MODE_HANG {
                    Flow::Hang
                } else {
                    if c.s.copy_in {
                        // Sync during COPY IN is ignored by PostgreSQL
                    } else {
                        // implicit transaction end for extended protocol outside a block
                        c.s.portals.retain(|_, _| c.s.txn != b'I');
                        c.rfq();
                    }
                    Flow::Continue
                }
            }
            b'H' => {
                c.log_msg(code, json!({"raw": hex(&raw)}));
                Flow::Continue
            }
            b'X' => {
                c.log_msg(code, json!({"raw": hex(&raw)}));
                return "terminate".into();
            }
            _ => {
                c.log_msg(code, json!({"raw": hex(&raw), "unknown": true}));
                c.err("08P01", "invalid frontend message type");
                Flow::Continue
            }
        };
        c.publish_state();
        match flow {
            Flow::Continue => {
                if !c.out.is_empty() && !c.flush().await {
                    return "closed mid reply".into();
                }
                c.be.busy.lock().remove(&c.s.id); // C10: the statement (if any) has been answered
            }
            Flow::Close => return "mock close directive".into(),
            Flow::Hang => {
                // swallow everything until the peer closes
                let mut buf = [0u8; 4096];
                loop {
                    match c.stream.read(&mut buf).await {
                        Ok(0) | Err(_) => return "peer closed while hung".into(),
                        Ok(_) => {}
                    }
                }
            }
        }
    }
}

/// C12: SQLSTATE of the last ErrorResponse in the buffer (frames after it, e.g. ParameterStatus, are skipped over).
fn last_error_code(out: &BytesMut) -> Option<String> {
    let mut i = 0;
    let mut code = None;
    while i + 5 <= out.len() {
        let l = i32::from_be_bytes([out[i + 1], out[i + 2], out[i + 3], out[i + 4]]) as usize;
        if out[i] == b'E' && i + 1 + l <= out.len() {
            let mut b = &out[i + 5..i + 1 + l];
            code = None;
            while !b.is_empty() && b[0] != 0 {
                let k = b[0];
                b = &b[1..];
                let v = read_cstr(&mut b);
                if k == b'C' {
                    code = Some(v);
                }
            }
        }
        i += 1 + l;
    }
    code
}

/// C12: like strip_comments, but comment markers inside '...' literals are left alone.
fn strip_comments_q(sql: &str) -> String {
    let b = sql.as_bytes();
    let mut out: Vec<u8> = Vec::new();
    let mut i = 0;
    while i < b.len() {
        if b[i] == b'\'' {
            let estr = i > 0 && (b[i - 1] == b'E' || b[i - 1] == b'e');
            out.push(b[i]);
            i += 1;
            while i < b.len() {
                if estr && b[i] == b'\\' && i + 1 < b.len() {
                    out.push(b[i]);
                    out.push(b[i + 1]);
                    i += 2;
                    continue;
                }
                out.push(b[i]);
                if b[i] == b'\'' {
                    if i + 1 < b.len() && b[i + 1] == b'\'' {
                        out.push(b'\'');
                        i += 2;
                        continue;
                    }
                    i += 1;
                    break;
                }
                i += 1;
            }
            continue;
        }
        if b[i] == b'/' && i + 1 < b.len() && b[i + 1] == b'*' {
            match sql[i..].find("*/") {
                Some(e) => i += e + 2,
                None => i = b.len(),
            }
            continue;
        }
        out.push(b[i]);
        i += 1;
    }
    String::from_utf8_lossy(&out).trim().to_string()
}

fn last_is_error(out: &BytesMut) -> bool {
    // walk the frames, return whether the last one is 'E'
    let mut i = 0;
    let mut last = 0u8;
    while i + 5 <= out.len() {
        last = out[i];
        let l = i32::from_be_bytes([out[i + 1], out[i + 2], out[i + 3], out[i + 4]]) as usize;
        i += 1 + l;
    }
    last == b'E'
}

impl Backend {
    pub async fn start(name: &str, log: Log, md5: Option<(String, String)>) -> Arc<Backend> {
        Backend::start_at(name, log, md5, "127.0.0.1").await
    }

    pub async fn start_at(name: &str, log: Log, md5: Option<(String, String)>, host: &str) -> Arc<Backend> {
        let listener = TcpListener::bind((host, 0u16)).await.expect("bind mock backend");
        let port = listener.local_addr().unwrap().port();
        let be = Arc::new(Backend {
            name: name.to_string(),
            port,
            mode: AtomicU8::new(MODE_NORMAL),
            slow_ms: AtomicU64::new(300),
            log,
            next_conn: AtomicU64::new(1),
            md5,
            shadow: Mutex::new(HashMap::new()),
            open_conns: Mutex::new(BTreeMap::new()),
            max_open: AtomicU64::new(0),
            max_open_settled: AtomicU64::new(0),
            host: host.to_string(),
            hang_match: Mutex::new(None),
            fault_on: Mutex::new(None),
            slow_exact: Mutex::new(None),
            reset_epoch: AtomicU64::new(0),
            busy: Mutex::new(BTreeMap::new()),
            gates: Mutex::new(std::collections::HashSet::new()),
            key_scheme: Mutex::new(String::new()),
            refuse_new: std::sync::atomic::AtomicBool::new(false),
            listening: std::sync::atomic::AtomicBool::new(true),
            reply_segs: Mutex::new(Vec::new()),
            reply_segd: AtomicU64::new(2),
        });
        let be2 = be.clone();
        tokio::spawn(async move {
            let mut listener = Some(listener);
            let mut holder: Option<tokio::net::TcpSocket> = None; // C20: keeps the port while "down_held"
            loop {
                be2.listening.store(listener.is_some(), Ordering::SeqCst); // C10
                if be2.mode.load(Ordering::SeqCst) == MODE_DOWN_HELD || be2.refuse_new.load(Ordering::SeqCst) {
                    if listener.is_some() || holder.is_none() {
                        listener = None; // stop listening => connection refused ...
                        if let Ok(addr) = format!("{}:{}", be2.host, be2.port).parse::<std::net::SocketAddr>() {
                            if let Ok(sock) = tokio::net::TcpSocket::new_v4() {
                                let _ = sock.set_reuseaddr(true);
                                if sock.bind(addr).is_ok() {
                                    holder = Some(sock); // ... while a bound, non-listening socket reserves the port
                                }
                            }
                        }
                    }
                    tokio::time::sleep(std::time::Duration::from_millis(5)).await;
                    continue;
                }
                if holder.is_some() {
                    holder = None;
                }
                if be2.mode.load(Ordering::SeqCst) == MODE_DOWN {
                    listener = None; // stop listening => connection refused
                    tokio::time::sleep(std::time::Duration::from_millis(5)).await;
                    continue;
                }
                if listener.is_none() {
                    match TcpListener::bind((be2.host.as_str(), be2.port)).await {
                        Ok(l) => listener = Some(l),
                        Err(_) => {
                            tokio::time::sleep(std::time::Duration::from_millis(5)).await;
                            continue;
                        }
                    }
                }
                let l = listener.as_ref().unwrap();
                match tokio::time::timeout(std::time::Duration::from_millis(5), l.accept()).await {
                    Ok(Ok((s, _))) => {
                        if be2.mode.load(Ordering::SeqCst) == MODE_REFUSE {
                            drop(s); // "refuse": close at once
                            continue;
                        }
                        let be3 = be2.clone();
                        tokio::spawn(async move { session(be3, s).await });
                    }
                    _ => {}
                }
            }
        });
        be
    }

    /// C10: (process id, secret) announced by session `id` in BackendKeyData.  Poolers in front of PostgreSQL
    /// hand out arbitrary i32 values: negative, zero, extreme.  Sessions of one backend stay distinguishable.
    pub fn session_keys(&self, id: u64) -> (i32, i32) {
        let n = id as i32 + 1000;
        match self.key_scheme.lock().as_str() {
            "neg" => (-n, -(n * 7 + 13)),
            "zero" => (0, n),
            "min" => (i32::MIN + id as i32, i32::MAX - id as i32),
            "max" => (i32::MAX - id as i32, i32::MIN + id as i32),
            _ => (n, n * 7 + 13),
        }
    }

    pub fn set_mode(&self, m: &str) {
        let v = match m {
            "down" => MODE_DOWN,
            "hang" => MODE_HANG,
            "close_mid_reply" => MODE_CLOSE_MID_REPLY,
            "slow" => MODE_SLOW,
            "error" => MODE_ERROR,
            "hang_startup" => MODE_HANG_STARTUP,
            "refuse" => MODE_REFUSE,
            "noread" => MODE_NOREAD,
            "down_held" => MODE_DOWN_HELD,
            _ => MODE_NORMAL,
        };
        self.mode.store(v, Ordering::SeqCst);
    }
}
