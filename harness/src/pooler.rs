//! pgcat in-process: a transcription of main.rs (config load, pools, accept loop with the
//! shutdown/drain logic), driven by control messages instead of (or in addition to) signals.
use parking_lot::Mutex;
use pgcat::config::{get_config, reload_config};
use pgcat::pool::{get_all_pools, ClientServerMap, ConnectionPool};
use pgcat::stats::{get_client_stats, get_server_stats, Collector, Reporter, REPORTER};
use serde_json::{json, Value};
use std::collections::HashMap;
use std::sync::atomic::{AtomicBool, AtomicI64, Ordering};
use std::sync::Arc;
use tokio::net::TcpListener;
use tokio::sync::{broadcast, mpsc};

#[derive(Debug, Clone, Copy, PartialEq)]
pub enum Control {
    Sigint,
    Sigterm,
    Sighup,
}

pub struct Pooler {
    pub port: u16,
    pub control: mpsc::Sender<Control>,
    pub exited: Arc<AtomicBool>,
    pub total_clients: Arc<AtomicI64>,
    pub client_server_map: ClientServerMap,
    pub task_results: Arc<Mutex<Vec<String>>>, // how each client task ended: ok / err:<e> / panic
}

pub async fn start(config_path: &str, real_signals: bool) -> Result<Pooler, String> {
    pgcat::query_router::QueryRouter::setup();
    pgcat::config::parse(config_path).await.map_err(|e| format!("config: {:?}", e))?;
    let config = get_config();
    let listener = TcpListener::bind("127.0.0.1:0").await.map_err(|e| e.to_string())?;
    let port = listener.local_addr().unwrap().port();
    let client_server_map: ClientServerMap = Arc::new(Mutex::new(HashMap::new()));
    REPORTER.store(Arc::new(Reporter::default()));
    ConnectionPool::from_config(client_server_map.clone()).await.map_err(|e| format!("pool: {:?}", e))?;
    tokio::task::spawn(async move {
        let mut stats_collector = Collector::default();
        stats_collector.collect().await;
    });

    let (ctl_tx, mut ctl_rx) = mpsc::channel::<Control>(16);
    let exited = Arc::new(AtomicBool::new(false));
    let total = Arc::new(AtomicI64::new(0));
    let results = Arc::new(Mutex::new(Vec::new()));
    let p = Pooler {
        port,
        control: ctl_tx.clone(),
        exited: exited.clone(),
        total_clients: total.clone(),
        client_server_map: client_server_map.clone(),
        task_results: results.clone(),
    };

    if real_signals {
        // admin SHUTDOWN sends SIGINT to our own pid; main.rs handles SIGINT/SIGTERM/SIGHUP
        use tokio::signal::unix::{signal, SignalKind};
        let tx = ctl_tx.clone();
        let mut int = signal(SignalKind::interrupt()).unwrap();
        let mut term = signal(SignalKind::terminate()).unwrap();
        let mut hup = signal(SignalKind::hangup()).unwrap();
        tokio::spawn(async move {
            loop {
                tokio::select! {
                    _ = int.recv() => { let _ = tx.send(Control::Sigint).await; }
                    _ = term.recv() => { let _ = tx.send(Control::Sigterm).await; }
                    _ = hup.recv() => { let _ = tx.send(Control::Sighup).await; }
                }
            }
        });
    }

    tokio::spawn(async move {
        let (shutdown_tx, _) = broadcast::channel::<()>(1);
        let (drain_tx, mut drain_rx) = mpsc::channel::<i32>(2048);
        *DRAIN_TX.lock() = Some(drain_tx.clone()); // C10: lets a scenario fill the accounting channel
        let (exit_tx, mut exit_rx) = mpsc::channel::<()>(1);
        let mut admin_only = false;
        let mut total_clients: i32 = 0;
        loop {
            tokio::select! {
                ctl = ctl_rx.recv() => {
                    match ctl {
                        Some(Control::Sighup) => {
                            let _ = reload_config(client_server_map.clone()).await;
                        }
                        Some(Control::Sigint) => {
                            if admin_only { continue; }
                            admin_only = true;
                            let _ = shutdown_tx.send(());
                            let exit_tx = exit_tx.clone();
                            let _ = drain_tx.try_send(0);
                            let shutdown_timeout = config.general.shutdown_timeout;
                            tokio::task::spawn(async move {
                                let mut interval = tokio::time::interval(tokio::time::Duration::from_millis(shutdown_timeout));
                                interval.tick().await;
                                interval.tick().await;
                                let _ = exit_tx.send(()).await;
                            });
                        }
                        Some(Control::Sigterm) | None => break,
                    }
                },
                new_client = listener.accept() => {
                    let (socket, _addr) = match new_client {
                        Ok(x) => x,
                        Err(_) => continue,
                    };
                    let shutdown_rx = shutdown_tx.subscribe();
                    let drain_tx = drain_tx.clone();
                    let client_server_map = client_server_map.clone();
                    let tls_certificate = get_config().general.tls_certificate.clone();
                    pgcat::messages::configure_socket(&socket);
                    let results = results.clone();
                    // C10 (schedule hooks): every poll of this client task runs with pgcat::verif_hooks' actor
                    // id = accept index (1, 2, ..), so that an armed `verif_hooks::point` inside the task can
                    // park exactly the clients the scenario named (wire step `hook`).
                    let accept_index = ACCEPTED.fetch_add(1, Ordering::SeqCst) + 1;
                    let h = tokio::task::spawn(WithActor {
                        id: accept_index,
                        fut: Box::pin(async move {
                            pgcat::client::client_entrypoint(
                                socket,
                                client_server_map,
                                shutdown_rx,
                                drain_tx,
                                admin_only,
                                tls_certificate,
                                false,
                            )
                            .await
                        }),
                    });
                    tokio::spawn(async move {
                        let r = match h.await {
                            Ok(Ok(())) => "ok".to_string(),
                            Ok(Err(e)) => format!("err:{:?}", e),
                            Err(e) => if e.is_panic() { "panic".to_string() } else { "cancelled".to_string() },
                        };
                        results.lock().push(r);
                    });
                }
                _ = exit_rx.recv() => { break; }
                // C10 (additive): while DRAIN_STALL is set the accounting channel is not read (a busy main loop);
                // DRAIN_WAKE makes the loop look at the flag again
                _ = DRAIN_WAKE.notified() => {}
                client_ping = drain_rx.recv(), if !DRAIN_STALL.load(Ordering::SeqCst) => {
                    let client_ping = client_ping.unwrap();
                    total_clients += client_ping;
                    total.store(total_clients as i64, Ordering::SeqCst);
                    if total_clients == 0 && admin_only {
                        let _ = exit_tx.try_send(());
                    }
                }
            }
        }
        exited.store(true, Ordering::SeqCst);
        // main.rs returns here and the process exits: every task dies.  In-process we can only
        // mark the exit; the harness treats later observations accordingly.
    });
    Ok(p)
}

/// C10: the main loop does not read the drain (client accounting) channel while this is set.
pub static DRAIN_STALL: AtomicBool = AtomicBool::new(false);
pub static DRAIN_WAKE: once_cell::sync::Lazy<tokio::sync::Notify> = once_cell::sync::Lazy::new(tokio::sync::Notify::new);
pub static DRAIN_TX: once_cell::sync::Lazy<Mutex<Option<mpsc::Sender<i32>>>> = once_cell::sync::Lazy::new(|| Mutex::new(None));

/// C10: stall = stop reading the drain channel and fill its 2048 slots with no-op pings (0), so that every
/// `drain.send(..).await` of a client task waits — what a busy main loop does to client_entrypoint between
/// accept and handle(); un-stall = read again (everything queued is then processed in order).
pub async fn drain_stall(on: bool) -> usize {
    let mut filled = 0;
    if on {
        DRAIN_STALL.store(true, Ordering::SeqCst);
        DRAIN_WAKE.notify_one();
        let tx = DRAIN_TX.lock().clone();
        if let Some(tx) = tx {
            // the loop may still complete one pending recv: top the channel up until it stays full
            let mut quiet = 0;
            while quiet < 3 {
                let mut n = 0;
                while tx.try_send(0).is_ok() {
                    n += 1;
                }
                filled += n;
                quiet = if n == 0 { quiet + 1 } else { 0 };
                tokio::time::sleep(std::time::Duration::from_millis(3)).await;
            }
        }
    } else {
        DRAIN_STALL.store(false, Ordering::SeqCst);
        DRAIN_WAKE.notify_one();
    }
    filled
}

/// C10: number of client connections accepted so far (the accept index of a client task).
pub static ACCEPTED: std::sync::atomic::AtomicU64 = std::sync::atomic::AtomicU64::new(0);
/// C10: true while a scenario has the verif_hooks armed (wire step `hook`).
pub static HOOK_ACTORS: AtomicBool = AtomicBool::new(false);

/// C10: polls the wrapped client task with pgcat::verif_hooks' actor id = its accept index (1, 2, ..).
/// Inert unless the hooks are armed (`verif_hooks::point` returns at once).  The id is set on EVERY poll,
/// armed or not: a poll that is already running when the harness arms the hooks must carry its id too.
pub struct WithActor<F> {
    pub id: u64,
    pub fut: std::pin::Pin<Box<F>>,
}

impl<F: std::future::Future> std::future::Future for WithActor<F> {
    type Output = F::Output;
    fn poll(mut self: std::pin::Pin<&mut Self>, cx: &mut std::task::Context<'_>) -> std::task::Poll<F::Output> {
        pgcat::verif_hooks::set_actor(self.id);
        self.fut.as_mut().poll(cx)
    }
}

/// Snapshot of everything observable through pgcat's public API.
pub fn snapshot() -> Value {
    let mut pools = vec![];
    let mut all: Vec<_> = get_all_pools().into_iter().collect();
    all.sort_by_key(|(id, _)| format!("{}", id));
    for (id, pool) in all {
        let mut servers = vec![];
        for s in 0..pool.shards() {
            for i in 0..pool.servers(s) {
                let st = pool.pool_state(s, i);
                let a = pool.address(s, i);
                servers.push(json!({"shard": s, "index": i, "host": a.host, "port": a.port, "role": format!("{:?}", a.role),
                                    "connections": st.connections, "idle": st.idle_connections, "banned": pool.is_banned(a)}));
            }
        }
        pools.push(json!({"pool": format!("{}", id), "paused": pool.paused(), "servers": servers}));
    }
    let mut clients: Vec<Value> = get_client_stats()
        .values()
        .map(|c| {
            json!({"id": c.client_id(), "pool": c.pool_name(), "user": c.username(), "app": c.application_name(),
                   "state": format!("{}", c.state.load(Ordering::Relaxed)),
                   "xact": c.transaction_count.load(Ordering::Relaxed), "query": c.query_count.load(Ordering::Relaxed),
                   "errors": c.error_count.load(Ordering::Relaxed)})
        })
        .collect();
    clients.sort_by_key(|c| c["id"].as_i64());
    let mut servers: Vec<Value> = get_server_stats()
        .values()
        .map(|s| {
            json!({"id": s.server_id(), "addr": s.address_name(), "pool": s.pool_name(), "user": s.username(),
                   "state": format!("{}", s.state.load(Ordering::Relaxed)),
                   "xact": s.transaction_count.load(Ordering::Relaxed), "query": s.query_count.load(Ordering::Relaxed),
                   "errors": s.error_count.load(Ordering::Relaxed),
                   "sent": s.bytes_sent.load(Ordering::Relaxed), "recv": s.bytes_received.load(Ordering::Relaxed)})
        })
        .collect();
    servers.sort_by_key(|c| c["id"].as_i64());
    json!({"pools": pools, "clients": clients, "servers": servers})
}
