use std::panic::{catch_unwind, AssertUnwindSafe};

pub fn hex(b: &[u8]) -> String {
    b.iter().map(|x| format!("{:02x}", x)).collect()
}

pub fn unhex(s: &str) -> Vec<u8> {
    let s = s.trim();
    (0..s.len() / 2)
        .map(|i| u8::from_str_radix(&s[2 * i..2 * i + 2], 16).unwrap())
        .collect()
}

/// Run f, mapping a panic to Err(message).
pub fn guarded<T>(f: impl FnOnce() -> T) -> Result<T, String> {
    match catch_unwind(AssertUnwindSafe(f)) {
        Ok(v) => Ok(v),
        Err(e) => {
            let m = if let Some(s) = e.downcast_ref::<&str>() {
                s.to_string()
            } else if let Some(s) = e.downcast_ref::<String>() {
                s.clone()
            } else {
                "panic".to_string()
            };
            Err(m)
        }
    }
}

pub fn quiet_panics() {
    std::panic::set_hook(Box::new(|_| {}));
}
