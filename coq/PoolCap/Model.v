(** C04 — server connections are bounded by pool_size, never leaked; waiters are served.

    Executable model (definitions only) of ONE bb8 pool = one (pool, user, server) of pgcat,
    together with the client tasks at the granularity "hold / release a server connection".
    Proofs: Proofs.v; property theorems: Props.v.

    ---------------------------------------------------------------------------------------
    Environment model [Bb8] — bb8 0.8.6 (~/.cargo/registry/src/*/bb8-0.8.6/src), ASSUMED,
    exercised by the wire harness (props/c04.py), not proved about the crate:

    internals.rs:70-78    PoolInternals { conns: VecDeque<IdleConn>, num_conns, pending_conns,
                          in_flight }                      = [idleq], [num_conns], [pending],
                                                             [in_flight] (derived: one Getting per
                                                             task inside [get])
    internals.rs:181-187  state(): connections = num_conns, idle_connections = conns.len()
                                                           (what [pool_state()] shows the harness)
    internals.rs:144-149  approvals(n) = min(n, max_size - (num_conns + pending_conns));
                          pending_conns += that            = [approvals]
    internals.rs:137-142  wanted() = approvals(min_idle - (idle + pending))   = [wanted]
    internals.rs:239-251  Getting::get: pop_front of the idle queue (then wanted()), else ONE
                          approval iff in_flight > pending_conns             = [try_get]
    internals.rs:254-269  Getting::new / Drop: in_flight += 1 / -= 1 for the whole call of get
    internals.rs:84-111   put(conn, approval): (approval: pending -= 1, num_conns += 1);
                          Fifo => push_back, Lifo => push_front; notify.notify_one()
                                                                             = [put_idle]
    internals.rs:113-122  connect_failed: pending_conns -= 1                 = [ConnectFailed]
    internals.rs:124-135  dropped(n): num_conns -= n; wanted()               = in [put_back], [Reap]
    internals.rs:151-179  reap(): idle connections past idle_timeout/max_lifetime are removed,
                          dropped(k) — no notify                             = [Reap]
    inner.rs:89-138       get(): loop { Getting::get; spawn approvals; Some(conn) => return;
                          None => notify.notified().await; continue } under
                          timeout(connection_timeout) => RunError::TimedOut
                                                           = [Checkout] / [Retry] / [WaitTimeout]
                          (test_on_check_out is false in pgcat: pool.rs:511)
    inner.rs:147-172      put_back: has_broken / is_expired decide; not broken => put(conn, None);
                          broken => dropped(1), spawn approvals, notify.notify_one()
                                                                             = [put_back]
    inner.rs:192-236      add_connection: connect(); Ok => put(conn, Some(approval));
                          Err (after retries up to connection_timeout) => connect_failed
                                                           = [ConnEstablished] / [ConnectFailed]
    api.rs:472-486        Drop for PooledConnection => put_back (the only way a checked-out
                          connection leaves a task)

    Env: tokio 1.29.1 sync/notify.rs — the pool's waiters are NOT a queue inside bb8 but the
    wait list of one [Notify]:
      notify.rs:983  registration push_front, :726 notify_one pop_back  => FIFO   = [waiters]
      notify.rs:553-585, 704-720  notify_one with an empty wait list stores ONE permit;
                     the next notified().await completes at once           = [permit]
      notify.rs:1107-1145  a Notified dropped after being notified passes the notification on
                     (so a waiter that times out does not swallow a wake-up; in the model a
                     notified getter is in [woken] and can only [Retry], never time out:
                     tokio::time::Timeout polls the inner future first).
    A notified getter does not receive a connection: it re-runs Getting::get ([Retry]) and, if
    the idle queue is empty again (a newcomer took the connection, or the wake-up came from a
    CLOSED connection), asks for one approval and registers again AT THE BACK of the wait list.
    Consequence (confirmed on the implementation, see props/c04.py `rotation`): after a broken
    connection is dropped while [b; c] wait, c is served before b.

    ---------------------------------------------------------------------------------------
    pgcat (/repo/src, tree at a7d476c) — the code modelled:

    pool.rs:503-517   Pool::builder().max_size(user.pool_size).min_idle(user.min_pool_size)
                      .connection_timeout(connect_timeout).queue_strategy(Lifo | Fifo if
                      server_round_robin).test_on_check_out(false)          = [config]
    pool.rs:645-687   validate(): the first client that connects (client.rs:741) makes pgcat do
                      ONE bb8 get() per server and drop the guard: the pool starts with one idle
                      connection and a stored Notify permit (the harness models it as a one-off
                      client: Checkout; ConnEstablished; Retry; TxnEndRelease)
    pool.rs:810-828   pool.get(): databases[shard][i].get().await; Err => ban (never a primary:
                      pool.rs:945) and next candidate; none left => Err(AllServersDown) (871)
    pool.rs:1261-1271 has_broken = is_bad() || (role != Mirror && is_unclean()); is_unclean
                      (server.rs:1268-1273) = in_transaction || in_copy_mode || data_available ||
                      needs_cleanup: decides the [broken] argument of every release
    client.rs:1101-1163  checkout; Err => error_response "could not get connection from the
                      pool", [continue] (client stays usable), or with checkout_failure_limit
                      reached (1142-1159) => terminal error, return         = [WaitTimeout c fatal]
    client.rs:1165    [let mut reference = connection.0;] — the PooledConnection guard is a LOCAL
                      of the outer loop body of handle(): it is dropped at the end of the
                      iteration (1693), by every [return]/[?] below it, and by unwinding.
                      (1172 [_cancel_entry] is declared after it, hence dropped before it.)
    client.rs:1209-1681  transaction loop; [break] only when !server.in_transaction() and
                      transaction mode and !in_copy_mode (1319-1332, 1584-1595, 1661-1672; 1619-
                      1621 for a CopyDone/CopyFail outside COPY), or on the idle-in-transaction
                      timeout (1232-1249)                                   = [TxnEndRelease]
                      session mode: never breaks                            = [SessionModeKeep]
    client.rs:1686    server.checkin_cleanup().await? then the guard drops  = [TxnEndRelease c b]

    Every way the task can END while it holds the guard ([ExitHolding c how broken]); line
    numbers of client.rs; each drops [reference] => put_back with [broken] = has_broken:
      XTerminate        1337-1342  'X': checkin_cleanup()?, return Ok
      ClientSocketErr   1224-1230  read error inside the loop: checkin_cleanup()?, return Err
      IdleTimeoutWrite  1234       error_response(..)? fails on the idle-in-transaction timeout
      DecoderErr        1359 buffer_parse?, 1365 buffer_bind? (also "prepared statement does not
                        exist": 1965-1977), 1371 buffer_describe?, 1384 Close::try_from?
      Panic             any panic below 1165 unwinds through the local (e.g. a Close whose body is
                        just "S": messages.rs Close::try_from reads past the end — observed: task
                        result "panic")
      ClientWriteFail   1293, 1298, 1402, 1409 ([?] on error_response / write_all);
                        2083-2089, 1556-1565, 1647-1652 (mark_bad, return Err)
      StatementTimeout  2153-2164  mark_bad, terminal error, Err
      ServerError       1194 sync_parameters?; send 2114-2119 (server.rs send sets bad);
                        recv 2141-2151 (server.rs recv sets bad); 1605, 1631, 1638-1645
      CleanupErr        1228, 1338, 1686: checkin_cleanup()? itself fails (ROLLBACK / RESET I/O)
      PreparedStmtErr   1481-1484, 1493-1499, 1507-1513 (register/ensure prepared statement)?
    Ends while NOT holding ([Disconnect]): 924-927, 932, 935 (read error), 938-943 ('X'), 949,
    956, 973, 978, 1029, 1040, 1047, 1059, 1072, 1092, 1125, 1149-1158.

    [continue] inside the transaction loop = ways to stay in it HOLDING (7; props/c04.py checks the
    count): 1294/1299 Deny/Intercept at 'Q', 1395 Sync during COPY, 1405 Deny at 'S', 1412
    Intercept at 'S', 1459 in the buffer drain (inner while), 1623 CopyDone/CopyFail outside COPY
    while in a transaction or in session mode.  All are reached only inside a transaction / COPY
    or in session mode:
      * a verdict on a first message 'Q' is acted on in the outer loop (972-980), a Deny stored at
        'P' at 1070-1075, and — since a7d476c — an Intercept stored at 'P' at 1077-1085 ([if
        message[0] == 'S'] ... reset_buffered_state, write, plugin_output = None, continue), all
        BEFORE wait_paused / the checkout: an intercepted batch never takes a server;
      * so the transaction loop sees an Intercept verdict at 'S' (1408-1413) only for a Parse it
        received itself, i.e. while the client is inside a transaction or the pool is in session
        mode, where holding is what the mode means.
    F14 (repaired by a7d476c): before that commit the check at 1077-1085 did not exist; the
    verdict stored at 'P' was acted on at 'S' only after the checkout, inside the transaction
    loop, which [continue]d: the client had its ReadyForQuery('I') and was idle while the
    connection stayed in use until its next message.  That code is kept as the MUTANT
    [InterceptHold], enabled only under [f14_mutant cfg = true]; the model of the code that exists
    is [f14_mutant cfg = false], where the op is never enabled. *)
From Coq Require Import Arith Bool List.
Import ListNotations.

Definition cid := nat.   (* client task *)
Definition sid := nat.   (* server connection, numbered in the order they are established *)

(** Where a task that holds a connection is.  [Fresh]: the checkout just returned, the message
    that triggered it has not been processed yet (the task is running).  [InTxn]: blocked at the
    read of the transaction loop inside a transaction / COPY.  [IdleHeld]: blocked at that read
    OUTSIDE a transaction — what session mode does by definition, and what transaction mode must
    never do. *)
Inductive phase : Type := Fresh | InTxn | IdleHeld.

Inductive cstate : Type :=
| NoServer                         (* at the outer-loop read, no guard *)
| Waiting                          (* inside pool.get(): in the Notify wait list or notified *)
| Holding (s : sid) (ph : phase)   (* owns the guard of connection s *)
| Gone.                            (* task ended *)

Inductive strategy : Type := Fifo | Lifo.

Record config : Type := mkConfig {
  max_size : nat;        (* user.pool_size *)
  min_idle : nat;        (* user.min_pool_size, 0 if unset *)
  strat : strategy;      (* Fifo iff general.server_round_robin *)
  session_mode : bool;   (* pool_mode = session *)
  f14_mutant : bool      (* false = the code that exists; true = the code before a7d476c (mutant) *)
}.

Record state : Type := mkState {
  num_conns : nat;               (* PoolInternals.num_conns *)
  pending : nat;                 (* PoolInternals.pending_conns: connections being established *)
  idleq : list sid;              (* PoolInternals.conns, head = front *)
  waiters : list cid;            (* Notify wait list, head = oldest *)
  woken : list cid;              (* notified getters that have not re-run Getting::get yet *)
  permit : bool;                 (* the permit a Notify stores when nobody waits *)
  clients : cid -> cstate;       (* any number of clients; initially all NoServer *)
  held : list (sid * cid);       (* the live PooledConnection guards: (connection, owning task) *)
  dead : list sid;               (* connections whose server side is gone (informational) *)
  next_sid : sid
}.

Definition init : state := mkState 0 0 [] [] [] false (fun _ => NoServer) [] [] 0.

Definition upd (f : cid -> cstate) (c : cid) (v : cstate) : cid -> cstate :=
  fun x => if Nat.eqb x c then v else f x.

(* field setters *)
Definition set_num st v := mkState v (pending st) (idleq st) (waiters st) (woken st) (permit st) (clients st) (held st) (dead st) (next_sid st).
Definition set_pending st v := mkState (num_conns st) v (idleq st) (waiters st) (woken st) (permit st) (clients st) (held st) (dead st) (next_sid st).
Definition set_idleq st v := mkState (num_conns st) (pending st) v (waiters st) (woken st) (permit st) (clients st) (held st) (dead st) (next_sid st).
Definition set_waiters st v := mkState (num_conns st) (pending st) (idleq st) v (woken st) (permit st) (clients st) (held st) (dead st) (next_sid st).
Definition set_woken st v := mkState (num_conns st) (pending st) (idleq st) (waiters st) v (permit st) (clients st) (held st) (dead st) (next_sid st).
Definition set_permit st v := mkState (num_conns st) (pending st) (idleq st) (waiters st) (woken st) v (clients st) (held st) (dead st) (next_sid st).
Definition set_client st c v := mkState (num_conns st) (pending st) (idleq st) (waiters st) (woken st) (permit st) (upd (clients st) c v) (held st) (dead st) (next_sid st).
Definition set_held st v := mkState (num_conns st) (pending st) (idleq st) (waiters st) (woken st) (permit st) (clients st) v (dead st) (next_sid st).
Definition set_dead st v := mkState (num_conns st) (pending st) (idleq st) (waiters st) (woken st) (permit st) (clients st) (held st) v (next_sid st).
Definition set_next st v := mkState (num_conns st) (pending st) (idleq st) (waiters st) (woken st) (permit st) (clients st) (held st) (dead st) v.

Fixpoint mem (x : nat) (l : list nat) : bool :=
  match l with [] => false | y :: r => if Nat.eqb x y then true else mem x r end.

(** remove the first occurrence *)
Fixpoint remove1 (x : nat) (l : list nat) : list nat :=
  match l with [] => [] | y :: r => if Nat.eqb x y then r else y :: remove1 x r end.

(** drop the guard owned by task c *)
Fixpoint drop_guard (c : cid) (l : list (sid * cid)) : list (sid * cid) :=
  match l with
  | [] => []
  | (s, d) :: r => if Nat.eqb d c then r else (s, d) :: drop_guard c r
  end.

(** number of tasks inside get() = live [Getting] values *)
Definition in_flight (st : state) : nat := length (waiters st) + length (woken st).

(** internals.rs:144-149 *)
Definition approvals (cfg : config) (st : state) (n : nat) : nat :=
  Nat.min n (max_size cfg - (num_conns st + pending st)).

(** internals.rs:137-142, followed by spawn_replenishing_approvals: the approved connections are
    now being established *)
Definition replenish (cfg : config) (st : state) : state :=
  set_pending st (pending st + approvals cfg st (min_idle cfg - (length (idleq st) + pending st))).

(** Notify::notify_one *)
Definition notify_one (st : state) : state :=
  match waiters st with
  | w :: ws => set_woken (set_waiters st ws) (woken st ++ [w])
  | [] => set_permit st true
  end.

(** PoolInternals::put (the approval bookkeeping is done by the caller) *)
Definition put_idle (cfg : config) (st : state) (s : sid) : state :=
  notify_one (set_idleq st (match strat cfg with Fifo => idleq st ++ [s] | Lifo => s :: idleq st end)).

(** PoolInner::put_back of connection s (its guard is already gone from [held]) *)
Definition put_back (cfg : config) (st : state) (s : sid) (broken : bool) : state :=
  if broken
  then notify_one (replenish cfg (set_dead (set_num st (num_conns st - 1)) (remove1 s (dead st))))
  else put_idle cfg st s.

(** One pass of the loop body of PoolInner::get by task c; [infl] = in_flight including c. *)
Definition try_get (cfg : config) (st : state) (c : cid) (infl : nat) : state :=
  match idleq st with
  | s :: rest =>
      replenish cfg (set_client (set_held (set_idleq st rest) ((s, c) :: held st)) c (Holding s Fresh))
  | [] =>
      let appr := if Nat.ltb (pending st) infl then 1 else 0 in
      let st1 := set_pending st (pending st + approvals cfg st appr) in
      if permit st1
      then set_client (set_woken (set_permit st1 false) (woken st1 ++ [c])) c Waiting
      else set_client (set_waiters st1 (waiters st1 ++ [c])) c Waiting
  end.

(** the guard of task c is dropped; the task continues as [next] *)
Definition release (cfg : config) (st : state) (c : cid) (s : sid) (broken : bool) (next : cstate) : state :=
  put_back cfg (set_client (set_held st (drop_guard c (held st))) c next) s broken.

Inductive exit_how : Type :=
| XTerminate | ClientSocketErr | IdleTimeoutWrite | DecoderErr | Panic | ClientWriteFail
| StatementTimeout | ServerError | CleanupErr | PreparedStmtErr.

Inductive op : Type :=
| Checkout (c : cid)                       (* client task calls pool.get() *)
| Retry (c : cid)                          (* env: a notified getter re-runs Getting::get ("Granted" if it finds a connection) *)
| ConnEstablished                          (* env: add_connection succeeded *)
| ConnectFailed                            (* env: add_connection gave up *)
| WaitTimeout (c : cid) (fatal : bool)     (* env: connection_timeout; fatal = checkout_failure_limit reached *)
| Exchange (c : cid)                       (* holder ran a statement and is (still) inside a transaction *)
| TxnEndRelease (c : cid) (broken : bool)  (* normal release *)
| SessionModeKeep (c : cid)                (* session mode: transaction over, connection kept *)
| InterceptHold (c : cid)                  (* MUTANT (pre-a7d476c code, F14): Intercept verdict acted on at 'S' inside the loop *)
| ExitHolding (c : cid) (how : exit_how) (broken : bool)
| Disconnect (c : cid)                     (* task ends while not holding *)
| ConnDied (s : sid)                       (* server side closes the connection; the pool does not notice *)
| Reap (s : sid).                          (* bb8 reaper removes an idle connection *)

Definition enabled (cfg : config) (st : state) (o : op) : bool :=
  match o with
  | Checkout c => match clients st c with NoServer => true | _ => false end
  | Retry c => mem c (woken st)
  | ConnEstablished | ConnectFailed => Nat.ltb 0 (pending st)
  | WaitTimeout c _ => mem c (waiters st)
  | Exchange c | TxnEndRelease c _ | ExitHolding c _ _ =>
      match clients st c with Holding _ _ => true | _ => false end
  | SessionModeKeep c =>
      match clients st c with Holding _ _ => session_mode cfg | _ => false end
  | InterceptHold c =>
      match clients st c with Holding _ Fresh | Holding _ IdleHeld => f14_mutant cfg | _ => false end
  | Disconnect c => match clients st c with NoServer => true | _ => false end
  | ConnDied s => (mem s (idleq st) || mem s (map fst (held st))) && negb (mem s (dead st))
  | Reap s => mem s (idleq st)
  end.

(** One step; an op that is not enabled leaves the state unchanged. *)
Definition step (cfg : config) (st : state) (o : op) : state :=
  if negb (enabled cfg st o) then st else
  match o with
  | Checkout c => try_get cfg st c (in_flight st + 1)
  | Retry c =>
      let st1 := set_woken st (remove1 c (woken st)) in
      try_get cfg st1 c (in_flight st1 + 1)
  | ConnEstablished =>
      let s := next_sid st in
      put_idle cfg (set_next (set_num (set_pending st (pending st - 1)) (num_conns st + 1)) (S s)) s
  | ConnectFailed => set_pending st (pending st - 1)
  | WaitTimeout c fatal =>
      set_client (set_waiters st (remove1 c (waiters st))) c (if fatal then Gone else NoServer)
  | Exchange c =>
      match clients st c with Holding s _ => set_client st c (Holding s InTxn) | _ => st end
  | TxnEndRelease c broken =>
      match clients st c with Holding s _ => release cfg st c s broken NoServer | _ => st end
  | SessionModeKeep c =>
      match clients st c with Holding s _ => set_client st c (Holding s IdleHeld) | _ => st end
  | InterceptHold c =>
      match clients st c with Holding s _ => set_client st c (Holding s IdleHeld) | _ => st end
  | ExitHolding c _ broken =>
      match clients st c with Holding s _ => release cfg st c s broken Gone | _ => st end
  | Disconnect c => set_client st c Gone
  | ConnDied s => set_dead st (s :: dead st)
  | Reap s =>
      replenish cfg (set_dead (set_num (set_idleq st (remove1 s (idleq st))) (num_conns st - 1)) (remove1 s (dead st)))
  end.

Definition run_from (cfg : config) (st : state) (ops : list op) : state := fold_left (step cfg) ops st.
Definition run (cfg : config) (ops : list op) : state := run_from cfg init ops.

(** COPY: a holder inside COPY FROM STDIN / TO STDOUT is in phase [InTxn] (client.rs keeps the server while
    server.in_copy_mode()); however the COPY ends — CommandComplete, or an ErrorResponse after CopyFail or
    from the server itself (server.rs recv: both arms clear in_copy_mode) — the next ReadyForQuery('I') is
    a [TxnEndRelease].  A task that ends while its server is still in COPY mode cannot clean it up
    (server.rs checkin_cleanup marks it bad): [broken = true] whatever [expected_broken] says below. *)

(** What has_broken answers for the exit classes whose answer does not depend on a race
    (used by the correspondence to predict [broken]; [None] = read back from the trace).
    [ph] is the holder's phase at the exit. *)
Definition expected_broken (how : exit_how) (ph : phase) : option bool :=
  match how with
  | XTerminate | ClientSocketErr => Some false                  (* checkin_cleanup ran: ROLLBACK / RESET *)
  | DecoderErr | Panic | PreparedStmtErr =>
      Some (match ph with InTxn => true | _ => false end)       (* no cleanup: is_unclean decides *)
  | StatementTimeout | ServerError | CleanupErr => Some true    (* mark_bad / bad set by send, recv *)
  | ClientWriteFail | IdleTimeoutWrite => None
  end.


(** --- driving the environment to quiescence (used by the capacity theorem and the harness) --- *)

(** Let client c obtain a connection when nobody else is inside get(): checkout, and if the idle
    queue was empty, let the connection that is being established arrive. *)
Definition acquire (cfg : config) (st : state) (c : cid) : state :=
  let st1 := step cfg st (Checkout c) in
  match clients st1 c with
  | Holding _ _ => st1
  | _ =>
      let st2 := if mem c (woken st1) then step cfg st1 (Retry c) else st1 in
      step cfg (step cfg st2 ConnEstablished) (Retry c)
  end.

Definition acquire_ops (cfg : config) (st : state) (c : cid) : list op :=
  let st1 := step cfg st (Checkout c) in
  match clients st1 c with
  | Holding _ _ => [Checkout c]
  | _ => Checkout c :: (if mem c (woken st1) then [Retry c] else []) ++ [ConnEstablished; Retry c]
  end.

Definition acquire_all (cfg : config) (st : state) (cs : list cid) : state := fold_left (acquire cfg) cs st.

(** --- observations for the correspondence --- *)

Definition view (st : state) (cs : list cid) :=
  (num_conns st, pending st, idleq st, (waiters st, woken st), map (fun c => (c, clients st c)) cs, dead st).

Fixpoint run_views (cfg : config) (st : state) (ops : list op) (cs : list cid) :=
  match ops with
  | [] => []
  | o :: r => let st' := step cfg st o in (enabled cfg st o, view st' cs) :: run_views cfg st' r cs
  end.
