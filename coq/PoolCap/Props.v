(** C04 — server connections are bounded by pool_size, never leaked; waiters are served.
    Property theorems (statements only; proofs in Proofs.v). *)
From Coq Require Import Arith Bool List.
From PV Require Import PoolCap.Model PoolCap.Proofs.
Import ListNotations.

(** After ANY history (any number of clients, any pool size / mode / queue strategy, any
    interleaving of checkouts, wake-ups, releases, exits, timeouts, connection deaths): the
    connections the pool manages plus those being established never exceed max_size, and the
    pool's counter is exactly idle + held (nothing is counted that nobody has). *)
Theorem c04_bound : forall cfg ops,
  let st := run cfg ops in
  num_conns st + pending st <= max_size cfg /\
  num_conns st = length (idleq st) + length (held st) /\
  length (idleq st) + length (held st) + pending st <= max_size cfg.
Proof. exact bound_lemma. Qed.
Print Assumptions c04_bound.

(** A connection has at most one holder, a task holds at most one connection, the guard list
    agrees with the tasks' own state, a held connection is not in the idle queue, and the idle
    queue has no duplicates. *)
Theorem c04_exclusive : forall cfg ops s c1 c2,
  let st := run cfg ops in
  (In (s, c1) (held st) -> In (s, c2) (held st) -> c1 = c2) /\
  (forall s2, In (s, c1) (held st) -> In (s2, c1) (held st) -> s = s2) /\
  (In (s, c1) (held st) <-> exists ph, clients st c1 = Holding s ph) /\
  (In (s, c1) (held st) -> ~ In s (idleq st)) /\
  NoDup (idleq st).
Proof. exact exclusive_lemma. Qed.
Print Assumptions c04_exclusive.

(** No leak: whenever every task is at the outer loop (or gone) no connection is in use, nobody
    is registered as a waiter, and every connection the pool counts is idle. *)
Theorem c04_no_leak : forall cfg ops,
  let st := run cfg ops in
  (forall c, clients st c = NoServer \/ clients st c = Gone) ->
  held st = [] /\ waiters st = [] /\ woken st = [] /\ num_conns st = length (idleq st).
Proof. intros cfg ops. exact (quiescent_lemma cfg (run cfg ops) (run_inv cfg ops)). Qed.
Print Assumptions c04_no_leak.

(** ... and the full capacity is obtainable again: max_size distinct clients that check out one
    after the other (the environment only completes the connection attempts the pool itself
    starts) all hold a connection at the same time. *)
Theorem c04_capacity_restored : forall cfg ops cs,
  let st := run cfg ops in
  (forall c, clients st c = NoServer \/ clients st c = Gone) ->
  NoDup cs -> (forall c, In c cs -> clients st c = NoServer) -> length cs = max_size cfg ->
  let st' := acquire_all cfg st cs in
  (forall c, In c cs -> exists s, clients st' c = Holding s Fresh) /\
  length (held st') = max_size cfg /\ idleq st' = [] /\ num_conns st' = max_size cfg /\
  exists ops', st' = run cfg (ops ++ ops') /\
     (forall o, In o ops' -> match o with Checkout _ | Retry _ | ConnEstablished => True | _ => False end).
Proof. exact capacity_lemma. Qed.
Print Assumptions c04_capacity_restored.

(** Waiters are served, FIFO: if c registered first and a connection comes back in good state,
    c is the one that is woken and it gets exactly that connection. *)
Theorem c04_waiter_served_release : forall cfg ops c rest c' s ph o,
  let st := run cfg ops in
  waiters st = c :: rest -> woken st = [] -> idleq st = [] -> clients st c' = Holding s ph ->
  (o = TxnEndRelease c' false \/ exists how, o = ExitHolding c' how false) ->
  let st1 := step cfg st o in
  waiters st1 = rest /\ woken st1 = [c] /\ idleq st1 = [s] /\
  clients (step cfg st1 (Retry c)) c = Holding s Fresh /\ idleq (step cfg st1 (Retry c)) = [].
Proof. intros cfg ops c rest c' s ph o. exact (served_on_release cfg (run cfg ops) c rest c' s ph o). Qed.
Print Assumptions c04_waiter_served_release.

(** If the connection comes back broken it is closed (count decremented), the woken waiter asks
    for a replacement (one is being established) and re-registers at the back; the new
    connection goes to the waiter then first in line — a waiter is served, the freed capacity
    is not lost. *)
Theorem c04_waiter_served_close : forall cfg ops c rest c' s ph o,
  let st := run cfg ops in
  waiters st = c :: rest -> woken st = [] -> idleq st = [] -> clients st c' = Holding s ph ->
  (o = TxnEndRelease c' true \/ exists how, o = ExitHolding c' how true) ->
  let st1 := step cfg st o in
  let st2 := step cfg st1 (Retry c) in
  let st3 := step cfg st2 ConnEstablished in
  let w := hd c (rest ++ [c]) in
  num_conns st1 = num_conns st - 1 /\ woken st1 = [c] /\
  waiters st2 = rest ++ [c] /\ 0 < pending st2 /\
  idleq st3 = [next_sid st] /\ woken st3 = [w] /\ In w (c :: rest) /\
  clients (step cfg st3 (Retry w)) w = Holding (next_sid st) Fresh.
Proof.
  intros cfg ops c rest c' s ph o.
  exact (served_on_close cfg (run cfg ops) c rest c' s ph o (run_inv cfg ops) (run_invW cfg ops)).
Qed.
Print Assumptions c04_waiter_served_close.

(** No lost wake-up, under every interleaving (newcomers may overtake): while somebody is
    registered in the wait list, every idle connection has a notified getter on its way, and the
    Notify holds no stale permit. *)
Theorem c04_no_lost_wakeup : forall cfg ops,
  let st := run cfg ops in
  (waiters st <> [] -> length (idleq st) <= length (woken st)) /\
  (waiters st <> [] -> permit st = false).
Proof. intros cfg ops. destruct (run_invW cfg ops) as [A B]. split; assumption. Qed.
Print Assumptions c04_no_lost_wakeup.

(** A waiter that times out is back at the outer loop, holds nothing, is registered nowhere,
    the accounting is unchanged, and it may check out again ... *)
Theorem c04_timeout_usable : forall cfg ops c,
  let st := run cfg ops in
  In c (waiters st) ->
  let st1 := step cfg st (WaitTimeout c false) in
  Inv cfg st1 /\ clients st1 c = NoServer /\ ~ In c (waiters st1) /\ ~ In c (woken st1) /\
  num_conns st1 = num_conns st /\ pending st1 = pending st /\ idleq st1 = idleq st /\ held st1 = held st /\
  enabled cfg st1 (Checkout c) = true.
Proof. intros cfg ops c. exact (timeout_lemma cfg (run cfg ops) c (run_inv cfg ops)). Qed.
Print Assumptions c04_timeout_usable.

(** ... and a checkout by a task at the outer loop is granted at once when a connection is idle. *)
Theorem c04_checkout_grants_idle : forall cfg st c s rest,
  clients st c = NoServer -> idleq st = s :: rest ->
  clients (step cfg st (Checkout c)) c = Holding s Fresh /\ idleq (step cfg st (Checkout c)) = rest.
Proof. exact checkout_idle_grants. Qed.
Print Assumptions c04_checkout_grants_idle.

(** Transaction mode, the code that exists ([f14_mutant cfg = false], i.e. since a7d476c): no task
    ever sits at the client read holding a connection outside a transaction — for every history,
    no class excepted. *)
Theorem c04_no_idle_hold : forall cfg ops,
  session_mode cfg = false -> f14_mutant cfg = false ->
  forall c s, clients (run cfg ops) c <> Holding s IdleHeld.
Proof. exact no_idle_hold_lemma. Qed.
Print Assumptions c04_no_idle_hold.

(** The mutant = the code before a7d476c (finding F14, fixed): there the property fails. *)
Theorem c04_no_idle_hold_mutant_refuted :
  session_mode f14_cfg = false /\ f14_mutant f14_cfg = true /\
  clients (run f14_cfg f14_ops) 0 = Holding 0 IdleHeld /\
  clients (run f14_cfg f14_ops) 1 = NoServer /\ idleq (run f14_cfg f14_ops) = [] /\
  ~ no_idle_hold (run f14_cfg f14_ops).
Proof. exact no_idle_hold_refuted_lemma. Qed.
Print Assumptions c04_no_idle_hold_mutant_refuted.

(** * Non-vacuity: 3 clients, pool of 2 (transaction mode, LIFO) *)
Definition ex_cfg : config := mkConfig 2 0 Lifo false false.
Definition ex_ops1 : list op :=
  [Checkout 0; ConnEstablished; Retry 0; Exchange 0;      (* client 0: BEGIN on connection 0 *)
   Checkout 1; ConnEstablished; Retry 1; Exchange 1;      (* client 1: BEGIN on connection 1 *)
   Checkout 2].                                           (* client 2 has to wait; no third connection *)

Example ex_third_client_waits :
  view (run ex_cfg ex_ops1) [0; 1; 2] =
  (2, 0, [], ([2], []), [(0, Holding 0 InTxn); (1, Holding 1 InTxn); (2, Waiting)], []).
Proof. vm_compute. reflexivity. Qed.

Example ex_waiter_served_on_commit :
  view (run ex_cfg (ex_ops1 ++ [TxnEndRelease 0 false; Retry 2; Exchange 2])) [0; 1; 2] =
  (2, 0, [], ([], []), [(0, NoServer); (1, Holding 1 InTxn); (2, Holding 0 InTxn)], []).
Proof. vm_compute. reflexivity. Qed.

Example ex_waiter_times_out_and_returns :
  view (run ex_cfg (ex_ops1 ++ [WaitTimeout 2 false; TxnEndRelease 1 false; Checkout 2])) [0; 1; 2] =
  (2, 0, [], ([], []), [(0, Holding 0 InTxn); (1, NoServer); (2, Holding 1 Fresh)], []).
Proof. vm_compute. reflexivity. Qed.

(** a panic inside a transaction closes the connection; the waiter gets a NEW one (number 2) *)
Example ex_broken_connection_replaced :
  view (run ex_cfg (ex_ops1 ++ [ExitHolding 1 Panic true; Retry 2; ConnEstablished; Retry 2])) [0; 1; 2] =
  (2, 0, [], ([], []), [(0, Holding 0 InTxn); (1, Gone); (2, Holding 2 Fresh)], []).
Proof. vm_compute. reflexivity. Qed.

(** everybody leaves: nothing in use, both connections idle, and two newcomers get them at once *)
Example ex_all_leave_capacity_back :
  let st := run ex_cfg (ex_ops1 ++ [WaitTimeout 2 true; ExitHolding 0 XTerminate false; TxnEndRelease 1 false; Disconnect 1]) in
  view st [0; 1; 2] = (2, 0, [1; 0], ([], []), [(0, Gone); (1, Gone); (2, Gone)], [])
  /\ view (acquire_all ex_cfg st [7; 8]) [7; 8] = (2, 0, [], ([], []), [(7, Holding 1 Fresh); (8, Holding 0 Fresh)], []).
Proof. vm_compute. split; reflexivity. Qed.

(** bb8's wait list rotates on a closed connection: pool of 1, [1; 2] wait, the holder panics in
    its transaction: 2 is served before 1 (observed identically on the implementation). *)
Example ex_rotation_on_close :
  view (run (mkConfig 1 0 Lifo false false)
         [Checkout 0; ConnEstablished; Retry 0; Exchange 0; Checkout 1; Checkout 2;
          ExitHolding 0 Panic true; Retry 1; ConnEstablished; Retry 2]) [0; 1; 2] =
  (1, 0, [], ([1], []), [(0, Gone); (1, Waiting); (2, Holding 1 Fresh)], []).
Proof. vm_compute. reflexivity. Qed.

(** session mode keeps the connection between transactions — by definition, not a leak *)
Example ex_session_mode_keeps :
  view (run (mkConfig 1 0 Lifo true false) [Checkout 0; ConnEstablished; Retry 0; Exchange 0; SessionModeKeep 0]) [0] =
  (1, 0, [], ([], []), [(0, Holding 0 IdleHeld)], []).
Proof. vm_compute. reflexivity. Qed.
