(** C04 — lemmas.  Property theorems are re-exported in Props.v. *)
From Coq Require Import Arith Bool List Lia Permutation.
From PV Require Import PoolCap.Model.
Import ListNotations.

(** * lists *)

Lemma mem_In : forall x l, mem x l = true <-> In x l.
Proof.
  induction l as [|y r IH]; cbn; [split; [discriminate|tauto]|].
  destruct (Nat.eqb x y) eqn:E.
  - apply Nat.eqb_eq in E; subst; tauto.
  - apply Nat.eqb_neq in E. rewrite IH. split; [tauto|]. intros [H|H]; [congruence|assumption].
Qed.

Lemma mem_false : forall x l, mem x l = false <-> ~ In x l.
Proof.
  intros x l. rewrite <- mem_In. destruct (mem x l); split; intros; congruence.
Qed.

Lemma remove1_perm : forall x l, In x l -> Permutation l (x :: remove1 x l).
Proof.
  induction l as [|y r IH]; cbn; [tauto|]. intros H.
  destruct (Nat.eqb x y) eqn:E.
  - apply Nat.eqb_eq in E; subst; apply Permutation_refl.
  - apply Nat.eqb_neq in E. destruct H as [H|H]; [congruence|].
    eapply perm_trans; [apply perm_skip, IH, H|apply perm_swap].
Qed.

Lemma remove1_length : forall x l, In x l -> S (length (remove1 x l)) = length l.
Proof.
  intros x l H. apply remove1_perm, Permutation_length in H. cbn in H. lia.
Qed.

Lemma remove1_incl : forall x y l, In y (remove1 x l) -> In y l.
Proof.
  induction l as [|z r IH]; cbn; [tauto|]. destruct (Nat.eqb x z); cbn; tauto.
Qed.

Lemma remove1_NoDup : forall x l, NoDup l -> NoDup (remove1 x l) /\ ~ In x (remove1 x l).
Proof.
  intros x l H. destruct (in_dec Nat.eq_dec x l) as [I|I].
  - pose proof (remove1_perm x l I) as P.
    pose proof (Permutation_NoDup P H) as N. inversion N; subst; tauto.
  - assert (E : remove1 x l = l).
    { clear H. induction l as [|z r IH]; cbn; [reflexivity|].
      destruct (Nat.eqb x z) eqn:E.
      - apply Nat.eqb_eq in E; subst; cbn in I; tauto.
      - f_equal; apply IH; cbn in I; tauto. }
    rewrite E; tauto.
Qed.

Lemma remove1_nil_wake : forall x l, remove1 x l <> [] -> l <> [].
Proof. intros x [|y r]; cbn; congruence. Qed.

Lemma drop_guard_perm : forall c s l, In (s, c) l -> NoDup (map snd l) ->
  Permutation l ((s, c) :: drop_guard c l).
Proof.
  induction l as [|[s' d] r IH]; cbn; [tauto|]. intros H N.
  inversion N as [|? ? N1 N2]; subst.
  destruct (Nat.eqb d c) eqn:E.
  - apply Nat.eqb_eq in E; subst. destruct H as [H|H].
    + inversion H; subst; apply Permutation_refl.
    + exfalso; apply N1. change c with (snd (s, c)). apply in_map, H.
  - apply Nat.eqb_neq in E. destruct H as [H|H]; [inversion H; congruence|].
    eapply perm_trans; [apply perm_skip, IH; assumption|apply perm_swap].
Qed.

Lemma NoDup_app_swap : forall (A : Type) (a b : list A), NoDup (a ++ b) -> NoDup (b ++ a).
Proof. intros A a b H. eapply Permutation_NoDup; [apply Permutation_app_comm|exact H]. Qed.

Lemma NoDup_app_r : forall (A : Type) (a b : list A), NoDup (a ++ b) -> NoDup b.
Proof. induction a as [|x a IH]; cbn; intros b H; [exact H|]. inversion H; subst; apply IH; assumption. Qed.

(** * the invariant *)

Definition live (st : state) : list sid := idleq st ++ map fst (held st).
Definition getters (st : state) : list cid := waiters st ++ woken st.

(** [k]: connections counted in [num_conns] that are momentarily neither idle nor held (inside
    put_back / add_connection); [ex]: a task that is between two passes of the loop in get(). *)
Record InvP (cfg : config) (k : nat) (ex : option cid) (st : state) : Prop := {
  p_cap : num_conns st + pending st <= max_size cfg;
  p_cnt : num_conns st = length (idleq st) + length (held st) + k;
  p_live : NoDup (live st);
  p_one : NoDup (map snd (held st));
  p_own : forall s c, In (s, c) (held st) <-> exists ph, clients st c = Holding s ph;
  p_w1 : forall c, In c (getters st) -> clients st c = Waiting;
  p_w2 : forall c, Some c <> ex -> clients st c = Waiting -> In c (getters st);
  p_gnd : NoDup (getters st);
  p_fresh : forall s, In s (live st) -> s < next_sid st
}.

Definition Inv (cfg : config) (st : state) : Prop := InvP cfg 0 None st.

Lemma InvP_transfer : forall cfg k ex st st',
  num_conns st' = num_conns st -> pending st' = pending st -> idleq st' = idleq st ->
  held st' = held st -> (forall c, clients st' c = clients st c) -> next_sid st' = next_sid st ->
  Permutation (getters st) (getters st') ->
  InvP cfg k ex st -> InvP cfg k ex st'.
Proof.
  intros cfg k ex st st' E1 E2 E3 E4 E5 E6 P [H1 H2 H3 H4 H5 H6 H7 H8 H9].
  constructor; unfold live in *; rewrite ?E1, ?E2, ?E3, ?E4, ?E6; try assumption.
  - intros s c; rewrite E5; apply H5.
  - intros c I; rewrite E5; apply H6. eapply Permutation_in; [apply Permutation_sym, P|exact I].
  - intros c N W; rewrite E5 in W. eapply Permutation_in; [exact P|]. apply H7; assumption.
  - eapply Permutation_NoDup; eassumption.
Qed.

Lemma InvP_set_pending : forall cfg k ex st p,
  num_conns st + p <= max_size cfg -> InvP cfg k ex st -> InvP cfg k ex (set_pending st p).
Proof.
  intros cfg k ex st p L [H1 H2 H3 H4 H5 H6 H7 H8 H9]. constructor; cbn; assumption.
Qed.

Lemma approvals_le : forall cfg st n, num_conns st + (pending st + approvals cfg st n) <= max_size cfg \/ approvals cfg st n = 0.
Proof. intros; unfold approvals; lia. Qed.

Lemma InvP_approve : forall cfg k ex st n,
  InvP cfg k ex st -> InvP cfg k ex (set_pending st (pending st + approvals cfg st n)).
Proof.
  intros cfg k ex st n H. apply InvP_set_pending; [|exact H].
  pose proof (p_cap _ _ _ _ H). unfold approvals; lia.
Qed.

Lemma InvP_replenish : forall cfg k ex st, InvP cfg k ex st -> InvP cfg k ex (replenish cfg st).
Proof. intros; unfold replenish; apply InvP_approve; assumption. Qed.

Lemma getters_notify : forall st, Permutation (getters st) (getters (notify_one st)).
Proof.
  intros st. unfold notify_one, getters. destruct (waiters st) as [|w ws] eqn:E; cbn; rewrite ?E; [apply Permutation_refl|].
  rewrite app_assoc. apply Permutation_cons_app. rewrite app_nil_r. apply Permutation_refl.
Qed.

Lemma notify_fields : forall st,
  num_conns (notify_one st) = num_conns st /\ pending (notify_one st) = pending st /\
  idleq (notify_one st) = idleq st /\ held (notify_one st) = held st /\
  clients (notify_one st) = clients st /\ next_sid (notify_one st) = next_sid st /\ dead (notify_one st) = dead st.
Proof. intros st; unfold notify_one; destruct (waiters st); cbn; repeat split. Qed.

Lemma InvP_notify : forall cfg k ex st, InvP cfg k ex st -> InvP cfg k ex (notify_one st).
Proof.
  intros cfg k ex st H. destruct (notify_fields st) as (A & B & C & D & E & F & _).
  eapply InvP_transfer; try eassumption; [intros; rewrite E; reflexivity|apply getters_notify].
Qed.

Lemma InvP_set_dead : forall cfg k ex st d, InvP cfg k ex st -> InvP cfg k ex (set_dead st d).
Proof. intros cfg k ex st d H. eapply InvP_transfer; try exact H; reflexivity. Qed.

Lemma InvP_put_idle : forall cfg ex st s,
  InvP cfg 1 ex st -> ~ In s (live st) -> s < next_sid st -> InvP cfg 0 ex (put_idle cfg st s).
Proof.
  intros cfg ex st s [H1 H2 H3 H4 H5 H6 H7 H8 H9] NI LT. unfold put_idle. apply InvP_notify.
  assert (P : Permutation (s :: idleq st) (match strat cfg with Fifo => idleq st ++ [s] | Lifo => s :: idleq st end)).
  { destruct (strat cfg); [|apply Permutation_refl]. apply Permutation_cons_append. }
  constructor; cbn; try assumption.
  - rewrite <- (Permutation_length P); cbn; lia.
  - unfold live in *; cbn. eapply Permutation_NoDup; [apply Permutation_app_tail, P|].
    cbn; constructor; assumption.
  - unfold live in *; cbn. intros x I. eapply Permutation_in in I; [|apply Permutation_app_tail, Permutation_sym, P].
    cbn in I; destruct I as [I|I]; [subst; assumption|apply H9, I].
Qed.

Lemma InvP_dropnum : forall cfg ex st, InvP cfg 1 ex st -> InvP cfg 0 ex (set_num st (num_conns st - 1)).
Proof.
  intros cfg ex st [H1 H2 H3 H4 H5 H6 H7 H8 H9]. constructor; cbn; try assumption; lia.
Qed.

Lemma InvP_put_back : forall cfg ex st s b,
  InvP cfg 1 ex st -> ~ In s (live st) -> s < next_sid st -> InvP cfg 0 ex (put_back cfg st s b).
Proof.
  intros cfg ex st s b H NI LT. unfold put_back. destruct b.
  - apply InvP_notify, InvP_replenish, InvP_set_dead, InvP_dropnum, H.
  - apply InvP_put_idle; assumption.
Qed.

(** dropping the guard of a holder *)
Lemma InvP_unguard : forall cfg st c s ph next,
  Inv cfg st -> clients st c = Holding s ph -> (next = NoServer \/ next = Gone) ->
  let st' := set_client (set_held st (drop_guard c (held st))) c next in
  InvP cfg 1 None st' /\ ~ In s (live st') /\ s < next_sid st'.
Proof.
  intros cfg st c s ph next [H1 H2 H3 H4 H5 H6 H7 H8 H9] HC NX st'.
  assert (I : In (s, c) (held st)) by (apply H5; eauto).
  pose proof (drop_guard_perm c s (held st) I H4) as P.
  assert (Pf : Permutation (map fst (held st)) (s :: map fst (drop_guard c (held st)))) by (apply (Permutation_map fst) in P; exact P).
  assert (Ps : Permutation (map snd (held st)) (c :: map snd (drop_guard c (held st)))) by (apply (Permutation_map snd) in P; exact P).
  assert (NDs : NoDup (c :: map snd (drop_guard c (held st)))) by (eapply Permutation_NoDup; eassumption).
  assert (PL : Permutation (live st) (s :: idleq st ++ map fst (drop_guard c (held st)))).
  { unfold live. eapply perm_trans; [apply Permutation_app_head, Pf|]. apply Permutation_sym, Permutation_middle. }
  assert (NDl : NoDup (s :: idleq st ++ map fst (drop_guard c (held st)))) by (eapply Permutation_NoDup; eassumption).
  assert (NW : next <> Waiting) by (destruct NX; subst; discriminate).
  assert (NH : forall s' ph', next <> Holding s' ph') by (destruct NX; subst; discriminate).
  split; [|split].
  - constructor; subst st'; unfold live; cbn; try assumption.
    + apply Permutation_length in P; cbn in P; lia.
    + inversion NDl; assumption.
    + inversion NDs; assumption.
    + intros s' c'. unfold upd. destruct (Nat.eqb c' c) eqn:E.
      * apply Nat.eqb_eq in E; subst c'. split.
        -- intros I'. exfalso. inversion NDs as [|? ? N1 N2]; subst. apply N1.
           change c with (snd (s', c)). apply in_map, I'.
        -- intros [ph' X]; exfalso; eapply NH; eassumption.
      * apply Nat.eqb_neq in E. rewrite <- H5. split.
        -- intros I'. eapply Permutation_in; [apply Permutation_sym, P|right; exact I'].
        -- intros I'. eapply Permutation_in in I'; [|exact P]. destruct I' as [I'|I']; [inversion I'; congruence|exact I'].
    + intros c' I'. unfold upd. destruct (Nat.eqb c' c) eqn:E.
      * apply Nat.eqb_eq in E; subst c'. apply H6 in I'. congruence.
      * apply H6, I'.
    + intros c' N W. unfold upd in W. destruct (Nat.eqb c' c) eqn:E; [congruence|]. apply H7; assumption.
    + intros x I'. apply H9. eapply Permutation_in; [apply Permutation_sym, PL|right; exact I'].
  - subst st'; unfold live; cbn. inversion NDl; assumption.
  - subst st'; cbn. apply H9. eapply Permutation_in; [apply Permutation_sym, PL|left; reflexivity].
Qed.

Lemma Inv_release : forall cfg st c s ph b next,
  Inv cfg st -> clients st c = Holding s ph -> (next = NoServer \/ next = Gone) ->
  Inv cfg (release cfg st c s b next).
Proof.
  intros cfg st c s ph b next H HC NX. unfold release.
  destruct (InvP_unguard cfg st c s ph next H HC NX) as (A & B & C).
  apply InvP_put_back; assumption.
Qed.

(** one pass of the loop in get() *)
Lemma Inv_try_get : forall cfg st c n,
  InvP cfg 0 (Some c) st -> (forall s ph, clients st c <> Holding s ph) -> ~ In c (getters st) ->
  Inv cfg (try_get cfg st c n).
Proof.
  intros cfg st c n H NH NG. unfold try_get. destruct (idleq st) as [|s rest] eqn:EI.
  - (* nothing idle: ask for an approval, wait *)
    set (st1 := set_pending st (pending st + approvals cfg st (if pending st <? n then 1 else 0))).
    assert (H1 : InvP cfg 0 (Some c) st1) by (apply InvP_approve, H).
    assert (G1 : getters st1 = getters st) by reflexivity.
    destruct H1 as [H1 H2 H3 H4 H5 H6 H7 H8 H9].
    assert (NHeld : forall s', ~ In (s', c) (held st1)).
    { intros s' I. apply H5 in I. destruct I as [ph X]. eapply NH. exact X. }
    assert (COMMON : forall st2, num_conns st2 = num_conns st1 -> pending st2 = pending st1 -> idleq st2 = idleq st1 ->
              held st2 = held st1 -> clients st2 = upd (clients st1) c Waiting -> next_sid st2 = next_sid st1 ->
              Permutation (c :: getters st1) (getters st2) -> Inv cfg st2).
    { intros st2 E1 E2 E3 E4 E5 E6 P. constructor; unfold live; rewrite ?E1, ?E2, ?E3, ?E4, ?E6; try assumption.
      - intros s' c'. rewrite E5. unfold upd. destruct (Nat.eqb c' c) eqn:E.
        + apply Nat.eqb_eq in E; subst c'. split; [intros I; exfalso; eapply NHeld; exact I|intros [ph X]; discriminate].
        + apply H5.
      - intros c' I. rewrite E5. unfold upd. destruct (Nat.eqb c' c) eqn:E; [reflexivity|].
        apply H6. eapply Permutation_in in I; [|apply Permutation_sym, P]. destruct I as [I|I]; [|exact I].
        subst c'. rewrite Nat.eqb_refl in E; discriminate.
      - intros c' _ W. rewrite E5 in W. unfold upd in W. eapply Permutation_in; [exact P|].
        destruct (Nat.eqb c' c) eqn:E.
        + apply Nat.eqb_eq in E; subst; left; reflexivity.
        + right. apply H7; [|exact W]. apply Nat.eqb_neq in E. congruence.
      - eapply Permutation_NoDup; [exact P|]. constructor; [rewrite G1; exact NG|exact H8]. }
    destruct (permit st1) eqn:EP.
    + apply COMMON; try reflexivity. unfold getters; cbn.
      rewrite app_assoc. apply Permutation_cons_append.
    + apply COMMON; try reflexivity. unfold getters; cbn.
      rewrite <- app_assoc. eapply perm_trans; [apply Permutation_cons_append|].
      rewrite <- !app_assoc. apply Permutation_app_head. cbn. apply Permutation_sym, Permutation_cons_append.
  - (* an idle connection: take it *)
    apply InvP_replenish.
    destruct H as [H1 H2 H3 H4 H5 H6 H7 H8 H9]. unfold live in *. rewrite EI in *.
    assert (NHeld : forall s', ~ In (s', c) (held st)).
    { intros s' I. apply H5 in I. destruct I as [ph X]. eapply NH. exact X. }
    assert (PL : Permutation ((s :: rest) ++ map fst (held st)) (rest ++ s :: map fst (held st))) by apply Permutation_middle.
    constructor; unfold live; cbn; try assumption.
    + cbn in H2; lia.
    + eapply Permutation_NoDup; [exact PL|exact H3].
    + constructor; [|exact H4]. intros I. apply in_map_iff in I. destruct I as [[s' c'] [E I]]; cbn in E; subst c'.
      eapply NHeld; exact I.
    + intros s' c'. unfold upd. destruct (Nat.eqb c' c) eqn:E.
      * apply Nat.eqb_eq in E; subst c'. split.
        -- intros [I|I]; [inversion I; subst; eauto|exfalso; eapply NHeld; exact I].
        -- intros [ph X]; inversion X; subst; left; reflexivity.
      * apply Nat.eqb_neq in E. rewrite <- H5. split; [intros [I|I]; [inversion I; congruence|exact I]|intros I; right; exact I].
    + intros c' I. unfold upd. destruct (Nat.eqb c' c) eqn:E.
      * apply Nat.eqb_eq in E; subst; contradiction.
      * apply H6, I.
    + intros c' _ W. unfold upd in W. destruct (Nat.eqb c' c) eqn:E; [discriminate|].
      apply H7; [|exact W]. apply Nat.eqb_neq in E; congruence.
    + intros x I. apply H9. eapply Permutation_in; [apply Permutation_sym, PL|exact I].
Qed.

Lemma InvP_weaken : forall cfg k ex st, InvP cfg k None st -> InvP cfg k ex st.
Proof.
  intros cfg k ex st [H1 H2 H3 H4 H5 H6 H7 H8 H9]. constructor; try assumption.
  intros c _ W; apply H7; [discriminate|exact W].
Qed.

(** a holder changes phase *)
Lemma Inv_rephase : forall cfg st c s ph ph',
  Inv cfg st -> clients st c = Holding s ph -> Inv cfg (set_client st c (Holding s ph')).
Proof.
  intros cfg st c s ph ph' [H1 H2 H3 H4 H5 H6 H7 H8 H9] HC. constructor; cbn; try assumption.
  - intros s' c'. unfold upd. destruct (Nat.eqb c' c) eqn:E.
    + apply Nat.eqb_eq in E; subst c'. rewrite H5, HC. split; intros [p X]; inversion X; subst; eauto.
    + apply H5.
  - intros c' I. unfold upd. destruct (Nat.eqb c' c) eqn:E; [|apply H6, I].
    apply Nat.eqb_eq in E; subst. apply H6 in I; congruence.
  - intros c' N W. unfold upd in W. destruct (Nat.eqb c' c) eqn:E; [discriminate|apply H7; assumption].
Qed.

(** a task that holds nothing and waits for nothing ends *)
Lemma Inv_leave : forall cfg st c v,
  Inv cfg st -> clients st c = NoServer -> (v = NoServer \/ v = Gone) -> Inv cfg (set_client st c v).
Proof.
  intros cfg st c v [H1 H2 H3 H4 H5 H6 H7 H8 H9] HC V. constructor; cbn; try assumption.
  - intros s' c'. unfold upd. destruct (Nat.eqb c' c) eqn:E; [|apply H5].
    apply Nat.eqb_eq in E; subst c'. rewrite H5, HC. split; intros [p X]; [discriminate|destruct V; subst; discriminate].
  - intros c' I. unfold upd. destruct (Nat.eqb c' c) eqn:E; [|apply H6, I].
    apply Nat.eqb_eq in E; subst. apply H6 in I; congruence.
  - intros c' N W. unfold upd in W. destruct (Nat.eqb c' c) eqn:E; [destruct V; subst; discriminate|apply H7; assumption].
Qed.

Lemma Inv_init : forall cfg, Inv cfg init.
Proof.
  intros cfg. constructor; cbn; try constructor; try lia; try tauto.
  - intros [ph X]; discriminate.
  - intros; discriminate.
Qed.

Lemma step_inv : forall cfg st o, Inv cfg st -> Inv cfg (step cfg st o).
Proof.
  intros cfg st o H. unfold step. destruct (enabled cfg st o) eqn:EN; cbn [negb]; [|exact H].
  destruct o as [c|c| | |c fatal|c|c b|c|c|c how b|c|s|s]; cbn in EN.
  - (* Checkout *)
    destruct (clients st c) eqn:HC; try discriminate.
    apply Inv_try_get; [apply InvP_weaken, H|intros; congruence|].
    intros I. apply (p_w1 _ _ _ _ H) in I. congruence.
  - (* Retry *)
    apply mem_In in EN.
    assert (W : clients st c = Waiting) by (apply (p_w1 _ _ _ _ H); unfold getters; apply in_or_app; right; exact EN).
    destruct (remove1_NoDup c (woken st)) as [ND NI].
    { pose proof (p_gnd _ _ _ _ H) as G. unfold getters in G. eapply NoDup_app_r; exact G. }
    pose proof (remove1_perm c (woken st) EN) as P.
    assert (PG : Permutation (getters st) (c :: waiters st ++ remove1 c (woken st))).
    { unfold getters. eapply perm_trans; [apply Permutation_app_head, P|]. apply Permutation_sym, Permutation_middle. }
    assert (NDG : NoDup (c :: waiters st ++ remove1 c (woken st))) by (eapply Permutation_NoDup; [exact PG|apply (p_gnd _ _ _ _ H)]).
    apply Inv_try_get.
    + destruct H as [H1 H2 H3 H4 H5 H6 H7 H8 H9]. constructor; cbn; try assumption.
      * intros c' I. apply H6. eapply Permutation_in; [apply Permutation_sym, PG|right; exact I].
      * intros c' N Wc. apply H7 in Wc; [|discriminate]. eapply Permutation_in in Wc; [|exact PG].
        destruct Wc as [Wc|Wc]; [congruence|exact Wc].
      * inversion NDG; assumption.
    + cbn. intros; congruence.
    + unfold getters; cbn. inversion NDG; assumption.
  - (* ConnEstablished *)
    assert (PP : 0 < pending st) by (destruct (pending st); [discriminate|lia]). apply InvP_put_idle.
    + destruct H as [H1 H2 H3 H4 H5 H6 H7 H8 H9]. constructor; unfold live in *; cbn; try assumption; try lia.
      intros x I. apply H9 in I. lia.
    + unfold live; cbn. intros I. apply (p_fresh _ _ _ _ H) in I. lia.
    + cbn. lia.
  - (* ConnectFailed *)
    apply InvP_set_pending; [|exact H]. pose proof (p_cap _ _ _ _ H). lia.
  - (* WaitTimeout *)
    apply mem_In in EN.
    assert (W : clients st c = Waiting) by (apply (p_w1 _ _ _ _ H); unfold getters; apply in_or_app; left; exact EN).
    pose proof (remove1_perm c (waiters st) EN) as P.
    assert (PG : Permutation (getters st) (c :: remove1 c (waiters st) ++ woken st)).
    { unfold getters. eapply perm_trans; [apply Permutation_app_tail, P|]. apply Permutation_refl. }
    assert (NDG : NoDup (c :: remove1 c (waiters st) ++ woken st)) by (eapply Permutation_NoDup; [exact PG|apply (p_gnd _ _ _ _ H)]).
    assert (V : forall s ph, (if fatal then Gone else NoServer) <> Holding s ph) by (destruct fatal; discriminate).
    assert (V2 : (if fatal then Gone else NoServer) <> Waiting) by (destruct fatal; discriminate).
    destruct H as [H1 H2 H3 H4 H5 H6 H7 H8 H9]. constructor; unfold getters; cbn; try assumption.
    + intros s' c'. unfold upd. destruct (Nat.eqb c' c) eqn:E; [|apply H5].
      apply Nat.eqb_eq in E; subst c'. rewrite H5, W. split; intros [p X]; [discriminate|exfalso; eapply V; exact X].
    + intros c' I. unfold upd. destruct (Nat.eqb c' c) eqn:E.
      * apply Nat.eqb_eq in E; subst c'. inversion NDG; contradiction.
      * apply H6. eapply Permutation_in; [apply Permutation_sym, PG|right; exact I].
    + intros c' N Wc. unfold upd in Wc. destruct (Nat.eqb c' c) eqn:E; [congruence|].
      apply H7 in Wc; [|exact N]. eapply Permutation_in in Wc; [|exact PG]. destruct Wc as [Wc|Wc]; [|exact Wc].
      subst c'. rewrite Nat.eqb_refl in E; discriminate.
    + inversion NDG; assumption.
  - (* Exchange *)
    destruct (clients st c) eqn:HC; try discriminate. eapply Inv_rephase; eassumption.
  - (* TxnEndRelease *)
    destruct (clients st c) eqn:HC; try discriminate. eapply Inv_release; eauto.
  - (* SessionModeKeep *)
    destruct (clients st c) eqn:HC; try discriminate. eapply Inv_rephase; eassumption.
  - (* InterceptHold *)
    destruct (clients st c) eqn:HC; try discriminate. eapply Inv_rephase; eassumption.
  - (* ExitHolding *)
    destruct (clients st c) eqn:HC; try discriminate. eapply Inv_release; eauto.
  - (* Disconnect *)
    destruct (clients st c) eqn:HC; try discriminate. apply Inv_leave; auto.
  - (* ConnDied *)
    apply InvP_set_dead, H.
  - (* Reap *)
    apply mem_In in EN. apply InvP_replenish, InvP_set_dead.
    pose proof (remove1_perm s (idleq st) EN) as P.
    destruct H as [H1 H2 H3 H4 H5 H6 H7 H8 H9]. unfold live in *.
    assert (PL : Permutation (idleq st ++ map fst (held st)) (s :: remove1 s (idleq st) ++ map fst (held st))) by (apply (Permutation_app_tail _ P)).
    assert (ND : NoDup (s :: remove1 s (idleq st) ++ map fst (held st))) by (eapply Permutation_NoDup; eassumption).
    constructor; unfold live; cbn; try assumption.
    + lia.
    + apply Permutation_length in P; cbn in P. unfold sid, cid in *. lia.
    + inversion ND; assumption.
    + intros x I. apply H9. eapply Permutation_in; [apply Permutation_sym, PL|right; exact I].
Qed.

Lemma run_from_inv : forall cfg ops st, Inv cfg st -> Inv cfg (run_from cfg st ops).
Proof.
  induction ops as [|o r IH]; cbn; intros st H; [exact H|]. apply IH, step_inv, H.
Qed.

Lemma run_inv : forall cfg ops, Inv cfg (run cfg ops).
Proof. intros; apply run_from_inv, Inv_init. Qed.

(** * no lost wake-up: while somebody is registered in the wait list, every idle connection has a
      notified getter on its way to it, and the Notify holds no stale permit *)

Record InvW (st : state) : Prop := {
  w_wake : waiters st <> [] -> length (idleq st) <= length (woken st);
  w_perm : waiters st <> [] -> permit st = false
}.

Lemma W_notify : forall st,
  (waiters st <> [] -> length (idleq st) <= length (woken st) + 1) ->
  (waiters st <> [] -> permit st = false) -> InvW (notify_one st).
Proof.
  intros st A B. unfold notify_one. destruct (waiters st) as [|w ws] eqn:E.
  - constructor; cbn; rewrite E; congruence.
  - constructor; cbn; intros N.
    + rewrite app_length; cbn. assert (X : w :: ws <> []) by discriminate. apply A in X. lia.
    + apply B; discriminate.
Qed.

Lemma W_replenish : forall cfg st, InvW st -> InvW (replenish cfg st).
Proof. intros cfg st [A B]; constructor; cbn; assumption. Qed.

Lemma W_put_idle : forall cfg st s, InvW st -> InvW (put_idle cfg st s).
Proof.
  intros cfg st s [A B]. unfold put_idle. apply W_notify; cbn; [|exact B].
  intros N. apply A in N. destruct (strat cfg); cbn; rewrite ?app_length; cbn; lia.
Qed.

Lemma W_put_back : forall cfg st s b, InvW st -> InvW (put_back cfg st s b).
Proof.
  intros cfg st s b H. unfold put_back. destruct b; [|apply W_put_idle, H].
  destruct H as [A B]. apply W_notify; cbn; [intros N; apply A in N; lia|exact B].
Qed.

Lemma W_try_get : forall cfg st c n,
  (waiters st <> [] -> length (idleq st) <= length (woken st) + 1) ->
  (waiters st <> [] -> permit st = false) -> InvW (try_get cfg st c n).
Proof.
  intros cfg st c n A B. unfold try_get. destruct (idleq st) as [|s rest] eqn:E.
  - cbn. destruct (permit st) eqn:P; constructor; cbn; rewrite ?E; cbn; intros; try lia; try reflexivity; assumption.
  - apply W_replenish. constructor; cbn; intros N; [apply A in N; cbn in N; lia|apply B, N].
Qed.

Lemma step_invW : forall cfg st o, InvW st -> InvW (step cfg st o).
Proof.
  intros cfg st o H. unfold step. destruct (enabled cfg st o) eqn:EN; cbn [negb]; [|exact H].
  destruct H as [A B].
  destruct o as [c|c| | |c fatal|c|c b|c|c|c how b|c|s|s]; cbn in EN.
  - apply W_try_get; [intros N; apply A in N; lia|exact B].
  - apply mem_In in EN. pose proof (remove1_length c (woken st) EN) as L.
    apply W_try_get; cbn; [intros N; apply A in N; unfold sid, cid in *; lia|exact B].
  - apply W_put_idle. constructor; cbn; assumption.
  - constructor; cbn; assumption.
  - constructor; cbn; intros N; apply remove1_nil_wake in N; auto.
  - destruct (clients st c); try exact (Build_InvW _ A B). constructor; cbn; assumption.
  - destruct (clients st c); try exact (Build_InvW _ A B). apply W_put_back. constructor; cbn; assumption.
  - destruct (clients st c); try exact (Build_InvW _ A B). constructor; cbn; assumption.
  - destruct (clients st c); try exact (Build_InvW _ A B). constructor; cbn; assumption.
  - destruct (clients st c); try exact (Build_InvW _ A B). apply W_put_back. constructor; cbn; assumption.
  - constructor; cbn; assumption.
  - constructor; cbn; assumption.
  - apply mem_In in EN. pose proof (remove1_length s (idleq st) EN) as L.
    apply W_replenish. constructor; cbn; [intros N; apply A in N; unfold sid, cid in *; lia|exact B].
Qed.

Lemma InvW_init : InvW init.
Proof. constructor; cbn; congruence. Qed.

Lemma run_from_invW : forall cfg ops st, InvW st -> InvW (run_from cfg st ops).
Proof. induction ops as [|o r IH]; cbn; intros st H; [exact H|]. apply IH, step_invW, H. Qed.

Lemma run_invW : forall cfg ops, InvW (run cfg ops).
Proof. intros; apply run_from_invW, InvW_init. Qed.

(** * property lemmas *)

Lemma bound_lemma : forall cfg ops,
  let st := run cfg ops in
  num_conns st + pending st <= max_size cfg /\
  num_conns st = length (idleq st) + length (held st) /\
  length (idleq st) + length (held st) + pending st <= max_size cfg.
Proof.
  intros cfg ops st. pose proof (run_inv cfg ops) as H. fold st in H.
  pose proof (p_cap _ _ _ _ H). pose proof (p_cnt _ _ _ _ H). lia.
Qed.

Lemma exclusive_lemma : forall cfg ops s c1 c2,
  let st := run cfg ops in
  (In (s, c1) (held st) -> In (s, c2) (held st) -> c1 = c2) /\
  (forall s2, In (s, c1) (held st) -> In (s2, c1) (held st) -> s = s2) /\
  (In (s, c1) (held st) <-> exists ph, clients st c1 = Holding s ph) /\
  (In (s, c1) (held st) -> ~ In s (idleq st)) /\
  NoDup (idleq st).
Proof.
  intros cfg ops s c1 c2 st. pose proof (run_inv cfg ops) as H. fold st in H.
  destruct H as [H1 H2 H3 H4 H5 H6 H7 H8 H9]. unfold live in *.
  assert (NDf : NoDup (map fst (held st))) by (eapply NoDup_app_r; exact H3).
  repeat split.
  - intros A B. clear - A B NDf. induction (held st) as [|[s' c'] r IH]; cbn in *; [tauto|].
    inversion NDf as [|? ? N1 N2]; subst. destruct A as [A|A], B as [B|B].
    + congruence.
    + inversion A; subst. exfalso; apply N1. change s with (fst (s, c2)). apply in_map, B.
    + inversion B; subst. exfalso; apply N1. change s with (fst (s, c1)). apply in_map, A.
    + apply IH; assumption.
  - intros s2 A B. apply H5 in A. apply H5 in B. destruct A as [p A], B as [q B]. congruence.
  - apply H5.
  - apply H5.
  - intros A B. apply NoDup_app_swap in H3. clear - A B H3.
    induction (held st) as [|[s' c'] r IH]; cbn in *; [tauto|].
    inversion H3 as [|? ? N1 N2]; subst. destruct A as [A|A].
    + inversion A; subst. apply N1, in_or_app; right; exact B.
    + apply IH; assumption.
  - apply NoDup_app_swap in H3. eapply NoDup_app_r; exact H3.
Qed.

Lemma quiescent_lemma : forall cfg st,
  Inv cfg st -> (forall c, clients st c = NoServer \/ clients st c = Gone) ->
  held st = [] /\ waiters st = [] /\ woken st = [] /\ num_conns st = length (idleq st).
Proof.
  intros cfg st H Q.
  assert (HE : held st = []).
  { destruct (held st) as [|[s c] r] eqn:E; [reflexivity|]. exfalso.
    assert (I : In (s, c) (held st)) by (rewrite E; left; reflexivity).
    apply (p_own _ _ _ _ H) in I. destruct I as [ph X]. destruct (Q c); congruence. }
  assert (GE : getters st = []).
  { destruct (getters st) as [|c r] eqn:E; [reflexivity|]. exfalso.
    assert (I : In c (getters st)) by (rewrite E; left; reflexivity).
    apply (p_w1 _ _ _ _ H) in I. destruct (Q c); congruence. }
  unfold getters in GE. apply app_eq_nil in GE. destruct GE as [G1 G2].
  pose proof (p_cnt _ _ _ _ H) as C. rewrite HE in C. cbn in C. repeat split; try assumption. lia.
Qed.

(** ** capacity: when nobody is inside get(), a task that asks gets a connection as long as fewer
       than max_size are held *)

Lemma acquire_is_run : forall cfg st c, acquire cfg st c = run_from cfg st (acquire_ops cfg st c).
Proof.
  intros cfg st c. unfold acquire, acquire_ops.
  destruct (clients (step cfg st (Checkout c)) c); cbn; try reflexivity;
    destruct (mem c (woken (step cfg st (Checkout c)))); cbn; reflexivity.
Qed.

Ltac crunch := repeat (rewrite ?Nat.eqb_refl; cbn -[Nat.ltb Nat.leb approvals Nat.eqb]).
Ltac stepc := unfold step, enabled, try_get, put_idle, notify_one, replenish, in_flight; cbn -[Nat.ltb Nat.leb approvals Nat.eqb].

Lemma approvals_room : forall cfg st, num_conns st + pending st < max_size cfg -> approvals cfg st 1 = 1.
Proof. intros; unfold approvals; lia. Qed.

Lemma acquire_spec : forall cfg st c,
  Inv cfg st -> getters st = [] -> clients st c = NoServer -> length (held st) < max_size cfg ->
  let st' := acquire cfg st c in
  getters st' = [] /\ (exists s, clients st' c = Holding s Fresh) /\
  (forall d, d <> c -> clients st' d = clients st d) /\ length (held st') = S (length (held st)).
Proof.
  intros cfg st c H G HC LT.
  pose proof (p_cap _ _ _ _ H) as CAP. pose proof (p_cnt _ _ _ _ H) as CNT. clear H.
  destruct st as [num pend idle wait wok perm cl hd dd nx]. unfold getters in G. cbn in *.
  apply app_eq_nil in G. destruct G as [G1 G2]. subst wait wok.
  assert (UPD : forall v d, d <> c -> upd cl c v d = cl d).
  { intros v d N. unfold upd. apply Nat.eqb_neq in N. rewrite N. reflexivity. }
  destruct idle as [|s rest].
  - (* nothing idle *)
    cbn in CNT.
    assert (S1 : exists p1, step cfg (mkState num pend [] [] [] perm cl hd dd nx) (Checkout c) =
                   mkState num p1 [] (if perm then [] else [c]) (if perm then [c] else []) false (upd cl c Waiting) hd dd nx /\ 1 <= p1).
    { eexists. split.
      - stepc. rewrite HC. cbn -[Nat.ltb approvals]. destruct perm; reflexivity.
      - cbn -[approvals Nat.ltb]. destruct pend as [|pp]; [|lia]. cbn -[approvals]. rewrite approvals_room; cbn; lia. }
    destruct S1 as (p1 & E1 & P1).
    assert (S2 : (if mem c (woken (mkState num p1 [] (if perm then [] else [c]) (if perm then [c] else []) false (upd cl c Waiting) hd dd nx))
                  then step cfg (mkState num p1 [] (if perm then [] else [c]) (if perm then [c] else []) false (upd cl c Waiting) hd dd nx) (Retry c)
                  else (mkState num p1 [] (if perm then [] else [c]) (if perm then [c] else []) false (upd cl c Waiting) hd dd nx)) =
                 mkState num p1 [] [c] [] false (upd (upd cl c Waiting) c Waiting) hd dd nx \/
                 (if mem c (woken (mkState num p1 [] (if perm then [] else [c]) (if perm then [c] else []) false (upd cl c Waiting) hd dd nx))
                  then step cfg (mkState num p1 [] (if perm then [] else [c]) (if perm then [c] else []) false (upd cl c Waiting) hd dd nx) (Retry c)
                  else (mkState num p1 [] (if perm then [] else [c]) (if perm then [c] else []) false (upd cl c Waiting) hd dd nx)) =
                 mkState num p1 [] [c] [] false (upd cl c Waiting) hd dd nx).
    { destruct perm; cbn -[Nat.ltb approvals step]; rewrite ?Nat.eqb_refl.
      - left. stepc. rewrite ?Nat.eqb_refl. cbn -[Nat.ltb approvals]. rewrite ?Nat.eqb_refl. cbn -[Nat.ltb approvals].
        assert (E0 : (p1 <? 1) = false) by (apply Nat.ltb_ge; lia). rewrite E0. unfold approvals. cbn. rewrite Nat.add_0_r. reflexivity.
      - right. reflexivity. }
    assert (EA : acquire cfg (mkState num pend [] [] [] perm cl hd dd nx) c =
                 step cfg (step cfg (if mem c (woken (mkState num p1 [] (if perm then [] else [c]) (if perm then [c] else []) false (upd cl c Waiting) hd dd nx))
                  then step cfg (mkState num p1 [] (if perm then [] else [c]) (if perm then [c] else []) false (upd cl c Waiting) hd dd nx) (Retry c)
                  else (mkState num p1 [] (if perm then [] else [c]) (if perm then [c] else []) false (upd cl c Waiting) hd dd nx)) ConnEstablished) (Retry c)).
    { unfold acquire. rewrite E1. cbn [clients]. unfold upd at 1. rewrite Nat.eqb_refl. reflexivity. }
    cbv zeta. rewrite EA. cbn [clients held].
    assert (TAIL : forall cl', (forall d, d <> c -> cl' d = cl d) ->
       let st' := step cfg (step cfg (mkState num p1 [] [c] [] false cl' hd dd nx) ConnEstablished) (Retry c) in
       getters st' = [] /\ (exists s, clients st' c = Holding s Fresh) /\
       (forall d, d <> c -> clients st' d = cl d) /\ length (held st') = S (length hd)).
    { intros cl' CL'. destruct p1 as [|p1']; [lia|].
      assert (EI : match strat cfg with Fifo => [nx] | Lifo => [nx] end = [nx]) by (destruct (strat cfg); reflexivity).
      assert (EL : (0 <? S p1') = true) by reflexivity.
      cbv zeta. stepc. repeat (rewrite ?EI, ?EL, ?Nat.eqb_refl; cbn -[Nat.ltb approvals Nat.eqb]).
      unfold getters; cbn -[Nat.eqb]. repeat split.
      - eexists. unfold upd. rewrite Nat.eqb_refl. reflexivity.
      - intros d N. unfold upd. apply Nat.eqb_neq in N. rewrite N. apply CL'. apply Nat.eqb_neq, N. }
    destruct S2 as [E2|E2]; rewrite E2.
    + apply (TAIL (upd (upd cl c Waiting) c Waiting)). intros d N. unfold upd. apply Nat.eqb_neq in N. rewrite N. reflexivity.
    + apply (TAIL (upd cl c Waiting)). intros d N. unfold upd. apply Nat.eqb_neq in N. rewrite N. reflexivity.
  - (* an idle connection *)
    assert (E1 : step cfg (mkState num pend (s :: rest) [] [] perm cl hd dd nx) (Checkout c) =
                 replenish cfg (mkState num pend rest [] [] perm (upd cl c (Holding s Fresh)) ((s, c) :: hd) dd nx)).
    { unfold step, enabled, try_get. cbn -[replenish]. rewrite HC. reflexivity. }
    assert (EA : acquire cfg (mkState num pend (s :: rest) [] [] perm cl hd dd nx) c =
                 replenish cfg (mkState num pend rest [] [] perm (upd cl c (Holding s Fresh)) ((s, c) :: hd) dd nx)).
    { unfold acquire. rewrite E1. cbn [clients replenish set_pending]. unfold upd at 1. rewrite Nat.eqb_refl. reflexivity. }
    cbv zeta. rewrite EA. unfold getters; cbn. repeat split.
    + eexists. unfold upd. rewrite Nat.eqb_refl. reflexivity.
    + intros d N. rewrite UPD by exact N. reflexivity.
Qed.

Lemma acquire_inv : forall cfg st c, Inv cfg st -> Inv cfg (acquire cfg st c).
Proof. intros. rewrite acquire_is_run. apply run_from_inv; assumption. Qed.

Lemma acquire_all_spec : forall cfg cs st,
  Inv cfg st -> getters st = [] -> NoDup cs -> (forall c, In c cs -> clients st c = NoServer) ->
  length (held st) + length cs <= max_size cfg ->
  let st' := acquire_all cfg st cs in
  Inv cfg st' /\ getters st' = [] /\ (forall c, In c cs -> exists s, clients st' c = Holding s Fresh) /\
  (forall d, ~ In d cs -> clients st' d = clients st d) /\ length (held st') = length (held st) + length cs.
Proof.
  induction cs as [|c r IH]; intros st H G ND NS LE; cbn.
  - split; [exact H|]. split; [exact G|]. split; [intros c []|]. split; [reflexivity|]. unfold acquire_all; cbn. lia.
  - inversion ND as [|? ? N1 N2]; subst. cbn in LE.
    destruct (acquire_spec cfg st c H G (NS c (or_introl eq_refl))) as (A & B & C & D); [lia|].
    specialize (IH (acquire cfg st c) (acquire_inv cfg st c H) A N2).
    destruct IH as (I1 & I2 & I3 & I4 & I5).
    + intros d I. rewrite C; [apply NS; right; exact I|]. intros E; subst; contradiction.
    + rewrite D. lia.
    + unfold acquire_all in *. split; [exact I1|]. split; [exact I2|]. split; [|split].
      * intros d [E|I]; [subst d|apply I3, I]. rewrite I4 by exact N1. exact B.
      * intros d N. rewrite I4 by tauto. apply C. intros E; subst; apply N; left; reflexivity.
      * rewrite I5, D. lia.
Qed.

Lemma acquire_all_is_run : forall cfg cs st, exists ops,
  acquire_all cfg st cs = run_from cfg st ops /\
  (forall o, In o ops -> match o with Checkout _ | Retry _ | ConnEstablished => True | _ => False end).
Proof.
  induction cs as [|c r IH]; intros st; cbn.
  - exists []. split; [reflexivity|]. intros o [].
  - destruct (IH (acquire cfg st c)) as (ops & E & P).
    exists (acquire_ops cfg st c ++ ops). split.
    + unfold acquire_all in *. rewrite E, acquire_is_run. unfold run_from. rewrite fold_left_app. reflexivity.
    + intros o I. apply in_app_or in I. destruct I as [I|I]; [|apply P, I].
      unfold acquire_ops in I. destruct (clients (step cfg st (Checkout c)) c);
        try destruct (mem c (woken (step cfg st (Checkout c)))); cbn in I;
        repeat (destruct I as [I|I]; [subst o; exact Logic.I|]); try contradiction.
Qed.

Lemma capacity_lemma : forall cfg ops cs,
  let st := run cfg ops in
  (forall c, clients st c = NoServer \/ clients st c = Gone) ->
  NoDup cs -> (forall c, In c cs -> clients st c = NoServer) -> length cs = max_size cfg ->
  let st' := acquire_all cfg st cs in
  (forall c, In c cs -> exists s, clients st' c = Holding s Fresh) /\
  length (held st') = max_size cfg /\ idleq st' = [] /\ num_conns st' = max_size cfg /\
  exists ops', st' = run cfg (ops ++ ops') /\
     (forall o, In o ops' -> match o with Checkout _ | Retry _ | ConnEstablished => True | _ => False end).
Proof.
  intros cfg ops cs st Q ND NS LEN st'.
  pose proof (run_inv cfg ops) as H. fold st in H.
  destruct (quiescent_lemma cfg st H Q) as (HE & WE & KE & NE).
  assert (G : getters st = []) by (unfold getters; rewrite WE, KE; reflexivity).
  destruct (acquire_all_spec cfg cs st H G ND NS) as (I1 & I2 & I3 & I4 & I5); [rewrite HE; cbn; lia|].
  fold st' in I1, I2, I3, I4, I5. rewrite HE in I5. cbn in I5.
  pose proof (p_cap _ _ _ _ I1) as CAP. pose proof (p_cnt _ _ _ _ I1) as CNT.
  assert (IE : idleq st' = []) by (destruct (idleq st'); [reflexivity|cbn in CNT; lia]).
  assert (NM : num_conns st' = max_size cfg) by (rewrite IE in CNT; cbn in CNT; lia).
  split; [exact I3|]. split; [lia|]. split; [exact IE|]. split; [exact NM|].
  destruct (acquire_all_is_run cfg cs st) as (ops' & E & P). exists ops'. split; [|exact P].
  subst st'. rewrite E. unfold run, run_from, st. rewrite fold_left_app. reflexivity.
Qed.

(** ** waiters are served *)

(** a connection returned in good state goes to the waiter that registered first *)
Lemma served_on_release : forall cfg st c rest c' s ph o,
  waiters st = c :: rest -> woken st = [] -> idleq st = [] -> clients st c' = Holding s ph ->
  (o = TxnEndRelease c' false \/ exists how, o = ExitHolding c' how false) ->
  let st1 := step cfg st o in
  waiters st1 = rest /\ woken st1 = [c] /\ idleq st1 = [s] /\
  clients (step cfg st1 (Retry c)) c = Holding s Fresh /\ idleq (step cfg st1 (Retry c)) = [].
Proof.
  intros cfg st c rest c' s ph o W K I HC O.
  assert (EI : match strat cfg with Fifo => [s] | Lifo => [s] end = [s]) by (destruct (strat cfg); reflexivity).
  assert (E1 : step cfg st o = set_woken (set_waiters (set_idleq (set_client (set_held st (drop_guard c' (held st))) c'
                 (match o with TxnEndRelease _ _ => NoServer | _ => Gone end)) [s]) rest) [c]).
  { destruct O as [O|[how O]]; subst o; unfold step, enabled, release, put_back, put_idle, notify_one; rewrite HC; cbn; rewrite W, K, I; cbn; rewrite EI; reflexivity. }
  cbv zeta. rewrite E1. cbn -[step]. repeat split.
  - stepc. crunch. unfold upd. rewrite Nat.eqb_refl. reflexivity.
  - stepc. crunch. reflexivity.
Qed.

(** a connection that comes back broken is closed; the capacity it frees is used for a new
    connection, which goes to the first of the waiters registered when it arrives *)
Lemma served_on_close : forall cfg st c rest c' s ph o,
  Inv cfg st -> InvW st ->
  waiters st = c :: rest -> woken st = [] -> idleq st = [] -> clients st c' = Holding s ph ->
  (o = TxnEndRelease c' true \/ exists how, o = ExitHolding c' how true) ->
  let st1 := step cfg st o in
  let st2 := step cfg st1 (Retry c) in
  let st3 := step cfg st2 ConnEstablished in
  let w := hd c (rest ++ [c]) in
  num_conns st1 = num_conns st - 1 /\ woken st1 = [c] /\
  waiters st2 = rest ++ [c] /\ 0 < pending st2 /\
  idleq st3 = [next_sid st] /\ woken st3 = [w] /\ In w (c :: rest) /\
  clients (step cfg st3 (Retry w)) w = Holding (next_sid st) Fresh.
Proof.
  intros cfg st c rest c' s ph o H HW W K I HC O.
  pose proof (p_cap _ _ _ _ H) as CAP. pose proof (p_cnt _ _ _ _ H) as CNT.
  assert (HL : 1 <= length (held st)).
  { assert (X : In (s, c') (held st)) by (apply (p_own _ _ _ _ H); eauto). destruct (held st); [contradiction|cbn; lia]. }
  assert (PF : permit st = false) by (apply (w_perm _ HW); rewrite W; discriminate).
  destruct st as [num pend idle wait wok perm cl hl dd nx]. cbn in *. subst wait wok idle perm.
  set (p1 := pend + approvals cfg (mkState (num - 1) pend [] (c :: rest) [] false
                (upd cl c' (match o with TxnEndRelease _ _ => NoServer | _ => Gone end)) (drop_guard c' hl) (remove1 s dd) nx) (min_idle cfg - (0 + pend))).
  assert (E1 : step cfg (mkState num pend [] (c :: rest) [] false cl hl dd nx) o =
               mkState (num - 1) p1 [] rest [c] false (upd cl c' (match o with TxnEndRelease _ _ => NoServer | _ => Gone end)) (drop_guard c' hl) (remove1 s dd) nx).
  { destruct O as [O|[how O]]; subst o; unfold step, enabled, release, put_back, notify_one, replenish; cbn -[approvals]; rewrite HC; cbn -[approvals]; reflexivity. }
  cbv zeta. rewrite E1. clear E1.
  assert (E2 : exists p2, 1 <= p2 /\ forall cl' hd' dd', step cfg (mkState (num - 1) p1 [] rest [c] false cl' hd' dd' nx) (Retry c) =
               mkState (num - 1) p2 [] (rest ++ [c]) [] false (upd cl' c Waiting) hd' dd' nx).
  { exists (p1 + approvals cfg (mkState (num - 1) p1 [] rest [] false cl hl dd nx) (if p1 <? length rest + 0 + 1 then 1 else 0)). split.
    - destruct p1 as [|q]; [|lia]. assert (EL : (0 <? length rest + 0 + 1) = true) by (apply Nat.ltb_lt; lia).
      rewrite EL. rewrite approvals_room; cbn; lia.
    - intros cl' hd' dd'. stepc. crunch.
      unfold approvals; cbn -[Nat.ltb]. reflexivity. }
  destruct E2 as (p2 & P2 & E2). rewrite E2. clear E2. cbn [num_conns woken waiters pending].
  assert (EI : match strat cfg with Fifo => [nx] | Lifo => [nx] end = [nx]) by (destruct (strat cfg); reflexivity).
  destruct p2 as [|q2]; [lia|].
  assert (EW : exists w ws, rest ++ [c] = w :: ws /\ hd c (rest ++ [c]) = w /\ In w (c :: rest)).
  { destruct rest as [|r rs]; cbn; [exists c, []|exists r, (rs ++ [c])]; repeat split; tauto. }
  destruct EW as (w & ws & EW & EH & IW). rewrite EH, EW.
  assert (E3 : forall cl' hd' dd', step cfg (mkState (num - 1) (S q2) [] (w :: ws) [] false cl' hd' dd' nx) ConnEstablished =
                 mkState (num - 1 + 1) (q2 - 0) [nx] ws [w] false cl' hd' dd' (S nx)).
  { intros. stepc. rewrite EI. reflexivity. }
  rewrite E3. cbn [idleq woken]. repeat split; try lia; try assumption.
  stepc. crunch. unfold upd. rewrite Nat.eqb_refl. reflexivity.
Qed.

(** after a timeout the client task is back at the outer loop, holds nothing, is registered
    nowhere, the pool's accounting is untouched, and its next checkout is an ordinary one *)
Lemma timeout_lemma : forall cfg st c,
  Inv cfg st -> In c (waiters st) ->
  let st1 := step cfg st (WaitTimeout c false) in
  Inv cfg st1 /\ clients st1 c = NoServer /\ ~ In c (waiters st1) /\ ~ In c (woken st1) /\
  num_conns st1 = num_conns st /\ pending st1 = pending st /\ idleq st1 = idleq st /\ held st1 = held st /\
  enabled cfg st1 (Checkout c) = true.
Proof.
  intros cfg st c H I st1.
  assert (I1 : Inv cfg st1) by (apply step_inv, H).
  assert (E : st1 = set_client (set_waiters st (remove1 c (waiters st))) c NoServer).
  { subst st1. unfold step, enabled. apply mem_In in I. rewrite I. reflexivity. }
  assert (C : clients st1 c = NoServer) by (rewrite E; cbn; unfold upd; rewrite Nat.eqb_refl; reflexivity).
  assert (NG : ~ In c (getters st1)) by (intros X; apply (p_w1 _ _ _ _ I1) in X; congruence).
  split; [exact I1|]. split; [exact C|].
  split; [intros X; apply NG; unfold getters; apply in_or_app; left; exact X|].
  split; [intros X; apply NG; unfold getters; apply in_or_app; right; exact X|].
  split; [rewrite E; reflexivity|]. split; [rewrite E; reflexivity|]. split; [rewrite E; reflexivity|].
  split; [rewrite E; reflexivity|]. unfold enabled. rewrite C. reflexivity.
Qed.

Lemma checkout_idle_grants : forall cfg st c s rest,
  clients st c = NoServer -> idleq st = s :: rest ->
  clients (step cfg st (Checkout c)) c = Holding s Fresh /\ idleq (step cfg st (Checkout c)) = rest.
Proof.
  intros cfg st c s rest HC I. unfold step, enabled, try_get. rewrite HC, I. cbn. unfold upd. rewrite Nat.eqb_refl. split; reflexivity.
Qed.

(** ** the only way to sit idle on a connection in transaction mode is the F14 class *)

Definition no_idle_hold (st : state) : Prop := forall c s, clients st c <> Holding s IdleHeld.

Lemma clients_put_idle : forall cfg st s, clients (put_idle cfg st s) = clients st.
Proof.
  intros. unfold put_idle.
  destruct (notify_fields (set_idleq st match strat cfg with Fifo => idleq st ++ [s] | Lifo => s :: idleq st end)) as (_ & _ & _ & _ & E & _). rewrite E. reflexivity.
Qed.

Lemma clients_put_back : forall cfg st s b, clients (put_back cfg st s b) = clients st.
Proof.
  intros. unfold put_back, put_idle. destruct b.
  - destruct (notify_fields (replenish cfg (set_dead (set_num st (num_conns st - 1)) (remove1 s (dead st))))) as (_ & _ & _ & _ & E & _). rewrite E. reflexivity.
  - destruct (notify_fields (set_idleq st match strat cfg with Fifo => idleq st ++ [s] | Lifo => s :: idleq st end)) as (_ & _ & _ & _ & E & _). rewrite E. reflexivity.
Qed.

Lemma nih_set : forall st c v, no_idle_hold st -> (forall s, v <> Holding s IdleHeld) -> forall d s, upd (clients st) c v d <> Holding s IdleHeld.
Proof. intros st c v H V d s. unfold upd. destruct (Nat.eqb d c); [apply V|apply H]. Qed.

Lemma nih_try_get : forall cfg st c n, no_idle_hold st -> no_idle_hold (try_get cfg st c n).
Proof.
  intros cfg st c n H. unfold try_get. destruct (idleq st) as [|s rest].
  - destruct (permit _); cbn; intros d s; apply nih_set; [exact H|discriminate|exact H|discriminate].
  - cbn. intros d s'. apply nih_set; [exact H|discriminate].
Qed.

Lemma step_no_idle_hold : forall cfg st o,
  session_mode cfg = false -> f14_mutant cfg = false -> no_idle_hold st -> no_idle_hold (step cfg st o).
Proof.
  intros cfg st o SM NI H. unfold step. destruct (enabled cfg st o) eqn:EN; cbn [negb]; [|exact H].
  destruct o as [c|c| | |c fatal|c|c b|c|c|c how b|c|s|s]; cbn in EN.
  - apply nih_try_get, H.
  - apply nih_try_get. exact H.
  - intros d s'. rewrite clients_put_idle. cbn. apply H.
  - exact H.
  - cbn. intros d s. apply nih_set; [exact H|destruct fatal; discriminate].
  - destruct (clients st c); try exact H. cbn. intros d s'. apply nih_set; [exact H|discriminate].
  - destruct (clients st c); try exact H. unfold release. intros d s'. rewrite clients_put_back. cbn. apply nih_set; [exact H|discriminate].
  - destruct (clients st c); try discriminate. rewrite SM in EN. discriminate.
  - (* InterceptHold: not enabled in the code that exists *)
    destruct (clients st c) as [| |s ph|]; try discriminate. destruct ph; congruence.
  - destruct (clients st c); try exact H. unfold release. intros d s'. rewrite clients_put_back. cbn. apply nih_set; [exact H|discriminate].
  - cbn. intros d s. apply nih_set; [exact H|discriminate].
  - exact H.
  - exact H.
Qed.

Lemma no_idle_hold_lemma : forall cfg ops,
  session_mode cfg = false -> f14_mutant cfg = false -> no_idle_hold (run cfg ops).
Proof.
  intros cfg ops SM NM. unfold run. assert (H0 : no_idle_hold init) by (intros c s; discriminate).
  revert H0. generalize init. induction ops as [|o r IH]; intros st H; cbn; [exact H|].
  apply IH. apply step_no_idle_hold; assumption.
Qed.

(** the F14 witness, for the MUTANT (the code before a7d476c): pool of one connection,
    transaction mode; client 0 sends an intercepted Parse/Bind/Execute/Sync, gets its fake reply
    and sits idle HOLDING connection 0; client 1's checkout waits and times out although nobody
    is in a transaction.  In the model of the code that exists the same ops leave client 0 at
    [Holding 0 Fresh] only because InterceptHold is not enabled there — the real client never
    checks out for such a batch at all. *)
Definition f14_cfg : config := mkConfig 1 0 Lifo false true.
Definition f14_ops : list op :=
  [Checkout 0; ConnEstablished; Retry 0; InterceptHold 0; Checkout 1; WaitTimeout 1 false].

Lemma no_idle_hold_refuted_lemma :
  session_mode f14_cfg = false /\ f14_mutant f14_cfg = true /\
  clients (run f14_cfg f14_ops) 0 = Holding 0 IdleHeld /\
  clients (run f14_cfg f14_ops) 1 = NoServer /\ idleq (run f14_cfg f14_ops) = [] /\
  ~ no_idle_hold (run f14_cfg f14_ops).
Proof.
  repeat split; try (vm_compute; reflexivity).
  intros H. apply (H 0 0). vm_compute. reflexivity.
Qed.
