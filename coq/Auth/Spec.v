(** C09 — specification side, written independently of the model's code paths.

    PostgreSQL's MD5 password authentication (src/common/md5_common.c [pg_md5_encrypt],
    src/backend/libpq/crypt.c [md5_crypt_verify], src/interfaces/libpq/fe-auth.c
    [pg_password_sendauth]):

      shadow  = "md5" || hex(MD5(password || username))            -- pg_authid.rolpassword
      answer  = "md5" || hex(MD5(shadow[3..] || salt)) || NUL      -- PasswordMessage body

    [md5] is whatever digest function the environment provides; nothing below depends on
    its definition. *)
From Coq Require Import ZArith NArith List Bool Lia.
From PV Require Import Auth.Model.
Import ListNotations.
Open Scope Z_scope.

Section Spec.
Variable md5 : bytes -> bytes.

(** lower-case hex digit of a nibble, arithmetically ('0' = 48, 'a' = 97) *)
Definition pg_hexdigit (n : N) : byte := let d := (n mod 16)%N in if (d <? 10)%N then (48 + d)%N else (87 + d)%N.
Definition pg_hex (s : bytes) : bytes := flat_map (fun b => [pg_hexdigit (b / 16); pg_hexdigit b]) s.

(** what pg_shadow.passwd holds after the "md5" prefix *)
Definition pg_shadow_hash (name password : bytes) : bytes := pg_hex (md5 (password ++ name)).
(** the answer to a salt, from the stored hash *)
Definition pg_md5_of_shadow (shadow salt : bytes) : bytes :=
  [109; 100; 53]%N ++ pg_hex (md5 (shadow ++ salt)) ++ [0%N].
(** the answer to a salt, from the cleartext password *)
Definition pg_md5 (name password salt : bytes) : bytes :=
  pg_md5_of_shadow (pg_shadow_hash name password) salt.

(** A secret pgcat may hold for a user: the cleartext password from its configuration, or the
    hash an auth_query returned. *)
Inductive secret := Clear (password : bytes) | Shadow (hash : bytes).

Definition expected (name : bytes) (s : secret) (salt : bytes) : bytes :=
  match s with
  | Clear pw => pg_md5 name pw salt
  | Shadow h => pg_md5_of_shadow h salt
  end.

End Spec.

(** PasswordMessage: Byte1('p') Int32(len) body *)
Definition be32 (z : Z) : bytes :=
  let u := z mod 4294967296 in
  [Z.to_N (u / 16777216); Z.to_N ((u / 65536) mod 256); Z.to_N ((u / 256) mod 256); Z.to_N (u mod 256)].
Definition password_frame (body : bytes) : bytes := [112%N] ++ be32 (blen body + 4) ++ body.

(** the (database, user) pair is configured: some pool of that name has a user entry of that name *)
Definition configured (c : cfg) (db name : bytes) : Prop :=
  exists p u, In p (pools c) /\ p_name p = db /\ In u (p_users p) /\ u_name u = name.

(** the entry pgcat serves for the pair: the (unique, TOML tables cannot repeat; first) pool
    table of that name and, of several user entries with one name, the last one *)
Definition served (c : cfg) (db name : bytes) (p : pool) (u : user) : Prop :=
  exists ps1 ps2 us1 us2,
    pools c = ps1 ++ p :: ps2 /\ p_name p = db /\ (forall q, In q ps1 -> p_name q <> db) /\
    p_users p = us1 ++ u :: us2 /\ u_name u = name /\ (forall v, In v us2 -> u_name v <> name).

Definition trust (c : cfg) (db name : bytes) : Prop :=
  exists p u, served c db name p u /\ u_auth u = Trust.

(** The secrets that are valid for the pair during one startup: the configured cleartext
    password; if there is none, the hash cached in the pool; and, when the pool has an
    auth_query, every hash a fetch of this startup returns (the server's own password table
    is authoritative: client.rs:676-716 "password changed in server"). *)
Definition secret_of (c : cfg) (e : auth_env) (db name : bytes) (s : secret) : Prop :=
  exists p u, served c db name p u /\
    ((exists pw, u_password u = Some pw /\ s = Clear pw) \/
     (exists h, u_password u = None /\ cached e = Some h /\ s = Shadow h) \/
     (exists h, p_aq p = true /\ In (Some h) (fetches e) /\ s = Shadow h)).

Definition is_admitted (o : outcome) : bool :=
  match o with PoolAdmitted _ _ | AdminAdmitted => true | _ => false end.

(** replies that may precede the decision *)
Definition pre_auth_reply (r : reply) : bool :=
  match r with RTlsNo | RTlsYes | RMd5Request _ => true | _ => false end.
(** replies of a refused startup *)
Definition refusal_reply (r : reply) : bool :=
  match r with RTlsNo | RTlsYes | RMd5Request _ | RError _ | RReadyForQuery => true | _ => false end.

Definition byte_ok (b : byte) : Prop := (b < 256)%N.
