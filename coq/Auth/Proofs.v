(** C09 — lemmas about coq/Auth/Model.v against coq/Auth/Spec.v.  Everything is proved for an
    arbitrary digest function [md5] and both build modes [chk]. *)
From Coq Require Import ZArith NArith List Bool Lia.
From PV Require Import Auth.Model Auth.Spec.
Import ListNotations.
Open Scope Z_scope.

(** ** bytes *)

Lemma bytes_eqb_eq : forall a b, bytes_eqb a b = true <-> a = b.
Proof.
  induction a as [|x a IH]; destruct b as [|y b]; cbn [bytes_eqb]; split; intro H; try reflexivity; try discriminate.
  - apply andb_prop in H. destruct H as [H1 H2]. apply N.eqb_eq in H1. apply IH in H2. congruence.
  - inversion H; subst. rewrite N.eqb_refl. cbn. apply IH. reflexivity.
Qed.

Lemma bytes_eqb_refl : forall a, bytes_eqb a a = true.
Proof. intro a. apply bytes_eqb_eq. reflexivity. Qed.

Lemma bytes_eqb_neq : forall a b, bytes_eqb a b = false <-> a <> b.
Proof.
  intros a b. split.
  - intros H E. apply bytes_eqb_eq in E. congruence.
  - intro H. destruct (bytes_eqb a b) eqn:E; [apply bytes_eqb_eq in E; contradiction|reflexivity].
Qed.

(** ** hex: the model's table lookup is PostgreSQL's arithmetic digit *)

Lemma hex_digit_eq : forall n, hex_digit n = pg_hexdigit n.
Proof.
  intro n. unfold hex_digit, pg_hexdigit.
  pose proof (N.mod_upper_bound n 16 ltac:(discriminate)) as Hlt.
  remember (n mod 16)%N as d eqn:Hd. clear Hd.
  destruct d as [|p]; [reflexivity|].
  do 5 (destruct p as [p|p|]; try reflexivity; try (exfalso; lia)).
Qed.

Section WithMd5.
Variable md5 : bytes -> bytes.
Variable chk : bool.

Lemma hex_eq : forall s, hex s = pg_hex s.
Proof.
  induction s as [|b r IH]; [reflexivity|].
  cbn [hex pg_hex flat_map app]. rewrite !hex_digit_eq, IH. reflexivity.
Qed.

Lemma second_pass_eq : forall h salt, md5_hash_second_pass md5 h salt = pg_md5_of_shadow md5 h salt.
Proof. intros. unfold md5_hash_second_pass, pg_md5_of_shadow, s_md5. rewrite hex_eq. reflexivity. Qed.

Lemma hash_password_eq : forall name pw salt, md5_hash_password md5 name pw salt = pg_md5 md5 name pw salt.
Proof.
  intros. unfold md5_hash_password, pg_md5, pg_shadow_hash. rewrite second_pass_eq, hex_eq. reflexivity.
Qed.

End WithMd5.

(** ** big-endian length field *)

Lemma be32_i32_of : forall a b c d k,
  (a < 256)%N -> (b < 256)%N -> (c < 256)%N -> (d < 256)%N ->
  be32 (i32_of a b c d + k * 4294967296) = [a; b; c; d].
Proof.
  intros a b c d k Ha Hb Hc Hd. unfold be32, i32_of.
  set (za := Z.of_N a). set (zb := Z.of_N b). set (zc := Z.of_N c). set (zd := Z.of_N d).
  assert (0 <= za < 256) by (unfold za; lia). assert (0 <= zb < 256) by (unfold zb; lia).
  assert (0 <= zc < 256) by (unfold zc; lia). assert (0 <= zd < 256) by (unfold zd; lia).
  set (u := ((za * 256 + zb) * 256 + zc) * 256 + zd).
  assert (Hu : 0 <= u < 4294967296) by (unfold u; lia).
  assert (Hm : ((if u <? 2147483648 then u else u - 4294967296) + k * 4294967296) mod 4294967296 = u).
  { destruct (u <? 2147483648).
    - rewrite Z_mod_plus_full. apply Z.mod_small. lia.
    - replace (u - 4294967296 + k * 4294967296) with (u + (k - 1) * 4294967296) by ring.
      rewrite Z_mod_plus_full. apply Z.mod_small. lia. }
  cbv zeta. rewrite Hm.
  assert (E1 : u / 16777216 = za) by (unfold u; symmetry; apply Z.div_unique with (r := (zb * 256 + zc) * 256 + zd); lia).
  assert (E2 : (u / 65536) mod 256 = zb).
  { assert (u / 65536 = za * 256 + zb) by (unfold u; symmetry; apply Z.div_unique with (r := zc * 256 + zd); lia).
    rewrite H3. rewrite Z.add_comm, Z_mod_plus_full. apply Z.mod_small. lia. }
  assert (E3 : (u / 256) mod 256 = zc).
  { assert (u / 256 = (za * 256 + zb) * 256 + zc) by (unfold u; symmetry; apply Z.div_unique with (r := zd); lia).
    rewrite H3. rewrite Z.add_comm, Z_mod_plus_full. apply Z.mod_small. lia. }
  assert (E4 : u mod 256 = zd).
  { unfold u. rewrite Z.add_comm, Z_mod_plus_full. apply Z.mod_small. lia. }
  rewrite E1, E2, E3, E4. unfold za, zb, zc, zd. rewrite !N2Z.id. reflexivity.
Qed.

Lemma i32_of_be32 : forall z, -2147483648 <= z < 2147483648 ->
  match be32 z with [a; b; c; d] => i32_of a b c d = z | _ => False end.
Proof.
  intros z Hz. unfold be32. cbv zeta.
  set (u := z mod 4294967296).
  assert (Hu : 0 <= u < 4294967296) by (apply Z.mod_pos_bound; lia).
  unfold i32_of.
  rewrite !Z2N.id by (try apply Z.div_pos; try apply Z.mod_pos_bound; lia).
  assert (E : ((u / 16777216 * 256 + (u / 65536) mod 256) * 256 + (u / 256) mod 256) * 256 + u mod 256 = u).
  { clear - Hu. Ltac Zify.zify_post_hook ::= Z.div_mod_to_equations. lia. }
  rewrite E.
  destruct (u <? 2147483648) eqn:Hlt.
  - apply Z.ltb_lt in Hlt. unfold u in *.
    destruct (Z_lt_dec z 0).
    + rewrite <- (Z_mod_plus_full z 1 4294967296) in Hlt. rewrite Z.mod_small in Hlt by lia. lia.
    + apply Z.mod_small. lia.
  - apply Z.ltb_ge in Hlt. unfold u in *.
    destruct (Z_lt_dec z 0).
    + rewrite <- (Z_mod_plus_full z 1 4294967296). rewrite Z.mod_small by lia. lia.
    + rewrite Z.mod_small in Hlt by lia. lia.
Qed.

Lemma be32_length : forall z, length (be32 z) = 4%nat.
Proof. reflexivity. Qed.

(** ** read_exact *)

Lemma read_exact_app : forall body tail, read_exact (blen body) (body ++ tail) = Some (body, tail).
Proof.
  intros. unfold read_exact, blen. rewrite app_length, Nat2Z.inj_add.
  destruct (Z.of_nat (length body) <=? Z.of_nat (length body) + Z.of_nat (length tail)) eqn:E; [|apply Z.leb_gt in E; lia].
  rewrite Nat2Z.id, firstn_app, Nat.sub_diag, firstn_all, skipn_app, Nat.sub_diag, skipn_all. cbn. rewrite app_nil_r. reflexivity.
Qed.

Lemma read_exact_spec : forall n s body rest, 0 <= n ->
  read_exact n s = Some (body, rest) -> s = body ++ rest /\ blen body = n.
Proof.
  intros n s body rest Hn H. unfold read_exact in H.
  destruct (n <=? blen s) eqn:E; [|discriminate]. apply Z.leb_le in E. inversion H; subst; clear H.
  split; [symmetry; apply firstn_skipn|].
  unfold blen in *. rewrite firstn_length_le by lia. lia.
Qed.

(** ** the password message reader *)

Section Reader.
Variable chk : bool.

Lemma read_password_frame : forall body tail, blen body + 4 < 2147483648 ->
  read_password chk (password_frame body ++ tail) = PwOk body tail.
Proof.
  intros body tail Hl. unfold password_frame.
  assert (Hr : -2147483648 <= blen body + 4 < 2147483648) by (unfold blen in *; lia).
  pose proof (i32_of_be32 _ Hr) as Hi.
  destruct (be32 (blen body + 4)) as [|a [|b [|c [|d [|? ?]]]]] eqn:Eb; try contradiction.
  cbn [app read_password N.eqb Pos.eqb negb]. rewrite Hi.
  replace (blen body + 4 - 4) with (blen body) by ring.
  assert (H0 : 0 <= blen body) by (unfold blen; lia).
  destruct (blen body <? -2147483648) eqn:E1; [apply Z.ltb_lt in E1; lia|].
  destruct (blen body <? 0) eqn:E2; [apply Z.ltb_lt in E2; lia|].
  rewrite read_exact_app. reflexivity.
Qed.

Lemma read_password_ok_inv : forall s body rest,
  read_password chk s = PwOk body rest -> Forall byte_ok (firstn 5 s) -> s = password_frame body ++ rest.
Proof.
  intros s body rest H Hb. unfold read_password in H.
  destruct s as [|code r]; [discriminate|].
  destruct (code =? 112)%N eqn:Ec; cbn [negb] in H; [|discriminate]. apply N.eqb_eq in Ec. subst code.
  destruct r as [|a [|b [|c [|d r2]]]]; try discriminate.
  cbn [firstn] in Hb.
  inversion Hb as [|? ? _ Hb1]; subst. inversion Hb1 as [|? ? Ha Hb2]; subst. inversion Hb2 as [|? ? Hbb Hb3]; subst.
  inversion Hb3 as [|? ? Hc Hb4]; subst. inversion Hb4 as [|? ? Hd _]; subst.
  unfold byte_ok in *. unfold password_frame.
  destruct (i32_of a b c d - 4 <? -2147483648) eqn:E1.
  - destruct chk; [discriminate|].
    destruct (read_exact (i32_of a b c d - 4 + 4294967296) r2) as [[bd rs]|] eqn:Er; [|discriminate].
    inversion H; subst bd rs; clear H.
    apply Z.ltb_lt in E1.
    assert (Hlo : -2147483648 <= i32_of a b c d).
    { unfold i32_of. cbv zeta. destruct (_ <? 2147483648) eqn:E; [apply Z.ltb_lt in E|apply Z.ltb_ge in E]; lia. }
    apply read_exact_spec in Er; [|lia]. destruct Er as [Er El]. subst r2.
    replace (blen body + 4) with (i32_of a b c d + 1 * 4294967296) by lia.
    rewrite be32_i32_of by assumption. reflexivity.
  - destruct (i32_of a b c d - 4 <? 0) eqn:E2; [discriminate|].
    destruct (read_exact (i32_of a b c d - 4) r2) as [[bd rs]|] eqn:Er; [|discriminate].
    inversion H; subst bd rs; clear H.
    apply Z.ltb_ge in E2.
    apply read_exact_spec in Er; [|lia]. destruct Er as [Er El]. subst r2.
    replace (blen body + 4) with (i32_of a b c d + 0 * 4294967296) by lia.
    rewrite be32_i32_of by assumption. reflexivity.
Qed.

Lemma read_password_not_p : forall code r, code <> 112%N -> read_password chk (code :: r) = PwNotP code.
Proof.
  intros code r H. cbn [read_password]. destruct (code =? 112)%N eqn:E; [apply N.eqb_eq in E; contradiction|reflexivity].
Qed.

Lemma read_password_eof : read_password chk [] = PwSocket 0.
Proof. reflexivity. Qed.

(** a declared length below 4: the task panics — except in a build without overflow checks for the four
    values i32::MIN .. i32::MIN+3, where the subtraction wraps and pgcat waits for 2 GiB *)
Lemma read_password_short_len : forall a b c d r, i32_of a b c d < 4 ->
  (chk = true \/ -2147483644 <= i32_of a b c d) ->
  read_password chk (112%N :: a :: b :: c :: d :: r) = PwPanic.
Proof.
  intros a b c d r Hl Hc. cbn [read_password N.eqb Pos.eqb negb].
  destruct (i32_of a b c d - 4 <? -2147483648) eqn:E1.
  - apply Z.ltb_lt in E1. destruct Hc as [Hc|Hc]; [rewrite Hc; reflexivity|lia].
  - destruct (i32_of a b c d - 4 <? 0) eqn:E2; [reflexivity|apply Z.ltb_ge in E2; lia].
Qed.

Lemma read_password_wrapped : forall a b c d r, i32_of a b c d < 4 ->
  match read_password chk (112%N :: a :: b :: c :: d :: r) with
  | PwPanic => True
  | PwSocket st => st = 2%nat
  | PwOk body _ => 2147483644 <= blen body
  | PwNotP _ => False
  end.
Proof.
  intros a b c d r Hl. cbn [read_password N.eqb Pos.eqb negb].
  assert (Hlo : -2147483648 <= i32_of a b c d).
  { unfold i32_of. cbv zeta. destruct (_ <? 2147483648) eqn:E; [apply Z.ltb_lt in E|apply Z.ltb_ge in E]; lia. }
  destruct (i32_of a b c d - 4 <? -2147483648) eqn:E1.
  - destruct chk; [exact I|].
    destruct (read_exact _ r) as [[bd rs]|] eqn:Er; [|reflexivity].
    apply read_exact_spec in Er; [|lia]. lia.
  - destruct (i32_of a b c d - 4 <? 0) eqn:E2; [exact I|apply Z.ltb_ge in E2; lia].
Qed.

End Reader.

(** ** pool lookup = the served entry *)

Lemma find_pool_spec : forall db ps p, find_pool db ps = Some p ->
  exists ps1 ps2, ps = ps1 ++ p :: ps2 /\ p_name p = db /\ (forall q, In q ps1 -> p_name q <> db).
Proof.
  induction ps as [|q r IH]; intros p H; [discriminate|]. cbn [find_pool] in H.
  destruct (bytes_eqb db (p_name q)) eqn:E.
  - inversion H; subst. apply bytes_eqb_eq in E. exists [], r. repeat split; auto; try (intros ? []).
  - apply IH in H. destruct H as (ps1 & ps2 & H1 & H2 & H3). exists (q :: ps1), ps2. subst r. repeat split; auto.
    intros q' [Hq|Hq]; [subst q'; apply bytes_eqb_neq in E; congruence|auto].
Qed.

Lemma find_user_spec : forall name us u, find_user name us = Some u ->
  exists us1 us2, us = us1 ++ u :: us2 /\ u_name u = name /\ (forall v, In v us2 -> u_name v <> name).
Proof.
  induction us as [|v r IH]; intros u H; [discriminate|]. cbn [find_user] in H.
  destruct (find_user name r) as [x|] eqn:Er.
  - inversion H; subst x. destruct (IH u eq_refl) as (us1 & us2 & H1 & H2 & H3).
    exists (v :: us1), us2. subst r. repeat split; auto.
  - destruct (bytes_eqb name (u_name v)) eqn:E; [|discriminate]. inversion H; subst v.
    apply bytes_eqb_eq in E. exists [], r. repeat split; auto.
    intros w Hw Hn.
    assert (Hf : forall l, In w l -> find_user name l <> None).
    { induction l as [|z l IHl]; intros Hin; [destruct Hin|]. cbn [find_user].
      destruct Hin as [Hin|Hin].
      - subst z. destruct (find_user name l); [discriminate|]. rewrite <- Hn, bytes_eqb_refl. discriminate.
      - specialize (IHl Hin). destruct (find_user name l); [discriminate|contradiction]. }
    exact (Hf r Hw Er).
Qed.

Lemma find_user_none : forall name us, find_user name us = None -> forall v, In v us -> u_name v <> name.
Proof.
  induction us as [|z l IH]; intros H v Hin; [destruct Hin|]. cbn [find_user] in H.
  destruct (find_user name l) eqn:E; [discriminate|].
  destruct (bytes_eqb name (u_name z)) eqn:Eb; [discriminate|].
  destruct Hin as [Hin|Hin]; [subst z; apply bytes_eqb_neq in Eb; congruence|auto].
Qed.

Lemma find_pool_none : forall db ps, find_pool db ps = None -> forall q, In q ps -> p_name q <> db.
Proof.
  induction ps as [|z l IH]; intros H q Hin; [destruct Hin|]. cbn [find_pool] in H.
  destruct (bytes_eqb db (p_name z)) eqn:Eb; [discriminate|].
  destruct Hin as [Hin|Hin]; [subst z; apply bytes_eqb_neq in Eb; congruence|auto].
Qed.

Lemma get_pool_served : forall c db name p u, get_pool c db name = Some (p, u) -> served c db name p u.
Proof.
  intros c db name p u H. unfold get_pool in H.
  destruct (find_pool db (pools c)) as [p'|] eqn:Ep; [|discriminate].
  destruct (find_user name (p_users p')) as [u'|] eqn:Eu; [|discriminate].
  inversion H; subst p' u'.
  destruct (find_pool_spec _ _ _ Ep) as (ps1 & ps2 & A1 & A2 & A3).
  destruct (find_user_spec _ _ _ Eu) as (us1 & us2 & B1 & B2 & B3).
  exists ps1, ps2, us1, us2. repeat split; assumption.
Qed.

(** the converse: the served entry is what the lookup returns *)
Lemma find_pool_complete : forall db ps1 p ps2, p_name p = db -> (forall q, In q ps1 -> p_name q <> db) ->
  find_pool db (ps1 ++ p :: ps2) = Some p.
Proof.
  induction ps1 as [|q r IH]; intros p ps2 Hp Hn; cbn [app find_pool].
  - rewrite <- Hp, bytes_eqb_refl. reflexivity.
  - destruct (bytes_eqb db (p_name q)) eqn:E.
    + apply bytes_eqb_eq in E. exfalso. apply (Hn q); [left; reflexivity|congruence].
    + apply IH; auto. intros q' Hq. apply Hn. right. exact Hq.
Qed.

Lemma find_user_complete : forall name us1 u us2, u_name u = name -> (forall v, In v us2 -> u_name v <> name) ->
  find_user name (us1 ++ u :: us2) = Some u.
Proof.
  intros name us1 u us2 Hu Hn.
  assert (Htail : find_user name us2 = None).
  { clear - Hn. induction us2 as [|z l IH]; [reflexivity|]. cbn [find_user].
    rewrite IH by (intros v Hv; apply Hn; right; exact Hv).
    destruct (bytes_eqb name (u_name z)) eqn:E; [|reflexivity].
    apply bytes_eqb_eq in E. exfalso. apply (Hn z); [left; reflexivity|congruence]. }
  induction us1 as [|q r IH]; cbn [app find_user].
  - rewrite Htail, <- Hu, bytes_eqb_refl. reflexivity.
  - rewrite IH. reflexivity.
Qed.

Lemma served_get_pool : forall c db name p u, served c db name p u -> get_pool c db name = Some (p, u).
Proof.
  intros c db name p u (ps1 & ps2 & us1 & us2 & A1 & A2 & A3 & B1 & B2 & B3).
  unfold get_pool. rewrite A1, (find_pool_complete db ps1 p ps2 A2 A3), B1, (find_user_complete name us1 u us2 B2 B3).
  reflexivity.
Qed.

Lemma served_configured : forall c db name p u, served c db name p u -> configured c db name.
Proof.
  intros c db name p u (ps1 & ps2 & us1 & us2 & A1 & A2 & A3 & B1 & B2 & B3).
  exists p, u. rewrite A1, B1. repeat split; auto; apply in_or_app; right; left; reflexivity.
Qed.

Lemma not_configured_no_pool : forall c db name, ~ configured c db name -> get_pool c db name = None.
Proof.
  intros c db name H. destruct (get_pool c db name) as [[p u]|] eqn:E; [|reflexivity].
  exfalso. apply H. eapply served_configured. apply get_pool_served. exact E.
Qed.

Lemma served_unique : forall c db name p u p' u', served c db name p u -> served c db name p' u' -> p = p' /\ u = u'.
Proof.
  intros c db name p u p' u' H H'. apply served_get_pool in H. apply served_get_pool in H'.
  rewrite H in H'. inversion H'. auto.
Qed.

(** ** Client::startup *)

Section Main.
Variable md5 : bytes -> bytes.
Variable chk : bool.

(** the answer the client gave is the MD5 answer for a secret pgcat holds for this user *)
Definition valid_body (e : auth_env) (p : pool) (u : user) (name salt body : bytes) : Prop :=
  (exists pw, u_password u = Some pw /\ body = md5_hash_password md5 name pw salt) \/
  (exists h, u_password u = None /\ cached e = Some h /\ body = md5_hash_second_pass md5 h salt) \/
  (exists h, p_aq p = true /\ In (Some h) (fetches e) /\ body = md5_hash_second_pass md5 h salt).

(** pooler-originated server contacts of one startup *)
Definition evs_ok (p : pool) (db name : bytes) (ev : list event) : Prop :=
  Forall (fun x => x = EvAuthQuery db name) ev /\ (ev <> [] -> p_aq p = true).

Lemma finish_user_cases : forall e db name pre ev c,
  let r := finish_user e db name pre ev c in
  cache' r = c /\
  (events r = ev \/ events r = ev ++ [EvValidate db name]) /\
  ((out r = PoolAdmitted db name /\ replies r = pre ++ auth_tail) \/
   (out r = Rejected WPoolDown /\ replies r = pre ++ [RError (EPoolDown db name); RReadyForQuery] /\
    validated e = false /\ validate_ok e = false)).
Proof.
  intros. subst r. unfold finish_user.
  destruct (validated e); [cbn; auto|]. destruct (validate_ok e); cbn; auto 10.
Qed.

Lemma evs_ok_nil : forall p db name, evs_ok p db name [].
Proof. intros. split; [constructor|intro H; contradiction]. Qed.

Lemma evs_ok_one : forall p db name, p_aq p = true -> evs_ok p db name [EvAuthQuery db name].
Proof. intros. split; [repeat constructor|auto]. Qed.

Lemma evs_ok_two : forall p db name, p_aq p = true -> evs_ok p db name ([EvAuthQuery db name] ++ [EvAuthQuery db name]).
Proof. intros. split; [repeat constructor|auto]. Qed.

Ltac refused w lem :=
  right; left; exists w; cbn; repeat split; try discriminate; auto 8 using lem;
  try (intros; discriminate);
  try (match goal with H : PwOk _ _ = PwOk _ _ |- _ => inversion H; subst end; auto 8).

(** every way [user_md5] can end *)
Lemma user_md5_cases : forall c e p u db name salt rest,
  let r := user_md5 md5 chk c e p u db name salt rest in
  (exists body tail ev c', read_password chk rest = PwOk body tail /\ valid_body e p u name salt body /\
      evs_ok p db name ev /\ r = finish_user e db name [RMd5Request salt] ev c') \/
  (exists w, out r = Rejected w /\ w <> WPoolDown /\ w <> WShuttingDown /\
      (replies r = [RMd5Request salt] \/ replies r = [RMd5Request salt; RError (EWrongPassword name)]) /\
      evs_ok p db name (events r) /\
      (forall body tail, read_password chk rest = PwOk body tail ->
         replies r = [RMd5Request salt; RError (EWrongPassword name)] /\
         (w = WInvalidPassword \/ w = WRefetchFailed \/ w = WPassthrough \/ w = WAuthImpossible))) \/
  (out r = TaskPanic /\ replies r = [RMd5Request salt] /\ events r = [] /\ read_password chk rest = PwPanic).
Proof.
  intros c e p u db name salt rest r. subst r. unfold user_md5.
  destruct (read_password chk rest) as [body tail|st|code|] eqn:Er.
  2:{ refused (WSocket st) evs_ok_nil. }
  2:{ refused (WExpectedP code) evs_ok_nil. }
  2:{ right; right. cbn. auto. }
  destruct (u_password u) as [pw|] eqn:Ep.
  - destruct (bytes_eqb (md5_hash_password md5 name pw salt) body) eqn:Eb.
    + apply bytes_eqb_eq in Eb. left. exists body, tail, [], (cached e). split; [first [reflexivity|assumption]|]. split; [|split; [first [apply evs_ok_nil; assumption|apply evs_ok_nil]|reflexivity]].
      left. exists pw. auto.
    + unfold refetch. destruct (p_aq p) eqn:Eaq.
      * unfold next_fetch. destruct (fetches e) as [|[h|] fs] eqn:Ef; cbn [fst snd].
        -- refused (WRefetchFailed) evs_ok_one.
        -- destruct (bytes_eqb (md5_hash_second_pass md5 h salt) body) eqn:Eh.
           ++ apply bytes_eqb_eq in Eh. left. exists body, tail, [EvAuthQuery db name], (Some h). split; [first [reflexivity|assumption]|]. split; [|split; [first [apply evs_ok_one; assumption|apply evs_ok_one]|reflexivity]]. right; right. exists h. rewrite ?Ef. repeat split; auto. left; reflexivity.
           ++ refused (WInvalidPassword) evs_ok_one.
        -- refused (WRefetchFailed) evs_ok_one.
      * refused (WRefetchFailed) evs_ok_nil.
  - destruct (cfg_aq c) eqn:Ecq; cbn [negb].
    2:{ refused (WAuthImpossible) evs_ok_nil. }
    destruct (cached e) as [h0|] eqn:Ec.
    + destruct (bytes_eqb (md5_hash_second_pass md5 h0 salt) body) eqn:Eh0.
      * apply bytes_eqb_eq in Eh0. left. exists body, tail, [], (Some h0). split; [first [reflexivity|assumption]|]. split; [|split; [first [apply evs_ok_nil; assumption|apply evs_ok_nil]|reflexivity]].
        right; left. exists h0. auto.
      * unfold refetch. destruct (p_aq p) eqn:Eaq.
        -- unfold next_fetch. destruct (fetches e) as [|[h|] fs] eqn:Ef; cbn [fst snd app].
           ++ refused (WRefetchFailed) evs_ok_one.
           ++ destruct (bytes_eqb (md5_hash_second_pass md5 h salt) body) eqn:Eh.
              ** apply bytes_eqb_eq in Eh. left. exists body, tail, [EvAuthQuery db name], (Some h). split; [first [reflexivity|assumption]|]. split; [|split; [first [apply evs_ok_one; assumption|apply evs_ok_one]|reflexivity]]. right; right. exists h. rewrite ?Ef. repeat split; auto. left; reflexivity.
              ** refused (WInvalidPassword) evs_ok_one.
           ++ refused (WRefetchFailed) evs_ok_one.
        -- refused (WRefetchFailed) evs_ok_nil.
    + unfold refetch. destruct (p_aq p) eqn:Eaq.
      * unfold next_fetch. destruct (fetches e) as [|[h|] fs] eqn:Ef; cbn [fst snd app].
        -- refused (WPassthrough) evs_ok_one.
        -- destruct (bytes_eqb (md5_hash_second_pass md5 h salt) body) eqn:Eh.
           ++ apply bytes_eqb_eq in Eh. left. exists body, tail, [EvAuthQuery db name], (Some h). split; [first [reflexivity|assumption]|]. split; [|split; [first [apply evs_ok_one; assumption|apply evs_ok_one]|reflexivity]]. right; right. exists h. rewrite ?Ef. repeat split; auto. left; reflexivity.
           ++ destruct fs as [|[h2|] fs2]; cbn [fst snd app].
              ** refused (WRefetchFailed) evs_ok_two.
              ** destruct (bytes_eqb (md5_hash_second_pass md5 h2 salt) body) eqn:Eh2.
                 --- apply bytes_eqb_eq in Eh2. left. exists body, tail, ([EvAuthQuery db name] ++ [EvAuthQuery db name]), (Some h2). split; [first [reflexivity|assumption]|]. split; [|split; [first [apply evs_ok_two; assumption|apply evs_ok_two]|reflexivity]]. right; right. exists h2. rewrite ?Ef. repeat split; auto. right; left; reflexivity.
                 --- refused (WInvalidPassword) evs_ok_two.
              ** refused (WRefetchFailed) evs_ok_two.
        -- refused (WPassthrough) evs_ok_one.
      * refused (WPassthrough) evs_ok_nil.
Qed.

End Main.

Section Theorems.
Variable md5 : bytes -> bytes.
Variable chk : bool.

Lemma admin_md5_cases : forall c e name salt rest,
  let r := admin_md5 md5 chk c e name salt rest in
  events r = [] /\ cache' r = cached e /\
  ((exists body tail, read_password chk rest = PwOk body tail /\
      body = md5_hash_password md5 (admin_user c) (admin_password c) salt /\
      out r = AdminAdmitted /\ replies r = [RMd5Request salt] ++ auth_tail) \/
   (exists w, out r = Rejected w /\ w <> WPoolDown /\ w <> WShuttingDown /\
      (replies r = [RMd5Request salt] \/ replies r = [RMd5Request salt; RError (EWrongPassword name)]) /\
      (forall body tail, read_password chk rest = PwOk body tail ->
         w = WInvalidPassword /\ replies r = [RMd5Request salt; RError (EWrongPassword name)] /\
         body <> md5_hash_password md5 (admin_user c) (admin_password c) salt)) \/
   (out r = TaskPanic /\ replies r = [RMd5Request salt] /\ read_password chk rest = PwPanic)).
Proof.
  intros c e name salt rest r. subst r. unfold admin_md5.
  destruct (read_password chk rest) as [body tail|st|code|] eqn:Er; cbn [events cache' mk out replies].
  - destruct (bytes_eqb (md5_hash_password md5 (admin_user c) (admin_password c) salt) body) eqn:Eb; cbn [events cache' mk out replies].
    + apply bytes_eqb_eq in Eb. repeat split. left. exists body, tail. auto.
    + apply bytes_eqb_neq in Eb. repeat split. right; left. exists WInvalidPassword.
      split; [reflexivity|]. split; [discriminate|]. split; [discriminate|]. split; [auto|].
      intros b t Hb. inversion Hb; subst. repeat split; auto.
  - repeat split. right; left. exists (WSocket st). repeat split; try discriminate; auto; intros; discriminate.
  - repeat split. right; left. exists (WExpectedP code). repeat split; try discriminate; auto; intros; discriminate.
  - repeat split. right; right. auto.
Qed.

Lemma valid_body_secret : forall c e db name p u salt body,
  served c db name p u -> valid_body md5 e p u name salt body ->
  exists s, secret_of c e db name s /\ body = expected md5 name s salt.
Proof.
  intros c e db name p u salt body Hs [(pw & H1 & H2)|[(h & H1 & H2 & H3)|(h & H1 & H2 & H3)]].
  - exists (Clear pw). split; [exists p, u; split; [assumption|]; left; exists pw; auto|].
    cbn [expected]. rewrite <- hash_password_eq. assumption.
  - exists (Shadow h). split; [exists p, u; split; [assumption|]; right; left; exists h; auto|].
    cbn [expected]. rewrite <- second_pass_eq. assumption.
  - exists (Shadow h). split; [exists p, u; split; [assumption|]; right; right; exists h; auto|].
    cbn [expected]. rewrite <- second_pass_eq. assumption.
Qed.

(** *** soundness of admission to a pool *)
Lemma admit_sound : forall c sd salt payload rest e db name,
  out (startup md5 chk c sd salt payload rest e) = PoolAdmitted db name ->
  ident payload = IdOk name db /\ sd = false /\ is_admin_db db = false /\ configured c db name /\
  (trust c db name \/
   exists body tail s, read_password chk rest = PwOk body tail /\
     secret_of c e db name s /\ body = expected md5 name s salt).
Proof.
  intros c sd salt payload rest e db name H. unfold startup in H.
  destruct (ident payload) as [n d| |] eqn:Ei; try discriminate.
  destruct (is_admin_db d) eqn:Ea; cbn [negb andb] in H.
  { destruct (admin_auth c); [discriminate|].
    destruct (admin_md5_cases c e n salt rest) as (_ & _ & [(b & t & _ & _ & Ho & _)|[(w & Ho & _)|(Ho & _)]]);
      rewrite Ho in H; discriminate. }
  destruct sd; [discriminate|].
  destruct (get_pool c d n) as [[p u]|] eqn:Eg; [|discriminate].
  pose proof (get_pool_served _ _ _ _ _ Eg) as Hs.
  destruct (u_auth u) eqn:Eu.
  - destruct (finish_user_cases e d n [] [] (cached e)) as (_ & _ & [(Ho & _)|(Ho & _)]); rewrite Ho in H; [|discriminate].
    inversion H; subst d n. repeat split; auto. { eapply served_configured; eassumption. }
    left. exists p, u. auto.
  - destruct (user_md5_cases md5 chk c e p u d n salt rest) as [(body & tail & ev & c' & Hr & Hv & _ & Hf)|[(w & Ho & _)|(Ho & _)]].
    + rewrite Hf in H.
      destruct (finish_user_cases e d n [RMd5Request salt] ev c') as (_ & _ & [(Ho & _)|(Ho & _)]); rewrite Ho in H; [|discriminate].
      inversion H; subst d n. repeat split; auto. { eapply served_configured; eassumption. }
      right. destruct (valid_body_secret _ _ _ _ _ _ _ _ Hs Hv) as (s & S1 & S2). exists body, tail, s. auto.
    + rewrite Ho in H. discriminate.
    + rewrite Ho in H. discriminate.
Qed.

(** the same with the answer located in the byte stream *)
Lemma admit_sound_frame : forall c sd salt payload rest e db name,
  Forall byte_ok (firstn 5 rest) ->
  out (startup md5 chk c sd salt payload rest e) = PoolAdmitted db name ->
  configured c db name /\
  (trust c db name \/
   exists s tail, secret_of c e db name s /\ rest = password_frame (expected md5 name s salt) ++ tail).
Proof.
  intros c sd salt payload rest e db name Hb H.
  destruct (admit_sound _ _ _ _ _ _ _ _ H) as (_ & _ & _ & Hc & [Ht|(body & tail & s & Hr & Hs & He)]).
  - auto.
  - split; [assumption|]. right. exists s, tail. split; [assumption|]. subst body.
    apply (read_password_ok_inv chk); assumption.
Qed.

(** *** the admin database requires the admin credentials *)
Lemma admin_sound : forall c sd salt payload rest e,
  out (startup md5 chk c sd salt payload rest e) = AdminAdmitted ->
  exists name db, ident payload = IdOk name db /\ is_admin_db db = true /\
    (admin_auth c = Trust \/
     exists body tail, read_password chk rest = PwOk body tail /\
       body = pg_md5 md5 (admin_user c) (admin_password c) salt).
Proof.
  intros c sd salt payload rest e H. unfold startup in H.
  destruct (ident payload) as [n d| |] eqn:Ei; try discriminate.
  exists n, d. split; [reflexivity|].
  destruct (is_admin_db d) eqn:Ea; cbn [negb andb] in H.
  - split; [reflexivity|]. destruct (admin_auth c) eqn:Eauth; [left; reflexivity|].
    destruct (admin_md5_cases c e n salt rest) as (_ & _ & [(b & t & Hr & Hb & _)|[(w & Ho & _)|(Ho & _)]]).
    + right. exists b, t. rewrite <- hash_password_eq. auto.
    + rewrite Ho in H. discriminate.
    + rewrite Ho in H. discriminate.
  - exfalso. destruct sd; [discriminate|].
    destruct (get_pool c d n) as [[p u]|]; [|discriminate].
    destruct (u_auth u).
    + destruct (finish_user_cases e d n [] [] (cached e)) as (_ & _ & [(Ho & _)|(Ho & _)]); rewrite Ho in H; discriminate.
    + destruct (user_md5_cases md5 chk c e p u d n salt rest) as [(body & tail & ev & c' & _ & _ & _ & Hf)|[(w & Ho & _)|(Ho & _)]].
      * rewrite Hf in H.
        destruct (finish_user_cases e d n [RMd5Request salt] ev c') as (_ & _ & [(Ho & _)|(Ho & _)]); rewrite Ho in H; discriminate.
      * rewrite Ho in H. discriminate.
      * rewrite Ho in H. discriminate.
Qed.

(** *** replies: AuthenticationOk only at admission, only challenges before it *)
Definition replies_ok (r : result) : Prop :=
  if is_admitted (out r)
  then exists pre, replies r = pre ++ auth_tail /\ forallb pre_auth_reply pre = true
  else forallb refusal_reply (replies r) = true.

Lemma replies_ok_startup : forall c sd salt payload rest e, replies_ok (startup md5 chk c sd salt payload rest e).
Proof.
  intros c sd salt payload rest e. unfold startup.
  destruct (ident payload) as [n d| |] eqn:Ei; try reflexivity.
  destruct (is_admin_db d) eqn:Ea; cbn [negb andb].
  { destruct (admin_auth c).
    - exists []. split; reflexivity.
    - unfold replies_ok.
      destruct (admin_md5_cases c e n salt rest) as (_ & _ & [(b & t & _ & _ & Ho & Hr)|[(w & Ho & _ & _ & Hr & _)|(Ho & Hr & _)]]);
        rewrite Ho; cbn [is_admitted].
      + exists [RMd5Request salt]. split; [assumption|reflexivity].
      + destruct Hr as [Hr|Hr]; rewrite Hr; reflexivity.
      + rewrite Hr. reflexivity. }
  destruct sd; [reflexivity|].
  destruct (get_pool c d n) as [[p u]|] eqn:Eg; [|reflexivity].
  destruct (u_auth u).
  - unfold replies_ok.
    destruct (finish_user_cases e d n [] [] (cached e)) as (_ & _ & [(Ho & Hr)|(Ho & Hr & _)]); rewrite Ho; cbn [is_admitted].
    + exists []. split; [assumption|reflexivity].
    + rewrite Hr. reflexivity.
  - unfold replies_ok.
    destruct (user_md5_cases md5 chk c e p u d n salt rest) as [(body & tail & ev & c' & _ & _ & _ & Hf)|[(w & Ho & _ & _ & Hr & _)|(Ho & Hr & _)]].
    + rewrite Hf.
      destruct (finish_user_cases e d n [RMd5Request salt] ev c') as (_ & _ & [(Ho & Hr)|(Ho & Hr & _)]); rewrite Ho; cbn [is_admitted].
      * exists [RMd5Request salt]. split; [assumption|reflexivity].
      * rewrite Hr. reflexivity.
    + rewrite Ho. cbn [is_admitted]. destruct Hr as [Hr|Hr]; rewrite Hr; reflexivity.
    + rewrite Ho. cbn [is_admitted]. rewrite Hr. reflexivity.
Qed.

Lemma replies_ok_prepend : forall x r, pre_auth_reply x = true -> replies_ok r -> replies_ok (prepend [x] r).
Proof.
  intros x r Hx H. unfold replies_ok, prepend in *. cbn [out replies mk].
  destruct (is_admitted (out r)).
  - destruct H as (pre & H1 & H2). exists (x :: pre). rewrite H1. split; [reflexivity|]. cbn [forallb]. rewrite Hx, H2. reflexivity.
  - cbn [app forallb]. rewrite H. destruct x; try discriminate; reflexivity.
Qed.

Lemma replies_ok_entry : forall c sd salt stream e, replies_ok (entry md5 chk c sd salt stream e).
Proof.
  intros c sd salt stream e. unfold entry.
  destruct (get_startup stream) as [[| |] payload rest| | |]; try reflexivity.
  - destruct (tls c).
    + destruct (tls_ok e); [|reflexivity].
      destruct (get_startup rest) as [[| |] p2 r2| | |]; try reflexivity.
      apply replies_ok_prepend; [reflexivity|apply replies_ok_startup].
    + destruct (get_startup rest) as [[| |] p2 r2| | |]; try reflexivity.
      apply replies_ok_prepend; [reflexivity|apply replies_ok_startup].
  - apply replies_ok_startup.
Qed.

Lemma no_authok_before : forall c sd salt stream e,
  let r := entry md5 chk c sd salt stream e in
  is_admitted (out r) = false -> ~ In RAuthOk (replies r) /\ forallb refusal_reply (replies r) = true.
Proof.
  intros c sd salt stream e r H. subst r.
  pose proof (replies_ok_entry c sd salt stream e) as Hr. unfold replies_ok in Hr. rewrite H in Hr.
  split; [|assumption]. intro Hin. rewrite forallb_forall in Hr. specialize (Hr _ Hin). discriminate.
Qed.

Lemma authok_after_challenges_only : forall c sd salt stream e,
  let r := entry md5 chk c sd salt stream e in
  is_admitted (out r) = true ->
  exists pre, replies r = pre ++ [RAuthOk; RParamStatuses; RBackendKeyData; RReadyForQuery] /\
              forallb pre_auth_reply pre = true.
Proof.
  intros c sd salt stream e r H. subst r.
  pose proof (replies_ok_entry c sd salt stream e) as Hr. unfold replies_ok in Hr. rewrite H in Hr. exact Hr.
Qed.

(** *** shutdown gate *)
Lemma shutdown_gate : forall c salt payload rest e name db,
  ident payload = IdOk name db -> is_admin_db db = false ->
  startup md5 chk c true salt payload rest e = mk (Rejected WShuttingDown) [RError EAdminOnly] [] (cached e).
Proof.
  intros c salt payload rest e name db Hi Ha. unfold startup. rewrite Hi, Ha. reflexivity.
Qed.

Lemma shutdown_no_pool_admission : forall c salt stream e db name,
  out (entry md5 chk c true salt stream e) <> PoolAdmitted db name.
Proof.
  intros c salt stream e db name H.
  assert (Hs : forall payload rest, out (startup md5 chk c true salt payload rest e) <> PoolAdmitted db name).
  { intros payload rest Hx. apply admit_sound in Hx. destruct Hx as (_ & Hsd & _). discriminate. }
  unfold entry in H.
  destruct (get_startup stream) as [[| |] payload rest| | |]; try discriminate.
  - destruct (tls c).
    + destruct (tls_ok e); [|discriminate].
      destruct (get_startup rest) as [[| |] p2 r2| | |]; try discriminate. exact (Hs _ _ H).
    + destruct (get_startup rest) as [[| |] p2 r2| | |]; try discriminate. exact (Hs _ _ H).
  - exact (Hs _ _ H).
Qed.

(** *** server contacts before admission: only the pooler's own, for the served pool *)
Definition event_ok (c : cfg) (db name : bytes) (x : event) : Prop :=
  match x with
  | EvAuthQuery d n => d = db /\ n = name /\ exists p u, served c db name p u /\ p_aq p = true
  | EvValidate d n => d = db /\ n = name /\ exists p u, served c db name p u
  | EvClientBytes _ => False
  end.

Lemma events_startup : forall c sd salt payload rest e,
  let r := startup md5 chk c sd salt payload rest e in
  match ident payload with
  | IdOk name db => Forall (event_ok c db name) (events r) /\ (is_admin_db db = true -> events r = [])
  | _ => events r = []
  end.
Proof.
  intros c sd salt payload rest e r. subst r. unfold startup.
  destruct (ident payload) as [n d| |] eqn:Ei; try reflexivity.
  destruct (is_admin_db d) eqn:Ea; cbn [negb andb].
  { destruct (admin_auth c).
    - split; [constructor|reflexivity].
    - destruct (admin_md5_cases c e n salt rest) as (He & _). rewrite He. split; [constructor|reflexivity]. }
  split; [|discriminate].
  destruct sd; [constructor|].
  destruct (get_pool c d n) as [[p u]|] eqn:Eg; [|constructor].
  pose proof (get_pool_served _ _ _ _ _ Eg) as Hs.
  assert (Hfin : forall pre ev c', evs_ok p d n ev -> Forall (event_ok c d n) (events (finish_user e d n pre ev c'))).
  { intros pre ev c' [Hev Haq].
    assert (Hbase : Forall (event_ok c d n) ev).
    { destruct ev as [|x ev']; [constructor|]. specialize (Haq ltac:(discriminate)).
      eapply Forall_impl; [|exact Hev]. intros a Ha. cbv beta in Ha. subst a. cbn. repeat split; auto. exists p, u. auto. }
    destruct (finish_user_cases e d n pre ev c') as (_ & [Hx|Hx] & _); rewrite Hx; [assumption|].
    apply Forall_app. split; [assumption|]. constructor; [|constructor]. cbn. repeat split; auto. exists p, u. auto. }
  destruct (u_auth u).
  - apply Hfin. apply evs_ok_nil.
  - destruct (user_md5_cases md5 chk c e p u d n salt rest) as [(body & tail & ev & c' & _ & _ & Hev & Hf)|[(w & _ & _ & _ & _ & Hev & _)|(_ & _ & Hev & _)]].
    + rewrite Hf. apply Hfin. assumption.
    + destruct Hev as [Hev Haq].
      destruct (events (user_md5 md5 chk c e p u d n salt rest)) as [|x ev'] eqn:Ee; [constructor|].
      specialize (Haq ltac:(discriminate)).
      eapply Forall_impl; [|exact Hev]. intros a Ha. cbv beta in Ha. subst a. cbn. repeat split; auto. exists p, u. auto.
    + rewrite Hev. constructor.
Qed.

Lemma events_entry : forall c sd salt stream e,
  Forall (fun x => match x with EvClientBytes _ => False | EvAuthQuery d n | EvValidate d n => configured c d n end)
         (events (entry md5 chk c sd salt stream e)).
Proof.
  intros c sd salt stream e.
  assert (Hs : forall payload rest,
    Forall (fun x => match x with EvClientBytes _ => False | EvAuthQuery d n | EvValidate d n => configured c d n end)
           (events (startup md5 chk c sd salt payload rest e))).
  { intros payload rest. pose proof (events_startup c sd salt payload rest e) as H. cbv zeta in H.
    destruct (ident payload) as [n d| |]; try (rewrite H; constructor).
    destruct H as [H _]. eapply Forall_impl; [|exact H].
    intros [d' n'|d' n'|b] Hx; cbn in Hx; try contradiction.
    - destruct Hx as (-> & -> & p & u & Hsv & _). eapply served_configured; eassumption.
    - destruct Hx as (-> & -> & p & u & Hsv). eapply served_configured; eassumption. }
  unfold entry.
  destruct (get_startup stream) as [[| |] payload rest| | |]; try constructor.
  - destruct (tls c).
    + destruct (tls_ok e); [|constructor].
      destruct (get_startup rest) as [[| |] p2 r2| | |]; try constructor. apply Hs.
    + destruct (get_startup rest) as [[| |] p2 r2| | |]; try constructor. apply Hs.
  - apply Hs.
Qed.

End Theorems.

(** ** wrong answers *)

Lemma firstn_neq : forall (A : Type) (k : nat) (l : list A), (k < length l)%nat -> firstn k l <> l.
Proof.
  intros A k l Hk E. assert (Hl : length (firstn k l) = length l) by (rewrite E; reflexivity).
  rewrite firstn_length in Hl. lia.
Qed.

Lemma app_neq : forall (A : Type) (l x : list A), x <> [] -> l ++ x <> l.
Proof.
  intros A l x Hx E. assert (Hl : length (l ++ x) = length l) by (rewrite E; reflexivity).
  rewrite app_length in Hl. destruct x; [contradiction|cbn in Hl; lia].
Qed.

Lemma pg_hexdigit_mod : forall a b, pg_hexdigit a = pg_hexdigit b -> (a mod 16 = b mod 16)%N.
Proof.
  intros a b. unfold pg_hexdigit. cbv zeta.
  pose proof (N.mod_upper_bound a 16 ltac:(discriminate)). pose proof (N.mod_upper_bound b 16 ltac:(discriminate)).
  destruct (a mod 16 <? 10)%N eqn:Ea; destruct (b mod 16 <? 10)%N eqn:Eb;
    [apply N.ltb_lt in Ea; apply N.ltb_lt in Eb|apply N.ltb_lt in Ea; apply N.ltb_ge in Eb|apply N.ltb_ge in Ea; apply N.ltb_lt in Eb|apply N.ltb_ge in Ea; apply N.ltb_ge in Eb]; lia.
Qed.

Lemma pg_hex_inj : forall x y, Forall byte_ok x -> Forall byte_ok y -> pg_hex x = pg_hex y -> x = y.
Proof.
  induction x as [|a x IH]; destruct y as [|b y]; intros Hx Hy H; try reflexivity; try discriminate.
  cbn [pg_hex flat_map app] in H. inversion H as [[H1 H2 H3]].
  inversion Hx as [|? ? Ha Hx']; inversion Hy as [|? ? Hb Hy']; subst. unfold byte_ok in *.
  apply pg_hexdigit_mod in H1. apply pg_hexdigit_mod in H2.
  assert (a = b).
  { assert (a / 16 < 16)%N by (apply N.div_lt_upper_bound; lia).
    assert (b / 16 < 16)%N by (apply N.div_lt_upper_bound; lia).
    rewrite (N.mod_small (a / 16)) in H1 by assumption. rewrite (N.mod_small (b / 16)) in H1 by assumption.
    rewrite (N.div_mod a 16) by discriminate. rewrite (N.div_mod b 16) by discriminate. rewrite H1, H2. reflexivity. }
  subst b. f_equal. apply IH; assumption.
Qed.

Section Wrong.
Variable md5 : bytes -> bytes.
Variable chk : bool.

Lemma other_salt_other_answer : forall h salt salt',
  Forall byte_ok (md5 (h ++ salt)) -> Forall byte_ok (md5 (h ++ salt')) ->
  md5 (h ++ salt') <> md5 (h ++ salt) ->
  pg_md5_of_shadow md5 h salt' <> pg_md5_of_shadow md5 h salt.
Proof.
  intros h salt salt' B1 B2 Hne E. unfold pg_md5_of_shadow in E.
  apply app_inv_head in E. apply app_inv_tail in E. apply Hne. apply pg_hex_inj; assumption.
Qed.

(** who is challenged with an MD5 request *)
Definition user_login (c : cfg) (payload name db : bytes) (p : pool) (u : user) : Prop :=
  ident payload = IdOk name db /\ is_admin_db db = false /\ served c db name p u /\ u_auth u = MD5.
Definition admin_login (c : cfg) (payload name db : bytes) : Prop :=
  ident payload = IdOk name db /\ is_admin_db db = true /\ admin_auth c = MD5.

Lemma startup_user : forall c salt payload rest e name db p u,
  user_login c payload name db p u ->
  startup md5 chk c false salt payload rest e = user_md5 md5 chk c e p u db name salt rest.
Proof.
  intros c salt payload rest e name db p u (Hi & Ha & Hs & Hu). unfold startup.
  rewrite Hi, Ha. cbn [negb andb]. rewrite (served_get_pool _ _ _ _ _ Hs), Hu. reflexivity.
Qed.

Lemma startup_admin : forall c sd salt payload rest e name db,
  admin_login c payload name db ->
  startup md5 chk c sd salt payload rest e = admin_md5 md5 chk c e name salt rest.
Proof.
  intros c sd salt payload rest e name db (Hi & Ha & Hm). unfold startup.
  rewrite Hi, Ha. cbn [negb andb]. rewrite Hm. reflexivity.
Qed.

(** any well-framed answer that is not the MD5 answer for a secret of the user is refused with
    the password error, and nothing else is said *)
Lemma wrong_response_rejected : forall c salt payload rest e name db p u body tail,
  user_login c payload name db p u ->
  rest = password_frame body ++ tail -> blen body + 4 < 2147483648 ->
  (forall s, secret_of c e db name s -> body <> expected md5 name s salt) ->
  let r := startup md5 chk c false salt payload rest e in
  exists w, out r = Rejected w /\
    (w = WInvalidPassword \/ w = WRefetchFailed \/ w = WPassthrough \/ w = WAuthImpossible) /\
    replies r = [RMd5Request salt; RError (EWrongPassword name)].
Proof.
  intros c salt payload rest e name db p u body tail Hl Hr Hb Hs r. subst r.
  rewrite (startup_user _ _ _ _ _ _ _ _ _ Hl).
  assert (Hp : read_password chk rest = PwOk body tail) by (subst rest; apply read_password_frame; assumption).
  destruct Hl as (_ & _ & Hsv & _).
  destruct (user_md5_cases md5 chk c e p u db name salt rest) as [(b & t & ev & c' & Hr' & Hv & _)|[(w & Ho & _ & _ & _ & _ & Hw)|(_ & _ & _ & Hx)]].
  - rewrite Hp in Hr'. inversion Hr'; subst b t.
    destruct (valid_body_secret md5 _ _ _ _ _ _ _ _ Hsv Hv) as (s & S1 & S2). exfalso. exact (Hs s S1 S2).
  - destruct (Hw _ _ Hp) as [W1 W2]. exists w. auto.
  - rewrite Hp in Hx. discriminate.
Qed.

Lemma wrong_admin_response_rejected : forall c sd salt payload rest e name db body tail,
  admin_login c payload name db ->
  rest = password_frame body ++ tail -> blen body + 4 < 2147483648 ->
  body <> pg_md5 md5 (admin_user c) (admin_password c) salt ->
  let r := startup md5 chk c sd salt payload rest e in
  out r = Rejected WInvalidPassword /\ replies r = [RMd5Request salt; RError (EWrongPassword name)].
Proof.
  intros c sd salt payload rest e name db body tail Hl Hr Hb Hne r. subst r.
  rewrite (startup_admin _ _ _ _ _ _ _ _ Hl).
  assert (Hp : read_password chk rest = PwOk body tail) by (subst rest; apply read_password_frame; assumption).
  destruct (admin_md5_cases md5 chk c e name salt rest) as (_ & _ & [(b & t & Hr' & Hb' & _)|[(w & Ho & _ & _ & _ & Hw)|(_ & _ & Hx)]]).
  - rewrite Hp in Hr'. assert (Hbb : body = b) by congruence. rewrite hash_password_eq in Hb'. congruence.
  - destruct (Hw _ _ Hp) as (-> & W2 & _). auto.
  - rewrite Hp in Hx. discriminate.
Qed.

(** a user whose only secret is the configured cleartext password *)
Definition cleartext_only (p : pool) (u : user) (pw : bytes) : Prop := u_password u = Some pw /\ p_aq p = false.

Lemma cleartext_only_secret : forall c e db name p u pw s,
  served c db name p u -> cleartext_only p u pw -> secret_of c e db name s -> s = Clear pw.
Proof.
  intros c e db name p u pw s Hsv [Hp Hq] (p' & u' & Hsv' & Hc).
  destruct (served_unique _ _ _ _ _ _ _ Hsv Hsv') as [<- <-].
  destruct Hc as [(pw' & H1 & H2)|[(h & H1 & _)|(h & H1 & _)]]; congruence.
Qed.

Lemma truncated_rejected : forall c salt payload e name db p u pw k tail,
  user_login c payload name db p u -> cleartext_only p u pw ->
  (k < length (pg_md5 md5 name pw salt))%nat -> blen (pg_md5 md5 name pw salt) + 4 < 2147483648 ->
  let r := startup md5 chk c false salt payload (password_frame (firstn k (pg_md5 md5 name pw salt)) ++ tail) e in
  exists w, out r = Rejected w /\ replies r = [RMd5Request salt; RError (EWrongPassword name)].
Proof.
  intros c salt payload e name db p u pw k tail Hl Hc Hk Hb r. subst r.
  destruct (wrong_response_rejected c salt payload _ e name db p u (firstn k (pg_md5 md5 name pw salt)) tail Hl eq_refl) as (w & Ho & _ & Hr).
  - unfold blen in *. rewrite firstn_length. lia.
  - intros s Hs. destruct Hl as (_ & _ & Hsv & _). rewrite (cleartext_only_secret _ _ _ _ _ _ _ _ Hsv Hc Hs).
    cbn [expected]. apply firstn_neq. assumption.
  - exists w. auto.
Qed.

Lemma extended_rejected : forall c salt payload e name db p u pw extra tail,
  user_login c payload name db p u -> cleartext_only p u pw ->
  extra <> [] -> blen (pg_md5 md5 name pw salt ++ extra) + 4 < 2147483648 ->
  let r := startup md5 chk c false salt payload (password_frame (pg_md5 md5 name pw salt ++ extra) ++ tail) e in
  exists w, out r = Rejected w /\ replies r = [RMd5Request salt; RError (EWrongPassword name)].
Proof.
  intros c salt payload e name db p u pw extra tail Hl Hc Hx Hb r. subst r.
  destruct (wrong_response_rejected c salt payload _ e name db p u (pg_md5 md5 name pw salt ++ extra) tail Hl eq_refl Hb) as (w & Ho & _ & Hr).
  - intros s Hs. destruct Hl as (_ & _ & Hsv & _). rewrite (cleartext_only_secret _ _ _ _ _ _ _ _ Hsv Hc Hs).
    cbn [expected]. apply app_neq. assumption.
  - exists w. auto.
Qed.

(** replay: the right answer for another salt, provided the digest separates the two inputs *)
Lemma replay_rejected : forall c salt salt' payload e name db p u pw tail,
  user_login c payload name db p u -> cleartext_only p u pw ->
  (forall x, Forall byte_ok (md5 x)) ->
  md5 (pg_shadow_hash md5 name pw ++ salt') <> md5 (pg_shadow_hash md5 name pw ++ salt) ->
  blen (pg_md5 md5 name pw salt') + 4 < 2147483648 ->
  let r := startup md5 chk c false salt payload (password_frame (pg_md5 md5 name pw salt') ++ tail) e in
  exists w, out r = Rejected w /\ replies r = [RMd5Request salt; RError (EWrongPassword name)].
Proof.
  intros c salt salt' payload e name db p u pw tail Hl Hc Hbytes Hne Hb r. subst r.
  destruct (wrong_response_rejected c salt payload _ e name db p u (pg_md5 md5 name pw salt') tail Hl eq_refl Hb) as (w & Ho & _ & Hr).
  - intros s Hs. destruct Hl as (_ & _ & Hsv & _). rewrite (cleartext_only_secret _ _ _ _ _ _ _ _ Hsv Hc Hs).
    cbn [expected]. unfold pg_md5. apply other_salt_other_answer; auto.
  - exists w. auto.
Qed.

(** any other message in place of the PasswordMessage: refused, nothing more is said *)
Lemma not_p_rejected : forall c sd salt payload e name db code r0,
  code <> 112%N ->
  ((exists p u, sd = false /\ user_login c payload name db p u) \/ admin_login c payload name db) ->
  let r := startup md5 chk c sd salt payload (code :: r0) e in
  out r = Rejected (WExpectedP code) /\ replies r = [RMd5Request salt] /\ events r = [].
Proof.
  intros c sd salt payload e name db code r0 Hc [(p & u & -> & Hl)|Hl] r; subst r.
  - rewrite (startup_user _ _ _ _ _ _ _ _ _ Hl). unfold user_md5. rewrite read_password_not_p by assumption. auto.
  - rewrite (startup_admin _ _ _ _ _ _ _ _ Hl). unfold admin_md5. rewrite read_password_not_p by assumption. auto.
Qed.

(** EOF in place of the PasswordMessage *)
Lemma silent_rejected : forall c sd salt payload e name db,
  ((exists p u, sd = false /\ user_login c payload name db p u) \/ admin_login c payload name db) ->
  let r := startup md5 chk c sd salt payload [] e in
  out r = Rejected (WSocket 0) /\ replies r = [RMd5Request salt] /\ events r = [].
Proof.
  intros c sd salt payload e name db [(p & u & -> & Hl)|Hl] r; subst r.
  - rewrite (startup_user _ _ _ _ _ _ _ _ _ Hl). unfold user_md5. cbn. auto.
  - rewrite (startup_admin _ _ _ _ _ _ _ _ Hl). unfold admin_md5. cbn. auto.
Qed.

(** a declared length below 4 *)
Lemma short_len_panics : forall c sd salt payload e name db a b c0 d r0,
  i32_of a b c0 d < 4 -> (chk = true \/ -2147483644 <= i32_of a b c0 d) ->
  ((exists p u, sd = false /\ user_login c payload name db p u) \/ admin_login c payload name db) ->
  let r := startup md5 chk c sd salt payload (112%N :: a :: b :: c0 :: d :: r0) e in
  out r = TaskPanic /\ replies r = [RMd5Request salt] /\ events r = [].
Proof.
  intros c sd salt payload e name db a b c0 d r0 Hlen Hchk [(p & u & -> & Hl)|Hl] r; subst r.
  - rewrite (startup_user _ _ _ _ _ _ _ _ _ Hl). unfold user_md5. rewrite read_password_short_len by assumption. auto.
  - rewrite (startup_admin _ _ _ _ _ _ _ _ Hl). unfold admin_md5. rewrite read_password_short_len by assumption. auto.
Qed.

(** ... and in every build it never admits, as long as digests are shorter than a gigabyte *)
Lemma short_len_never_admits : forall c sd salt payload e a b c0 d r0,
  (forall x, blen (md5 x) < 1000000000) ->
  i32_of a b c0 d < 4 ->
  (forall name db, ident payload = IdOk name db -> is_admin_db db = false -> ~ trust c db name) ->
  (forall name db, ident payload = IdOk name db -> is_admin_db db = true -> admin_auth c = MD5) ->
  is_admitted (out (startup md5 chk c sd salt payload (112%N :: a :: b :: c0 :: d :: r0) e)) = false.
Proof.
  intros c sd salt payload e a b c0 d r0 Hmd Hlen Hnt Had.
  pose proof (read_password_wrapped chk a b c0 d r0 Hlen) as Hw.
  assert (Hexp : forall h s, blen (pg_md5_of_shadow md5 h s) < 2147483644).
  { intros h s. unfold pg_md5_of_shadow, blen. rewrite !app_length. cbn [length].
    assert (Hh : forall l, length (pg_hex l) = (2 * length l)%nat) by (induction l as [|x l IH]; cbn [pg_hex flat_map app length] in *; [reflexivity|unfold pg_hex in IH; rewrite IH; lia]).
    rewrite Hh. specialize (Hmd (h ++ s)). unfold blen in Hmd. lia. }
  destruct (out (startup md5 chk c sd salt payload (112%N :: a :: b :: c0 :: d :: r0) e)) as [db name| | | |] eqn:Ho; try reflexivity; exfalso.
  - apply admit_sound in Ho. destruct Ho as (Hi & _ & Ha & _ & [Ht|(body & tail & s & Hr & _ & He)]).
    + exact (Hnt _ _ Hi Ha Ht).
    + rewrite Hr in Hw. subst body. destruct s as [pw|h]; cbn [expected] in Hw; [unfold pg_md5 in Hw|];
        match type of Hw with _ <= blen (pg_md5_of_shadow _ ?h ?s) => specialize (Hexp h s) end; lia.
  - apply admin_sound in Ho. destruct Ho as (name & db & Hi & Ha & [Ht|(body & tail & Hr & He)]).
    + rewrite (Had _ _ Hi Ha) in Ht. discriminate.
    + rewrite Hr in Hw. subst body. unfold pg_md5 in Hw.
      match type of Hw with _ <= blen (pg_md5_of_shadow _ ?h ?s) => specialize (Hexp h s) end. lia.
Qed.

(** the startup packet itself can no longer panic the task (5c1953d): inside Client::startup the only
    panic left is the PasswordMessage length *)
Lemma startup_panic_only_password_len : forall c sd salt payload rest e,
  out (startup md5 chk c sd salt payload rest e) = TaskPanic -> read_password chk rest = PwPanic.
Proof.
  intros c sd salt payload rest e H. unfold startup in H.
  destruct (ident payload) as [n d| |] eqn:Ei; try discriminate.
  destruct (is_admin_db d) eqn:Ea; cbn [negb andb] in H.
  { destruct (admin_auth c); [discriminate|].
    destruct (admin_md5_cases md5 chk c e n salt rest) as (_ & _ & [(b & t & _ & _ & Ho & _)|[(w & Ho & _)|(_ & _ & Hp)]]);
      [rewrite Ho in H; discriminate|rewrite Ho in H; discriminate|exact Hp]. }
  destruct sd; [discriminate|].
  destruct (get_pool c d n) as [[p u]|]; [|discriminate].
  destruct (u_auth u).
  - destruct (finish_user_cases e d n [] [] (cached e)) as (_ & _ & [(Ho & _)|(Ho & _)]); rewrite Ho in H; discriminate.
  - destruct (user_md5_cases md5 chk c e p u d n salt rest) as [(body & tail & ev & c' & _ & _ & _ & Hf)|[(w & Ho & _)|(_ & _ & _ & Hp)]].
    + rewrite Hf in H.
      destruct (finish_user_cases e d n [RMd5Request salt] ev c') as (_ & _ & [(Ho & _)|(Ho & _)]); rewrite Ho in H; discriminate.
    + rewrite Ho in H. discriminate.
    + exact Hp.
Qed.

(** *** and the right answer is accepted (the hypotheses above are not vacuous) *)
Lemma correct_response_admitted : forall c salt payload e name db p u pw tail,
  user_login c payload name db p u -> u_password u = Some pw ->
  blen (pg_md5 md5 name pw salt) + 4 < 2147483648 ->
  validated e = true \/ validate_ok e = true ->
  let r := startup md5 chk c false salt payload (password_frame (pg_md5 md5 name pw salt) ++ tail) e in
  out r = PoolAdmitted db name /\ exists pre, replies r = RMd5Request salt :: auth_tail /\ pre = [RMd5Request salt].
Proof.
  intros c salt payload e name db p u pw tail Hl Hp Hb Hv r. subst r.
  rewrite (startup_user _ _ _ _ _ _ _ _ _ Hl). unfold user_md5.
  rewrite read_password_frame by assumption. rewrite Hp, hash_password_eq, bytes_eqb_refl.
  unfold finish_user. destruct (validated e); [cbn; eauto|].
  destruct Hv as [Hv|Hv]; [discriminate|]. rewrite Hv. cbn. eauto.
Qed.

End Wrong.

(** ** the first packet *)

Lemma get_startup_short_len : forall a b c d r, i32_of a b c d < 4 -> get_startup (a :: b :: c :: d :: r) = GsPanic.
Proof. intros. cbn [get_startup]. destruct (i32_of a b c d <? 4) eqn:E; [reflexivity|apply Z.ltb_ge in E; lia]. Qed.

Lemma startup_alloc_bound : forall a b c d r, byte_ok a -> byte_ok b -> byte_ok c -> byte_ok d ->
  0 <= startup_alloc (a :: b :: c :: d :: r) <= 2147483643.
Proof.
  intros a b c d r Ha Hb Hc Hd. unfold startup_alloc, byte_ok in *.
  cbv zeta. destruct (i32_of a b c d <? 4) eqn:E; [lia|]. apply Z.ltb_ge in E.
  unfold i32_of in *. cbv zeta in *. destruct (_ <? 2147483648) eqn:E2; [apply Z.ltb_lt in E2|apply Z.ltb_ge in E2]; lia.
Qed.

Lemma entry_panics_on_short_len : forall md5 chk c sd salt a b c0 d r e, i32_of a b c0 d < 4 ->
  entry md5 chk c sd salt (a :: b :: c0 :: d :: r) e = mk TaskPanic [] [] (cached e).
Proof. intros. unfold entry. rewrite get_startup_short_len by assumption. reflexivity. Qed.

(** admission through [entry] is admission through [startup] on the packet found in the stream *)
Lemma entry_admitted_via_startup : forall md5 chk c sd salt stream e,
  is_admitted (out (entry md5 chk c sd salt stream e)) = true ->
  exists payload rest, out (entry md5 chk c sd salt stream e) = out (startup md5 chk c sd salt payload rest e) /\
    (get_startup stream = GsOk CtStartup payload rest \/
     exists p0 r0, get_startup stream = GsOk CtTls p0 r0 /\ get_startup r0 = GsOk CtStartup payload rest /\
                   (tls c = true -> tls_ok e = true)).
Proof.
  intros md5 chk c sd salt stream e H. unfold entry in *.
  destruct (get_startup stream) as [[| |] payload rest| | |] eqn:Eg; try discriminate.
  - destruct (tls c) eqn:Et.
    + destruct (tls_ok e) eqn:Eo; [|discriminate].
      destruct (get_startup rest) as [[| |] p2 r2| | |] eqn:Eg2; try discriminate.
      exists p2, r2. split; [reflexivity|]. right. exists payload, rest. auto.
    + destruct (get_startup rest) as [[| |] p2 r2| | |] eqn:Eg2; try discriminate.
      exists p2, r2. split; [reflexivity|]. right. exists payload, rest. repeat split; auto. discriminate.
  - exists payload, rest. auto.
Qed.

(** ** admin_only (shutdown in progress) on every path of client_entrypoint *)

(** the startup packet client_entrypoint hands to Client::startup, with what it has said before:
    directly, after a declined SSLRequest (plain), or inside the accepted TLS session *)
Definition startup_packet_of (c : cfg) (e : auth_env) (stream : bytes) : option (list reply * bytes * bytes) :=
  match get_startup stream with
  | GsOk CtStartup payload rest => Some ([], payload, rest)
  | GsOk CtTls _ r0 =>
    if tls c
    then (if tls_ok e
          then match get_startup r0 with GsOk CtStartup p r => Some ([RTlsYes], p, r) | _ => None end
          else None)
    else match get_startup r0 with GsOk CtStartup p r => Some ([RTlsNo], p, r) | _ => None end
  | _ => None
  end.

Section AdminOnly.
Variable md5 : bytes -> bytes.
Variable chk : bool.

Lemma entry_via_startup : forall c sd salt stream e pre payload rest,
  startup_packet_of c e stream = Some (pre, payload, rest) ->
  let r := entry md5 chk c sd salt stream e in
  let r0 := startup md5 chk c sd salt payload rest e in
  out r = out r0 /\ replies r = pre ++ replies r0 /\ events r = events r0 /\ cache' r = cache' r0.
Proof.
  intros c sd salt stream e pre payload rest H. unfold startup_packet_of in H. unfold entry.
  destruct (get_startup stream) as [[| |] p0 r0| | |]; try discriminate.
  - destruct (tls c).
    + destruct (tls_ok e); [|discriminate].
      destruct (get_startup r0) as [[| |] p2 r2| | |]; try discriminate. inversion H; subst. cbn. auto.
    + destruct (get_startup r0) as [[| |] p2 r2| | |]; try discriminate. inversion H; subst. cbn. auto.
  - inversion H; subst. cbn. auto.
Qed.

Lemma entry_without_startup_packet : forall c sd salt stream e,
  startup_packet_of c e stream = None ->
  let r := entry md5 chk c sd salt stream e in
  is_admitted (out r) = false /\ (forall s, ~ In (RMd5Request s) (replies r)) /\ events r = [].
Proof.
  intros c sd salt stream e H. unfold startup_packet_of in H. unfold entry.
  assert (F : forall o rs, is_admitted o = false -> (forall s, ~ In (RMd5Request s) rs) ->
            let r := mk o rs [] (cached e) in
            is_admitted (out r) = false /\ (forall s, ~ In (RMd5Request s) (replies r)) /\ events r = []).
  { intros; cbn; auto. }
  assert (N0 : forall s, ~ In (RMd5Request s) []) by (intros s []).
  assert (N1 : forall s, ~ In (RMd5Request s) [RTlsYes]) by (intros s [Hx|[]]; discriminate).
  assert (N2 : forall s, ~ In (RMd5Request s) [RTlsNo]) by (intros s [Hx|[]]; discriminate).
  destruct (get_startup stream) as [[| |] p0 r0| | |]; try discriminate; try (apply F; [reflexivity|assumption]).
  destruct (tls c).
  - destruct (tls_ok e); [|apply F; [reflexivity|assumption]].
    destruct (get_startup r0) as [[| |] p2 r2| | |]; try discriminate; apply F; solve [reflexivity|assumption].
  - destruct (get_startup r0) as [[| |] p2 r2| | |]; try discriminate; apply F; solve [reflexivity|assumption].
Qed.

(** with admin_only, every non-admin startup - whatever the rest of the packet and of the stream,
    on the plain path, after a declined SSLRequest and inside TLS - is refused with the
    administrator-command error before any challenge, lookup or server contact *)
Lemma admin_only_refuses_all_paths : forall c salt stream e pre payload rest name db,
  startup_packet_of c e stream = Some (pre, payload, rest) ->
  ident payload = IdOk name db -> is_admin_db db = false ->
  let r := entry md5 chk c true salt stream e in
  out r = Rejected WShuttingDown /\ replies r = pre ++ [RError EAdminOnly] /\ events r = [] /\ cache' r = cached e.
Proof.
  intros c salt stream e pre payload rest name db Hp Hi Ha r. subst r.
  destruct (entry_via_startup c true salt stream e pre payload rest Hp) as (H1 & H2 & H3 & H4).
  rewrite (shutdown_gate md5 chk c salt payload rest e name db Hi Ha) in *. cbn in *. auto.
Qed.

(** conversely: while admin_only, whoever gets a challenge or is admitted named an admin database *)
Lemma admin_only_serves_only_admin_db : forall c salt stream e,
  let r := entry md5 chk c true salt stream e in
  (is_admitted (out r) = true \/ exists s, In (RMd5Request s) (replies r)) ->
  exists pre payload rest name db,
    startup_packet_of c e stream = Some (pre, payload, rest) /\ ident payload = IdOk name db /\ is_admin_db db = true.
Proof.
  intros c salt stream e r H. subst r.
  destruct (startup_packet_of c e stream) as [[[pre payload] rest]|] eqn:Hp.
  2:{ exfalso. destruct (entry_without_startup_packet c true salt stream e Hp) as (N1 & N2 & _).
      destruct H as [H|[s H]]; [rewrite N1 in H; discriminate|exact (N2 s H)]. }
  assert (Hpre : forall s, ~ In (RMd5Request s) pre).
  { unfold startup_packet_of in Hp.
    destruct (get_startup stream) as [[| |] p0 r0| | |]; try discriminate.
    - destruct (tls c).
      + destruct (tls_ok e); [|discriminate].
        destruct (get_startup r0) as [[| |] p2 r2| | |]; try discriminate. inversion Hp; subst. intros s [Hx|[]]; discriminate.
      + destruct (get_startup r0) as [[| |] p2 r2| | |]; try discriminate. inversion Hp; subst. intros s [Hx|[]]; discriminate.
    - inversion Hp; subst. intros s []. }
  destruct (entry_via_startup c true salt stream e pre payload rest Hp) as (H1 & H2 & _).
  destruct (ident payload) as [name db| |] eqn:Hi.
  - destruct (is_admin_db db) eqn:Ha; [exists pre, payload, rest, name, db; auto|].
    exfalso. rewrite (shutdown_gate md5 chk c salt payload rest e name db Hi Ha) in *. cbn in *.
    destruct H as [H|[s H]]; [rewrite H1 in H; discriminate|].
    rewrite H2 in H. apply in_app_or in H. destruct H as [H|[H|[]]]; [exact (Hpre s H)|discriminate].
  - exfalso. unfold startup in *. rewrite Hi in *. cbn in *.
    destruct H as [H|[s H]]; [rewrite H1 in H; discriminate|].
    rewrite H2, app_nil_r in H. exact (Hpre s H).
  - exfalso. unfold startup in *. rewrite Hi in *. cbn in *.
    destruct H as [H|[s H]]; [rewrite H1 in H; discriminate|].
    rewrite H2, app_nil_r in H. exact (Hpre s H).
Qed.

(** ... and the admin database is served exactly as without admin_only *)
Lemma admin_only_admin_db_unaffected : forall c salt payload rest e name db,
  ident payload = IdOk name db -> is_admin_db db = true ->
  startup md5 chk c true salt payload rest e = startup md5 chk c false salt payload rest e.
Proof.
  intros c salt payload rest e name db Hi Ha. unfold startup. rewrite Hi, Ha. reflexivity.
Qed.

End AdminOnly.
