(** C09 — running the model next to the implementation: a sequence of client connections
    against one pgcat process, threading the two pieces of per-pool state a startup reads and
    writes ([pool.auth_hash], [pool.validated]).  Definitions only; [session_steps] states
    that every element of the output is exactly one [entry] run. *)
From Coq Require Import ZArith NArith List Bool.
From PV Require Import Auth.Model Auth.Md5.
Import ListNotations.

Record client_in := {
  ci_sd : bool;                                         (* admin_only at accept time *)
  ci_salt : bytes;                                      (* the salt read off the wire (or [] if none was issued) *)
  ci_stream : bytes;                                    (* every byte the client sent, then EOF *)
  ci_fetch : list (bytes * bytes * option bytes);       (* (db, user) -> what fetch_hash returns at this moment *)
  ci_up : list (bytes * bool);                          (* db -> validate() reaches a server *)
  ci_tls_ok : bool
}.

Record state := {
  caches : list (bytes * bytes * option bytes);         (* (db, user) -> pool.auth_hash *)
  valid : list (bytes * bytes)                          (* pools with validated() = true *)
}.

Fixpoint assoc2 {A} (db name : bytes) (l : list (bytes * bytes * A)) : option A :=
  match l with
  | [] => None
  | (d, n, v) :: r => if bytes_eqb d db && bytes_eqb n name then Some v else assoc2 db name r
  end.

Definition join {A} (o : option (option A)) : option A := match o with Some x => x | None => None end.

(** whom the first packet(s) name, if anybody (only used to select the environment) *)
Definition target (stream : bytes) : option (bytes * bytes) :=
  let of_payload p := match ident p with IdOk name db => Some (db, name) | _ => None end in
  match get_startup stream with
  | GsOk CtStartup p _ => of_payload p
  | GsOk CtTls _ rest => match get_startup rest with GsOk CtStartup p _ => of_payload p | _ => None end
  | _ => None
  end.

Definition env_for (st : state) (ci : client_in) : auth_env :=
  match target (ci_stream ci) with
  | Some (db, name) =>
    let f := join (assoc2 db name (ci_fetch ci)) in
    {| cached := join (assoc2 db name (caches st));
       fetches := [f; f];
       validated := existsb (fun k => bytes_eqb (fst k) db && bytes_eqb (snd k) name) (valid st);
       validate_ok := match find (fun k => bytes_eqb (fst k) db) (ci_up ci) with Some (_, b) => b | None => false end;
       tls_ok := ci_tls_ok ci |}
  | None => {| cached := None; fetches := []; validated := false; validate_ok := false; tls_ok := ci_tls_ok ci |}
  end.

Definition is_validate (ev : event) : bool := match ev with EvValidate _ _ => true | _ => false end.

Definition step (c : cfg) (st : state) (ci : client_in) : result * state :=
  let r := entry md5 true c (ci_sd ci) (ci_salt ci) (ci_stream ci) (env_for st ci) in
  let st' :=
    match target (ci_stream ci) with
    | Some (db, name) =>
      {| caches := (db, name, cache' r) :: caches st;
         valid := match out r with
                  | PoolAdmitted _ _ => if existsb is_validate (events r) then (db, name) :: valid st else valid st
                  | _ => valid st
                  end |}
    | None => st
    end in
  (r, st').

Fixpoint session (c : cfg) (st : state) (cis : list client_in) : list (outcome * list reply * list event) :=
  match cis with
  | [] => []
  | ci :: r => let '(res, st') := step c st ci in (out res, replies res, events res) :: session c st' r
  end.

Lemma session_steps : forall c cis st,
  exists envs, length envs = length cis /\
    session c st cis =
    map (fun p => let r := entry md5 true c (ci_sd (fst p)) (ci_salt (fst p)) (ci_stream (fst p)) (snd p) in
                  (out r, replies r, events r)) (combine cis envs).
Proof.
  induction cis as [|ci r IH]; intros st.
  - exists []. split; reflexivity.
  - cbn [session]. unfold step at 1.
    match goal with |- context [session c ?s r] => destruct (IH s) as [envs [Hl He]] end.
    exists (env_for st ci :: envs). split; [cbn; congruence|].
    cbn [combine map fst snd]. rewrite He. reflexivity.
Qed.
