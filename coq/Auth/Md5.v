(** RFC 1321 MD5 as an executable Gallina function: the concrete instance used to RUN the
    authentication model next to the implementation (whose digest comes from the md-5 crate)
    and in the non-vacuity examples.  No theorem of C09 depends on this file: they are all
    stated for an arbitrary [md5 : bytes -> bytes].  Checked below against the RFC 1321 test
    suite and, on every run of the check, against Python's hashlib through the correspondence. *)
From Coq Require Import ZArith NArith List Bool.
From PV Require Import Auth.Model.
Import ListNotations.
Open Scope N_scope.

Definition M32 : N := 4294967296.
Definition add32 (a b : N) : N := (a + b) mod M32.
Definition not32 (a : N) : N := M32 - 1 - (a mod M32).
Definition rotl32 (x k : N) : N := (N.shiftl x k) mod M32 + N.shiftr (x mod M32) (32 - k).

Definition md5_K : list N := [3614090360; 3905402710; 606105819; 3250441966; 4118548399; 1200080426; 2821735955; 4249261313; 1770035416; 2336552879; 4294925233; 2304563134; 1804603682; 4254626195; 2792965006; 1236535329; 4129170786; 3225465664; 643717713; 3921069994; 3593408605; 38016083; 3634488961; 3889429448; 568446438; 3275163606; 4107603335; 1163531501; 2850285829; 4243563512; 1735328473; 2368359562; 4294588738; 2272392833; 1839030562; 4259657740; 2763975236; 1272893353; 4139469664; 3200236656; 681279174; 3936430074; 3572445317; 76029189; 3654602809; 3873151461; 530742520; 3299628645; 4096336452; 1126891415; 2878612391; 4237533241; 1700485571; 2399980690; 4293915773; 2240044497; 1873313359; 4264355552; 2734768916; 1309151649; 4149444226; 3174756917; 718787259; 3951481745].
Definition md5_S : list N := [7; 12; 17; 22; 7; 12; 17; 22; 7; 12; 17; 22; 7; 12; 17; 22; 5; 9; 14; 20; 5; 9; 14; 20; 5; 9; 14; 20; 5; 9; 14; 20; 4; 11; 16; 23; 4; 11; 16; 23; 4; 11; 16; 23; 4; 11; 16; 23; 6; 10; 15; 21; 6; 10; 15; 21; 6; 10; 15; 21; 6; 10; 15; 21].

(* little-endian 32-bit words *)
Fixpoint words (s : bytes) : list N :=
  match s with
  | a :: b :: c :: d :: r => (a + 256 * (b + 256 * (c + 256 * d))) :: words r
  | _ => []
  end.
Definition le32 (w : N) : bytes := [w mod 256; (w / 256) mod 256; (w / 65536) mod 256; (w / 16777216) mod 256].
Definition le64 (w : N) : bytes := le32 (w mod M32) ++ le32 ((w / M32) mod M32).

Definition md5_pad (m : bytes) : bytes :=
  let l := N.of_nat (length m) in
  let z := (119 - (l mod 64)) mod 64 in      (* zeros so that l + 1 + z = 56 (mod 64) *)
  m ++ [128] ++ repeat 0 (N.to_nat z) ++ le64 (8 * l).

Definition md5_round (M : list N) (i : nat) (st : N * N * N * N) : N * N * N * N :=
  let '(A, B, C, D) := st in
  let ni := N.of_nat i in
  let '(F, g) :=
    if ni <? 16 then (N.lor (N.land B C) (N.land (not32 B) D), ni)
    else if ni <? 32 then (N.lor (N.land D B) (N.land (not32 D) C), (5 * ni + 1) mod 16)
    else if ni <? 48 then (N.lxor B (N.lxor C D), (3 * ni + 5) mod 16)
    else (N.lxor C (N.lor B (not32 D)), (7 * ni) mod 16) in
  let F' := add32 (add32 (add32 F A) (nth i md5_K 0)) (nth (N.to_nat g) M 0) in
  (D, add32 B (rotl32 F' (nth i md5_S 0)), B, C).

Definition md5_block (st : N * N * N * N) (M : list N) : N * N * N * N :=
  let '(a0, b0, c0, d0) := st in
  let '(A, B, C, D) := fold_left (fun s i => md5_round M i s) (seq 0 64) st in
  (add32 a0 A, add32 b0 B, add32 c0 C, add32 d0 D).

Fixpoint chunks16 (fuel : nat) (w : list N) : list (list N) :=
  match fuel with
  | O => []
  | S f => match w with [] => [] | _ => firstn 16 w :: chunks16 f (skipn 16 w) end
  end.

Definition md5 (m : bytes) : bytes :=
  let w := words (md5_pad m) in
  let '(a, b, c, d) := fold_left md5_block (chunks16 (length w) w) (1732584193, 4023233417, 2562383102, 271733878) in
  le32 a ++ le32 b ++ le32 c ++ le32 d.

(* RFC 1321 A.5 test suite *)
Example md5_empty : hex (md5 []) = [100;52;49;100;56;99;100;57;56;102;48;48;98;50;48;52;101;57;56;48;48;57;57;56;101;99;102;56;52;50;55;101].
Proof. vm_compute. reflexivity. Qed.
Example md5_abc : hex (md5 [97;98;99]) = [57;48;48;49;53;48;57;56;51;99;100;50;52;102;98;48;100;54;57;54;51;102;55;100;50;56;101;49;55;102;55;50].
Proof. vm_compute. reflexivity. Qed.
Example md5_long : hex (md5 [49;50;51;52;53;54;55;56;57;48;49;50;51;52;53;54;55;56;57;48;49;50;51;52;53;54;55;56;57;48;49;50;51;52;53;54;55;56;57;48;49;50;51;52;53;54;55;56;57;48;49;50;51;52;53;54;55;56;57;48;49;50;51;52;53;54;55;56;57;48;49;50;51;52;53;54;55;56;57;48]) = [53;55;101;100;102;52;97;50;50;98;101;51;99;57;53;53;97;99;52;57;100;97;50;101;50;49;48;55;98;54;55;97].
Proof. vm_compute. reflexivity. Qed.
