(** C09 — property theorems only.  Each is closed by [exact <lemma>] and audited with
    [Print Assumptions]; the digest [md5] and the build mode [chk] are universally quantified
    everywhere.  The examples at the end run the model on concrete byte streams with the RFC 1321
    instance of coq/Auth/Md5.v and with a toy digest. *)
From Coq Require Import ZArith NArith List Bool.
From PV Require Import Auth.Model Auth.Spec Auth.Proofs Auth.Md5.
Import ListNotations.
Open Scope Z_scope.

(** A client is admitted to a pool only if the (database, user) pair is configured, pgcat is not
    shutting down, and - unless the served entry is a trust entry - the PasswordMessage it sent
    carries PostgreSQL's MD5 answer, for the salt issued on this connection, to a secret pgcat
    holds for that user (configured cleartext password / auth_query hash). *)
Theorem c09_admit_sound : forall md5 chk c sd salt payload rest e db name,
  out (startup md5 chk c sd salt payload rest e) = PoolAdmitted db name ->
  ident payload = IdOk name db /\ sd = false /\ is_admin_db db = false /\ configured c db name /\
  (trust c db name \/
   exists body tail s, read_password chk rest = PwOk body tail /\
     secret_of c e db name s /\ body = expected md5 name s salt).
Proof. exact admit_sound. Qed.
Print Assumptions c09_admit_sound.

(** ... stated on the bytes of the stream: what follows the startup packet IS the frame
    'p' len answer, with answer = pg_md5 for a secret of the user. *)
Theorem c09_admit_sound_frame : forall md5 chk c sd salt payload rest e db name,
  Forall byte_ok (firstn 5 rest) ->
  out (startup md5 chk c sd salt payload rest e) = PoolAdmitted db name ->
  configured c db name /\
  (trust c db name \/
   exists s tail, secret_of c e db name s /\ rest = password_frame (expected md5 name s salt) ++ tail).
Proof. exact admit_sound_frame. Qed.
Print Assumptions c09_admit_sound_frame.

(** The admin database requires the admin credentials (or admin_auth_type = trust). *)
Theorem c09_admin_sound : forall md5 chk c sd salt payload rest e,
  out (startup md5 chk c sd salt payload rest e) = AdminAdmitted ->
  exists name db, ident payload = IdOk name db /\ is_admin_db db = true /\
    (admin_auth c = Trust \/
     exists body tail, read_password chk rest = PwOk body tail /\
       body = pg_md5 md5 (admin_user c) (admin_password c) salt).
Proof. exact admin_sound. Qed.
Print Assumptions c09_admin_sound.

(** Whatever the client sends on the connection (plain, or after an SSLRequest): if it is not
    admitted it never receives AuthenticationOk - only the answer to SSLRequest, the MD5 request,
    an ErrorResponse and the ReadyForQuery that follows it. *)
Theorem c09_no_authok_before : forall md5 chk c sd salt stream e,
  let r := entry md5 chk c sd salt stream e in
  is_admitted (out r) = false -> ~ In RAuthOk (replies r) /\ forallb refusal_reply (replies r) = true.
Proof. exact no_authok_before. Qed.
Print Assumptions c09_no_authok_before.

(** ... and if it is admitted, AuthenticationOk, ParameterStatus*, BackendKeyData, ReadyForQuery
    come last, preceded only by challenges. *)
Theorem c09_authok_after_challenges_only : forall md5 chk c sd salt stream e,
  let r := entry md5 chk c sd salt stream e in
  is_admitted (out r) = true ->
  exists pre, replies r = pre ++ [RAuthOk; RParamStatuses; RBackendKeyData; RReadyForQuery] /\
              forallb pre_auth_reply pre = true.
Proof. exact authok_after_challenges_only. Qed.
Print Assumptions c09_authok_after_challenges_only.

(** Every well-framed answer other than the MD5 answers for the user's secrets is refused. *)
Theorem c09_wrong_response_rejected : forall md5 chk c salt payload rest e name db p u body tail,
  user_login c payload name db p u ->
  rest = password_frame body ++ tail -> blen body + 4 < 2147483648 ->
  (forall s, secret_of c e db name s -> body <> expected md5 name s salt) ->
  let r := startup md5 chk c false salt payload rest e in
  exists w, out r = Rejected w /\
    (w = WInvalidPassword \/ w = WRefetchFailed \/ w = WPassthrough \/ w = WAuthImpossible) /\
    replies r = [RMd5Request salt; RError (EWrongPassword name)].
Proof. exact wrong_response_rejected. Qed.
Print Assumptions c09_wrong_response_rejected.

Theorem c09_wrong_admin_response_rejected : forall md5 chk c sd salt payload rest e name db body tail,
  admin_login c payload name db ->
  rest = password_frame body ++ tail -> blen body + 4 < 2147483648 ->
  body <> pg_md5 md5 (admin_user c) (admin_password c) salt ->
  let r := startup md5 chk c sd salt payload rest e in
  out r = Rejected WInvalidPassword /\ replies r = [RMd5Request salt; RError (EWrongPassword name)].
Proof. exact wrong_admin_response_rejected. Qed.
Print Assumptions c09_wrong_admin_response_rejected.

(** Truncated, extended and replayed answers (exact Vec<u8> equality including the terminator). *)
Theorem c09_truncated_rejected : forall md5 chk c salt payload e name db p u pw k tail,
  user_login c payload name db p u -> cleartext_only p u pw ->
  (k < length (pg_md5 md5 name pw salt))%nat -> blen (pg_md5 md5 name pw salt) + 4 < 2147483648 ->
  let r := startup md5 chk c false salt payload (password_frame (firstn k (pg_md5 md5 name pw salt)) ++ tail) e in
  exists w, out r = Rejected w /\ replies r = [RMd5Request salt; RError (EWrongPassword name)].
Proof. exact truncated_rejected. Qed.
Print Assumptions c09_truncated_rejected.

Theorem c09_extended_rejected : forall md5 chk c salt payload e name db p u pw extra tail,
  user_login c payload name db p u -> cleartext_only p u pw ->
  extra <> [] -> blen (pg_md5 md5 name pw salt ++ extra) + 4 < 2147483648 ->
  let r := startup md5 chk c false salt payload (password_frame (pg_md5 md5 name pw salt ++ extra) ++ tail) e in
  exists w, out r = Rejected w /\ replies r = [RMd5Request salt; RError (EWrongPassword name)].
Proof. exact extended_rejected. Qed.
Print Assumptions c09_extended_rejected.

(** The right answer to ANOTHER salt is refused, provided the digest separates the two inputs it
    is applied to (the only property of MD5 used anywhere) and returns bytes. *)
Theorem c09_replay_rejected : forall md5 chk c salt salt' payload e name db p u pw tail,
  user_login c payload name db p u -> cleartext_only p u pw ->
  (forall x, Forall byte_ok (md5 x)) ->
  md5 (pg_shadow_hash md5 name pw ++ salt') <> md5 (pg_shadow_hash md5 name pw ++ salt) ->
  blen (pg_md5 md5 name pw salt') + 4 < 2147483648 ->
  let r := startup md5 chk c false salt payload (password_frame (pg_md5 md5 name pw salt') ++ tail) e in
  exists w, out r = Rejected w /\ replies r = [RMd5Request salt; RError (EWrongPassword name)].
Proof. exact replay_rejected. Qed.
Print Assumptions c09_replay_rejected.

(** Any first byte other than 'p' where the PasswordMessage is expected: refused, silently. *)
Theorem c09_not_p_rejected : forall md5 chk c sd salt payload e name db code r0,
  code <> 112%N ->
  ((exists p u, sd = false /\ user_login c payload name db p u) \/ admin_login c payload name db) ->
  let r := startup md5 chk c sd salt payload (code :: r0) e in
  out r = Rejected (WExpectedP code) /\ replies r = [RMd5Request salt] /\ events r = [].
Proof. exact not_p_rejected. Qed.
Print Assumptions c09_not_p_rejected.

Theorem c09_silent_rejected : forall md5 chk c sd salt payload e name db,
  ((exists p u, sd = false /\ user_login c payload name db p u) \/ admin_login c payload name db) ->
  let r := startup md5 chk c sd salt payload [] e in
  out r = Rejected (WSocket 0) /\ replies r = [RMd5Request salt] /\ events r = [].
Proof. exact silent_rejected. Qed.
Print Assumptions c09_silent_rejected.

(** A declared PasswordMessage length below 4 (0..3, negative) panics the client's task - in a
    build without overflow checks except for i32::MIN..i32::MIN+3 - and never admits. *)
Theorem c09_short_len_panics : forall md5 chk c sd salt payload e name db a b c0 d r0,
  i32_of a b c0 d < 4 -> (chk = true \/ -2147483644 <= i32_of a b c0 d) ->
  ((exists p u, sd = false /\ user_login c payload name db p u) \/ admin_login c payload name db) ->
  let r := startup md5 chk c sd salt payload (112%N :: a :: b :: c0 :: d :: r0) e in
  out r = TaskPanic /\ replies r = [RMd5Request salt] /\ events r = [].
Proof. exact short_len_panics. Qed.
Print Assumptions c09_short_len_panics.

Theorem c09_short_len_never_admits : forall md5 chk c sd salt payload e a b c0 d r0,
  (forall x, blen (md5 x) < 1000000000) ->
  i32_of a b c0 d < 4 ->
  (forall name db, ident payload = IdOk name db -> is_admin_db db = false -> ~ trust c db name) ->
  (forall name db, ident payload = IdOk name db -> is_admin_db db = true -> admin_auth c = MD5) ->
  is_admitted (out (startup md5 chk c sd salt payload (112%N :: a :: b :: c0 :: d :: r0) e)) = false.
Proof. exact short_len_never_admits. Qed.
Print Assumptions c09_short_len_never_admits.

(** Whatever the startup packet contains, Client::startup panics only on a PasswordMessage length
    (the unterminated-parameter panic of parse_params is gone since 5c1953d). *)
Theorem c09_startup_panic_only_password_len : forall md5 chk c sd salt payload rest e,
  out (startup md5 chk c sd salt payload rest e) = TaskPanic -> read_password chk rest = PwPanic.
Proof. exact startup_panic_only_password_len. Qed.
Print Assumptions c09_startup_panic_only_password_len.

(** While shutting down every non-admin login is refused with the administrator-command error,
    before any lookup, challenge or server contact. *)
Theorem c09_shutdown_gate : forall md5 chk c salt payload rest e name db,
  ident payload = IdOk name db -> is_admin_db db = false ->
  startup md5 chk c true salt payload rest e = mk (Rejected WShuttingDown) [RError EAdminOnly] [] (cached e).
Proof. exact shutdown_gate. Qed.
Print Assumptions c09_shutdown_gate.

Theorem c09_shutdown_no_pool_admission : forall md5 chk c salt stream e db name,
  out (entry md5 chk c true salt stream e) <> PoolAdmitted db name.
Proof. exact shutdown_no_pool_admission. Qed.
Print Assumptions c09_shutdown_no_pool_admission.

(** admin_only on EVERY path of client_entrypoint: whichever way the startup packet arrives (directly, after a
    declined SSLRequest, inside an accepted TLS session) and whatever it and the rest of the stream contain, a
    non-admin startup is refused with the administrator-command error before any challenge, lookup or server
    contact; only what client_entrypoint said about TLS ('S' / 'N') precedes the error. *)
Theorem c09_admin_only_refuses_all_paths : forall md5 chk c salt stream e pre payload rest name db,
  startup_packet_of c e stream = Some (pre, payload, rest) ->
  ident payload = IdOk name db -> is_admin_db db = false ->
  let r := entry md5 chk c true salt stream e in
  out r = Rejected WShuttingDown /\ replies r = pre ++ [RError EAdminOnly] /\ events r = [] /\ cache' r = cached e.
Proof. exact admin_only_refuses_all_paths. Qed.
Print Assumptions c09_admin_only_refuses_all_paths.

(** Conversely, for every byte stream: while admin_only, a challenge or an admission happens only for a startup
    packet naming an admin database. *)
Theorem c09_admin_only_serves_only_admin_db : forall md5 chk c salt stream e,
  let r := entry md5 chk c true salt stream e in
  (is_admitted (out r) = true \/ exists s, In (RMd5Request s) (replies r)) ->
  exists pre payload rest name db,
    startup_packet_of c e stream = Some (pre, payload, rest) /\ ident payload = IdOk name db /\ is_admin_db db = true.
Proof. exact admin_only_serves_only_admin_db. Qed.
Print Assumptions c09_admin_only_serves_only_admin_db.

(** The admin database is served exactly as without admin_only. *)
Theorem c09_admin_only_admin_db_unaffected : forall md5 chk c salt payload rest e name db,
  ident payload = IdOk name db -> is_admin_db db = true ->
  startup md5 chk c true salt payload rest e = startup md5 chk c false salt payload rest e.
Proof. exact admin_only_admin_db_unaffected. Qed.
Print Assumptions c09_admin_only_admin_db_unaffected.

(** Until the decision, the only server contacts are the pooler's own (an auth_query fetch on a
    connection it opens itself, the pool's validation) for a configured pool; nothing carries client
    bytes ([EvClientBytes] is what Client::handle does after admission). *)
Theorem c09_preauth_no_server_contact : forall md5 chk c sd salt stream e,
  Forall (fun x => match x with EvClientBytes _ => False | EvAuthQuery d n | EvValidate d n => configured c d n end)
         (events (entry md5 chk c sd salt stream e)).
Proof. exact events_entry. Qed.
Print Assumptions c09_preauth_no_server_contact.

Theorem c09_preauth_events_of_startup : forall md5 chk c sd salt payload rest e,
  let r := startup md5 chk c sd salt payload rest e in
  match ident payload with
  | IdOk name db => Forall (event_ok c db name) (events r) /\ (is_admin_db db = true -> events r = [])
  | _ => events r = []
  end.
Proof. exact events_startup. Qed.
Print Assumptions c09_preauth_events_of_startup.

(** The configured password is accepted (the refusal theorems are not vacuous). *)
Theorem c09_correct_response_admitted : forall md5 chk c salt payload e name db p u pw tail,
  user_login c payload name db p u -> u_password u = Some pw ->
  blen (pg_md5 md5 name pw salt) + 4 < 2147483648 ->
  validated e = true \/ validate_ok e = true ->
  let r := startup md5 chk c false salt payload (password_frame (pg_md5 md5 name pw salt) ++ tail) e in
  out r = PoolAdmitted db name /\ exists pre, replies r = RMd5Request salt :: auth_tail /\ pre = [RMd5Request salt].
Proof. exact correct_response_admitted. Qed.
Print Assumptions c09_correct_response_admitted.

(** The first packet: a length below 4 panics the task before anything else happens; the task
    allocates len - 4 bytes (up to 2 GiB - 5) for an unauthenticated peer. *)
Theorem c09_first_packet_short_len_panics : forall md5 chk c sd salt a b c0 d r e, i32_of a b c0 d < 4 ->
  entry md5 chk c sd salt (a :: b :: c0 :: d :: r) e = mk TaskPanic [] [] (cached e).
Proof. exact entry_panics_on_short_len. Qed.
Print Assumptions c09_first_packet_short_len_panics.

Theorem c09_first_packet_alloc_bound : forall a b c d r, byte_ok a -> byte_ok b -> byte_ok c -> byte_ok d ->
  0 <= startup_alloc (a :: b :: c :: d :: r) <= 2147483643.
Proof. exact startup_alloc_bound. Qed.
Print Assumptions c09_first_packet_alloc_bound.

(** Admission through client_entrypoint is admission through Client::startup on the startup
    packet found in the stream (directly, or after a refused / accepted SSLRequest). *)
Theorem c09_entry_admitted_via_startup : forall md5 chk c sd salt stream e,
  is_admitted (out (entry md5 chk c sd salt stream e)) = true ->
  exists payload rest, out (entry md5 chk c sd salt stream e) = out (startup md5 chk c sd salt payload rest e) /\
    (get_startup stream = GsOk CtStartup payload rest \/
     exists p0 r0, get_startup stream = GsOk CtTls p0 r0 /\ get_startup r0 = GsOk CtStartup payload rest /\
                   (tls c = true -> tls_ok e = true)).
Proof. exact entry_admitted_via_startup. Qed.
Print Assumptions c09_entry_admitted_via_startup.

(** pgcat's md5_hash_password / md5_hash_second_pass are PostgreSQL's definitions, for any digest. *)
Theorem c09_md5_model_is_pg : forall md5 name pw salt, md5_hash_password md5 name pw salt = pg_md5 md5 name pw salt.
Proof. exact hash_password_eq. Qed.
Print Assumptions c09_md5_model_is_pg.

(** get_pool returns the served entry of the specification. *)
Theorem c09_lookup_is_served : forall c db name p u, get_pool c db name = Some (p, u) -> served c db name p u.
Proof. exact get_pool_served. Qed.
Print Assumptions c09_lookup_is_served.

Theorem c09_served_is_looked_up : forall c db name p u, served c db name p u -> get_pool c db name = Some (p, u).
Proof. exact served_get_pool. Qed.
Print Assumptions c09_served_is_looked_up.

(** ** Non-vacuity and specification validation (concrete runs, [vm_compute]) *)

Definition ex_cfg : cfg :=
  {| admin_user := [97;100;109;105;110]%N; admin_password := [97;100;109;105;110;112;119]%N; admin_auth := MD5;
     pools := [ {| p_name := [100;98;49]%N;
                   p_users := [ {| u_name := [97;108;105;99;101]%N; u_password := Some [97;112;119]%N; u_auth := MD5 |} ];
                   p_aq := false |} ];
     tls := false |}.
Definition ex_cfg_aq : cfg :=
  {| admin_user := [97;100;109;105;110]%N; admin_password := [97;100;109;105;110;112;119]%N; admin_auth := MD5;
     pools := [ {| p_name := [100;98;49]%N;
                   p_users := [ {| u_name := [97;108;105;99;101]%N; u_password := Some [97;112;119]%N; u_auth := MD5 |} ];
                   p_aq := true |} ];
     tls := false |}.
Definition ex_env : auth_env := {| cached := None; fetches := []; validated := false; validate_ok := true; tls_ok := true |}.
Definition ex_salt : bytes := [1;2;3;4]%N.
Definition ex_startup_alice_db1 : bytes := [0; 0; 0; 33; 0; 3; 0; 0; 117; 115; 101; 114; 0; 97; 108; 105; 99; 101; 0; 100; 97; 116; 97; 98; 97; 115; 101; 0; 100; 98; 49; 0; 0]%N.        (* user=alice database=db1 *)
Definition ex_startup_admin_db : bytes := [0; 0; 0; 37; 0; 3; 0; 0; 117; 115; 101; 114; 0; 119; 104; 111; 101; 118; 101; 114; 0; 100; 97; 116; 97; 98; 97; 115; 101; 0; 112; 103; 99; 97; 116; 0; 0]%N.         (* user=whoever database=pgcat *)
Definition alice : bytes := [97;108;105;99;101]%N.
Definition apw : bytes := [97;112;119]%N.
Definition db1 : bytes := [100;98;49]%N.

(** PostgreSQL's answer for user "alice", password "apw", salt 01 02 03 04, computed outside Coq
    (Python hashlib): the specification [pg_md5] with the RFC 1321 digest reproduces it. *)
Example pg_md5_vector : pg_md5 md5 alice apw ex_salt = [109; 100; 53; 51; 51; 57; 51; 50; 56; 54; 54; 101; 101; 56; 100; 52; 102; 102; 50; 57; 54; 57; 49; 97; 55; 54; 51; 99; 51; 54; 99; 100; 97; 98; 52; 0]%N.
Proof. vm_compute. reflexivity. Qed.

(** an admitted run over the whole client_entrypoint model: startup packet, then the right answer *)
Example run_admitted :
  let r := entry md5 true ex_cfg false ex_salt (ex_startup_alice_db1 ++ password_frame (pg_md5 md5 alice apw ex_salt)) ex_env in
  out r = PoolAdmitted db1 alice /\
  replies r = [RMd5Request ex_salt; RAuthOk; RParamStatuses; RBackendKeyData; RReadyForQuery] /\
  events r = [EvValidate db1 alice].
Proof. vm_compute. repeat split. Qed.

(** the same bytes after an SSLRequest that is declined *)
Example run_admitted_after_ssl_request :
  out (entry md5 true ex_cfg false ex_salt ([0;0;0;8;4;210;22;47]%N ++ ex_startup_alice_db1 ++ password_frame (pg_md5 md5 alice apw ex_salt)) ex_env)
  = PoolAdmitted db1 alice.
Proof. vm_compute. reflexivity. Qed.

(** one changed character in the answer *)
Example run_wrong_answer :
  let good := pg_md5 md5 alice apw ex_salt in
  let r := entry md5 true ex_cfg false ex_salt (ex_startup_alice_db1 ++ password_frame (109%N :: 100%N :: 52%N :: skipn 3 good)) ex_env in
  out r = Rejected WRefetchFailed /\ replies r = [RMd5Request ex_salt; RError (EWrongPassword alice)] /\ events r = [].
Proof. vm_compute. repeat split. Qed.

(** the answer to another salt *)
Example run_replay :
  out (entry md5 true ex_cfg false ex_salt (ex_startup_alice_db1 ++ password_frame (pg_md5 md5 alice apw [4;3;2;1]%N)) ex_env)
  = Rejected WRefetchFailed.
Proof. vm_compute. reflexivity. Qed.

(** the same login while shutting down *)
Example run_shutdown :
  let r := entry md5 true ex_cfg true ex_salt (ex_startup_alice_db1 ++ password_frame (pg_md5 md5 alice apw ex_salt)) ex_env in
  out r = Rejected WShuttingDown /\ replies r = [RError EAdminOnly].
Proof. vm_compute. repeat split. Qed.

(** the admin database: any user name, the admin hash - also while shutting down; a pool user's
    own (valid) credentials do not open it *)
Example run_admin :
  out (entry md5 true ex_cfg true ex_salt (ex_startup_admin_db ++ password_frame [109; 100; 53; 57; 51; 53; 56; 102; 100; 49; 53; 102; 48; 100; 56; 54; 50; 51; 55; 101; 48; 98; 52; 49; 56; 49; 51; 100; 55; 50; 57; 50; 98; 102; 50; 0]%N) ex_env) = AdminAdmitted.
Proof. vm_compute. reflexivity. Qed.
Example run_admin_with_user_credentials :
  out (entry md5 true ex_cfg false ex_salt (ex_startup_admin_db ++ password_frame (pg_md5 md5 alice apw ex_salt)) ex_env)
  = Rejected WInvalidPassword.
Proof. vm_compute. reflexivity. Qed.

(** bad lengths *)
Example run_password_len_2 :
  out (entry md5 true ex_cfg false ex_salt (ex_startup_alice_db1 ++ [112;0;0;0;2]%N) ex_env) = TaskPanic.
Proof. vm_compute. reflexivity. Qed.
Example run_password_len_min_release :   (* no overflow checks: i32::MIN - 4 wraps, pgcat waits for 2 GiB, then EOF *)
  out (entry md5 false ex_cfg false ex_salt (ex_startup_alice_db1 ++ [112;128;0;0;0;1;2;3]%N) ex_env) = Rejected (WSocket 2).
Proof. vm_compute. reflexivity. Qed.
Example run_first_packet_len_3 : out (entry md5 true ex_cfg false ex_salt [0;0;0;3]%N ex_env) = TaskPanic.
Proof. vm_compute. reflexivity. Qed.
Example run_first_packet_len_5 : out (entry md5 true ex_cfg false ex_salt [0;0;0;5;0]%N ex_env) = TaskPanic.
Proof. vm_compute. reflexivity. Qed.
Example run_unterminated_parameter :     (* "user\0alice" without a terminator: Err(ClientBadStartup), no panic (5c1953d) *)
  out (entry md5 true ex_cfg false ex_salt [0;0;0;18;0;3;0;0;117;115;101;114;0;97;108;105;99;101]%N ex_env) = Rejected WBadStartup.
Proof. vm_compute. reflexivity. Qed.
Example first_packet_alloc_max : startup_alloc [127;255;255;255]%N = 2147483643.
Proof. vm_compute. reflexivity. Qed.

(** A pool with an auth_query accepts, for a user that ALSO has a cleartext password in the
    configuration, the password the server holds (client.rs:681-716): both are valid secrets. *)
Example run_cleartext_user_server_password :
  let e := {| cached := None; fetches := [Some [51; 55; 50; 51; 97; 57; 55; 55; 56; 53; 99; 49; 49; 102; 97; 54; 101; 56; 56; 98; 48; 102; 102; 98; 99; 57; 98; 54; 48; 54; 57; 54]%N]; validated := true; validate_ok := true; tls_ok := true |} in
  let r := entry md5 true ex_cfg_aq false ex_salt (ex_startup_alice_db1 ++ password_frame [109; 100; 53; 99; 57; 102; 102; 99; 101; 51; 97; 53; 50; 49; 52; 56; 48; 52; 49; 97; 57; 98; 55; 98; 102; 48; 100; 102; 55; 57; 51; 53; 101; 53; 52; 0]%N) e in
  out r = PoolAdmitted db1 alice /\ events r = [EvAuthQuery db1 alice] /\ cache' r = Some [51; 55; 50; 51; 97; 57; 55; 55; 56; 53; 99; 49; 49; 102; 97; 54; 101; 56; 56; 98; 48; 102; 102; 98; 99; 57; 98; 54; 48; 54; 57; 54]%N.
Proof. vm_compute. repeat split. Qed.

(** the theorems do not depend on the digest: a toy digest (first two bytes of the input) *)
Definition toy (x : bytes) : bytes := firstn 2 x.
Example run_admitted_toy :
  out (entry toy true ex_cfg false ex_salt (ex_startup_alice_db1 ++ password_frame (pg_md5 toy alice apw ex_salt)) ex_env)
  = PoolAdmitted db1 alice.
Proof. vm_compute. reflexivity. Qed.
(** ... and the hypothesis of c09_replay_rejected is needed: the toy digest ignores the salt, so
    the answer to another salt IS accepted under it *)
Example replay_hypothesis_needed :
  out (entry toy true ex_cfg false ex_salt (ex_startup_alice_db1 ++ password_frame (pg_md5 toy alice apw [9;9;9;9]%N)) ex_env)
  = PoolAdmitted db1 alice.
Proof. vm_compute. reflexivity. Qed.

(** names are UTF-8 (5c1953d): "Zo" C3 AB is the user Zoe-with-diaeresis as configured; the Latin-1 byte EB
    is not UTF-8 and is decoded to U+FFFD; parameters after an empty name are ignored; a value may be empty *)
Example ident_utf8 : ident [117;115;101;114;0;90;111;195;171;0;0]%N = IdOk [90;111;195;171]%N [90;111;195;171]%N.
Proof. vm_compute. reflexivity. Qed.
Example ident_latin1_is_lossy : ident [117;115;101;114;0;90;111;235;0;0]%N = IdOk [90;111;239;191;189]%N [90;111;239;191;189]%N.
Proof. vm_compute. reflexivity. Qed.
Example ident_stops_at_empty_name :      (* user=alice NUL-name database=db1: database is not read *)
  ident ([117;115;101;114;0]%N ++ alice ++ [0;0;100;97;116;97;98;97;115;101;0]%N ++ db1 ++ [0;0]%N) = IdOk alice alice.
Proof. vm_compute. reflexivity. Qed.
Example ident_empty_value :              (* user=alice database="" *)
  ident ([117;115;101;114;0]%N ++ alice ++ [0;100;97;116;97;98;97;115;101;0;0;0]%N) = IdOk alice [].
Proof. vm_compute. reflexivity. Qed.

(** admin_only inside TLS: the same login that is admitted over TLS is refused over TLS while shutting down,
    after the 'S' and before any challenge; the admin database is still served over TLS *)
Definition ex_cfg_tls : cfg :=
  {| admin_user := admin_user ex_cfg; admin_password := admin_password ex_cfg; admin_auth := MD5; pools := pools ex_cfg; tls := true |}.
Definition ssl_request : bytes := [0;0;0;8;4;210;22;47]%N.
Example run_tls_admitted :
  let r := entry md5 true ex_cfg_tls false ex_salt (ssl_request ++ ex_startup_alice_db1 ++ password_frame (pg_md5 md5 alice apw ex_salt)) ex_env in
  out r = PoolAdmitted db1 alice /\ replies r = [RTlsYes; RMd5Request ex_salt; RAuthOk; RParamStatuses; RBackendKeyData; RReadyForQuery].
Proof. vm_compute. repeat split. Qed.
Example run_tls_shutdown :
  let r := entry md5 true ex_cfg_tls true ex_salt (ssl_request ++ ex_startup_alice_db1 ++ password_frame (pg_md5 md5 alice apw ex_salt)) ex_env in
  out r = Rejected WShuttingDown /\ replies r = [RTlsYes; RError EAdminOnly] /\ events r = [].
Proof. vm_compute. repeat split. Qed.
Example run_declined_ssl_shutdown :
  let r := entry md5 true ex_cfg true ex_salt (ssl_request ++ ex_startup_alice_db1 ++ password_frame (pg_md5 md5 alice apw ex_salt)) ex_env in
  out r = Rejected WShuttingDown /\ replies r = [RTlsNo; RError EAdminOnly].
Proof. vm_compute. repeat split. Qed.
Example run_tls_admin_while_shutdown :
  out (entry md5 true ex_cfg_tls true ex_salt (ssl_request ++ ex_startup_admin_db ++ password_frame (pg_md5 md5 (admin_user ex_cfg) (admin_password ex_cfg) ex_salt)) ex_env)
  = AdminAdmitted.
Proof. vm_compute. reflexivity. Qed.
