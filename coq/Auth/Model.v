(** C09 — executable model of pgcat's client authentication:
    /repo/src/client.rs [client_entrypoint] (119-318), [get_startup] (321-358),
    [startup_tls] (361-416), [Client::startup] (429-789) and the helpers of
    /repo/src/messages.rs [parse_params] (184-216), [parse_startup] (220-230),
    [md5_challenge] (68-88), [md5_hash_password] (233-244), [md5_hash_second_pass]
    (246-259), [wrong_password] (367-401), [error_response(_terminal)] (321-365), and
    /repo/src/auth_passthrough.rs [refetch_auth_hash] (126-138).

    Definitions only (all executable).  Lemmas: Proofs.v; property theorems: Props.v.

    Conventions.
    - [byte := N], [bytes := list byte].  The client's TCP byte stream is a finite list
      followed by EOF: a read past its end is [read_exact]/[read_u8]/[read_i32] returning
      [Err(UnexpectedEof)] (the client closed).  A client that stays silent instead makes the
      task wait forever: no outcome, in particular no admission.
    - Environment, never axioms: the md-5 crate is the [Section] variable [md5]; whether the
      build has integer-overflow checks is [chk] (harness/dev build: true, pgcat's release
      profile: false); the salt [md5_challenge] draws from [rand] is an input; what the
      pooler-originated [auth_query] connection returns, [pool.auth_hash], [pool.validated()]
      and the result of [pool.validate()], and the rustls handshake are fields of [auth_env].
    - Rust panics are explicit outcomes ([TaskPanic]): [vec![0u8; len as usize - 4]] with
      [len < 4] (subtract-with-overflow in a dev build, capacity overflow in release),
      [bytes.get_i32()] past the end of a first packet of 4..7 bytes (bytes-1.4 [Buf] asserts),
      [(len - 4) as usize] with [len < 4] in the password reader. *)
From Coq Require Import ZArith NArith List Bool Lia.
Import ListNotations.
Open Scope Z_scope.

Definition byte := N.
Definition bytes := list byte.

Fixpoint bytes_eqb (a b : bytes) : bool :=
  match a, b with
  | [], [] => true
  | x :: a', y :: b' => (x =? y)%N && bytes_eqb a' b'
  | _, _ => false
  end.

Definition blen (s : bytes) : Z := Z.of_nat (length s).

(** [i32::from_be_bytes] (tokio [read_i32], [Buf::get_i32]) *)
Definition i32_of (a b c d : byte) : Z :=
  let u := ((Z.of_N a * 256 + Z.of_N b) * 256 + Z.of_N c) * 256 + Z.of_N d in
  if u <? 2147483648 then u else u - 4294967296.

(** [read_exact] of [n >= 0] bytes: [None] = EOF before [n] bytes arrived.  The comparison is
    done in [Z] so that a 2 GiB length never becomes a unary [nat]. *)
Definition read_exact (n : Z) (s : bytes) : option (bytes * bytes) :=
  if n <=? blen s then Some (firstn (Z.to_nat n) s, skipn (Z.to_nat n) s) else None.

(** ** ASCII constants *)
Definition s_user : bytes := [117; 115; 101; 114]%N.
Definition s_database : bytes := [100; 97; 116; 97; 98; 97; 115; 101]%N.
Definition s_pgcat : bytes := [112; 103; 99; 97; 116]%N.
Definition s_pgbouncer : bytes := [112; 103; 98; 111; 117; 110; 99; 101; 114]%N.
Definition s_md5 : bytes := [109; 100; 53]%N.
Definition hex_table : bytes := [48; 49; 50; 51; 52; 53; 54; 55; 56; 57; 97; 98; 99; 100; 101; 102]%N.

(** ** The first packet: [get_startup] (client.rs:321-358) *)

Inductive conn_type := CtTls | CtStartup | CtCancel.

Inductive gs_result :=
| GsOk (t : conn_type) (payload rest : bytes)   (* payload: the packet after the 4-byte code *)
| GsBadStartup                                  (* Error::ClientBadStartup: EOF *)
| GsProtocolSync                                (* unexpected startup code *)
| GsPanic.

Definition SSL_REQUEST_CODE := 80877103.
Definition PROTOCOL_VERSION_NUMBER := 196608.
Definition CANCEL_REQUEST_CODE := 80877102.

Definition get_startup (s : bytes) : gs_result :=
  match s with
  | a :: b :: c :: d :: r =>
    let len := i32_of a b c d in
    (* client.rs:332 [vec![0u8; len as usize - 4]]: len in 0..3 underflows usize (dev: panic
       "attempt to subtract with overflow"; release: wraps to > isize::MAX => "capacity
       overflow"); len < 0 sign-extends to >= 2^64 - 2^31 => "capacity overflow". *)
    if len <? 4 then GsPanic
    else match read_exact (len - 4) r with
         | None => GsBadStartup                                   (* client.rs:333-336 *)
         | Some (a' :: b' :: c' :: d' :: payload, rest) =>
           let code := i32_of a' b' c' d' in                      (* client.rs:339 *)
           if code =? SSL_REQUEST_CODE then GsOk CtTls payload rest
           else if code =? PROTOCOL_VERSION_NUMBER then GsOk CtStartup payload rest
           else if code =? CANCEL_REQUEST_CODE then GsOk CtCancel payload rest
           else GsProtocolSync
         | Some (_, _) => GsPanic        (* len in 4..7: [bytes.get_i32()] on < 4 bytes *)
         end
  | _ => GsBadStartup                                             (* client.rs:326-329 *)
  end.

(** Bytes the task allocates (zeroed) for the first packet before anything is known about the
    peer: [len - 4], for every [4 <= len <= i32::MAX]. *)
Definition startup_alloc (s : bytes) : Z :=
  match s with
  | a :: b :: c :: d :: _ => let len := i32_of a b c d in if len <? 4 then 0 else len - 4
  | _ => 0
  end.

(** ** [parse_params] / [parse_startup] (messages.rs:184-230, as of commit 5c1953d) *)

(** [String::from_utf8_lossy] (core::str::lossy::Utf8Chunks): every maximal invalid prefix of an
    ill-formed sequence becomes U+FFFD (EF BF BD); valid UTF-8 is unchanged.  (Same definition as
    the one coq/Prep/Codec.v validates against the real decoder; copied so that this directory
    does not depend on another property's files.) *)
Definition cont (b : byte) : bool := ((128 <=? b) && (b <=? 191))%N.
Definition REPL : bytes := [239; 191; 189]%N.
Definition ok3 (b c : byte) : bool :=
  (if b =? 224 then (160 <=? c) && (c <=? 191)
   else if b =? 237 then (128 <=? c) && (c <=? 159)
   else (128 <=? c) && (c <=? 191))%N.
Definition ok4 (b c : byte) : bool :=
  (if b =? 240 then (144 <=? c) && (c <=? 191)
   else if b =? 244 then (128 <=? c) && (c <=? 143)
   else (128 <=? c) && (c <=? 191))%N.

Fixpoint utf8_lossy (s : bytes) : bytes :=
  match s with
  | [] => []
  | b :: r =>
    if (b <? 128)%N then b :: utf8_lossy r
    else if ((194 <=? b) && (b <=? 223))%N then
      match r with
      | c1 :: r1 => if cont c1 then b :: c1 :: utf8_lossy r1 else REPL ++ utf8_lossy r
      | [] => REPL
      end
    else if ((224 <=? b) && (b <=? 239))%N then
      match r with
      | c1 :: r1 =>
        if ok3 b c1 then
          match r1 with
          | c2 :: r2 => if cont c2 then b :: c1 :: c2 :: utf8_lossy r2 else REPL ++ utf8_lossy r1
          | [] => REPL
          end
        else REPL ++ utf8_lossy r
      | [] => REPL
      end
    else if ((240 <=? b) && (b <=? 244))%N then
      match r with
      | c1 :: r1 =>
        if ok4 b c1 then
          match r1 with
          | c2 :: r2 =>
            if cont c2 then
              match r2 with
              | c3 :: r3 => if cont c3 then b :: c1 :: c2 :: c3 :: utf8_lossy r3 else REPL ++ utf8_lossy r2
              | [] => REPL
              end
            else REPL ++ utf8_lossy r1
          | [] => REPL
          end
        else REPL ++ utf8_lossy r
      | [] => REPL
      end
    else REPL ++ utf8_lossy r
  end.

(** [read_cstring] (messages.rs:189-197): the bytes up to the first NUL, decoded; [None] = no
    terminator = [Err(ClientBadStartup)] (no panic any more). *)
Fixpoint split0 (s : bytes) : option (bytes * bytes) :=
  match s with
  | [] => None
  | c :: r => if (c =? 0)%N then Some ([], r)
              else match split0 r with Some (p, q) => Some (c :: p, q) | None => None end
  end.

Definition read_cstring (s : bytes) : option (bytes * bytes) :=
  match split0 s with Some (p, r) => Some (utf8_lossy p, r) | None => None end.

(** messages.rs:199-208: name, value, name, value, ...; the list ends at the first empty name or at
    the end of the bytes; a value may be empty.  [acc] is reversed.  [None] = [Err]. *)
Fixpoint params_loop (fuel : nat) (s : bytes) (acc : list (bytes * bytes)) : option (list (bytes * bytes)) :=
  match fuel with
  | O => Some (rev acc)
  | S f =>
    match s with
    | [] => Some (rev acc)                                   (* !bytes.has_remaining() *)
    | _ =>
      match read_cstring s with
      | None => None
      | Some ([], _) => Some (rev acc)                       (* name.is_empty() => break *)
      | Some (name, r) =>
        match read_cstring r with
        | None => None
        | Some (v, r') => params_loop f r' ((name, v) :: acc)
        end
      end
    end
  end.

Definition parse_params (payload : bytes) : option (list (bytes * bytes)) :=
  match params_loop (length payload) payload [] with
  | None => None
  | Some [] => None                                          (* messages.rs:211: at least one pair *)
  | Some l => Some l
  end.

(** [HashMap::insert] in order: the last occurrence of a key wins. *)
Fixpoint lookup (k : bytes) (l : list (bytes * bytes)) : option bytes :=
  match l with
  | [] => None
  | (k', v) :: r =>
    match lookup k r with
    | Some x => Some x
    | None => if bytes_eqb k k' then Some v else None
    end
  end.

Inductive ps_result := PsOk (params : list (bytes * bytes)) | PsBadStartup.

Definition parse_startup (payload : bytes) : ps_result :=
  match parse_params payload with
  | None => PsBadStartup
  | Some l =>
    match lookup s_user l with
    | None => PsBadStartup                                   (* messages.rs:225 *)
    | Some _ => PsOk l
    end
  end.

(** client.rs:438-458: who the client claims to be.  [database] defaults to the user name. *)
Inductive id_result := IdOk (name db : bytes) | IdBadStartup | IdMissingUser.

Definition ident (payload : bytes) : id_result :=
  match parse_startup payload with
  | PsBadStartup => IdBadStartup
  | PsOk params =>
    match lookup s_user params with
    | None => IdMissingUser                     (* client.rs:441-448 (dead: parse_startup checked) *)
    | Some name => IdOk name (match lookup s_database params with Some d => d | None => name end)
    end
  end.

(** ** Configuration (config.rs General / Pool / User, as consulted by Client::startup) *)

Inductive auth_type := Trust | MD5.

Record user := { u_name : bytes; u_password : option bytes; u_auth : auth_type }.

Record pool := {
  p_name : bytes;
  p_users : list user;        (* [users.0], [users.1], ... in key order *)
  p_aq : bool                 (* Pool::is_auth_query_configured (config.rs:644): AuthPassthrough exists *)
}.

Record cfg := {
  admin_user : bytes;
  admin_password : bytes;
  admin_auth : auth_type;     (* general.admin_auth_type *)
  pools : list pool;
  tls : bool                  (* general.tls_certificate.is_some() *)
}.

(** Config::is_auth_query_configured (config.rs:1129): ANY pool has it. *)
Definition cfg_aq (c : cfg) : bool := existsb p_aq (pools c).

Fixpoint find_pool (db : bytes) (ps : list pool) : option pool :=
  match ps with
  | [] => None
  | p :: r => if bytes_eqb db (p_name p) then Some p else find_pool db r
  end.

(** [new_pools.insert(PoolIdentifier::new(pool_name, &user.username), pool)] in the order of
    [pool_config.users.values()] (pool.rs:322,614): the last user entry with that name wins. *)
Fixpoint find_user (name : bytes) (us : list user) : option user :=
  match us with
  | [] => None
  | u :: r =>
    match find_user name r with
    | Some x => Some x
    | None => if bytes_eqb name (u_name u) then Some u else None
    end
  end.

(** [get_pool(pool_name, username)] (pool.rs:1258) *)
Definition get_pool (c : cfg) (db name : bytes) : option (pool * user) :=
  match find_pool db (pools c) with
  | None => None
  | Some p => match find_user name (p_users p) with None => None | Some u => Some (p, u) end
  end.

Definition is_admin_db (db : bytes) : bool := bytes_eqb db s_pgcat || bytes_eqb db s_pgbouncer.

(** ** Environment of one startup *)

Record auth_env := {
  cached : option bytes;              (* [*pool.auth_hash.read()] when the startup runs *)
  fetches : list (option bytes);      (* results of the successive [AuthPassthrough::fetch_hash] runs this
                                         startup performs ([None]: connection/query failed, no row, other
                                         user, not "md5..."); the value is the hash WITHOUT the "md5" prefix *)
  validated : bool;                   (* pool.validated() *)
  validate_ok : bool;                 (* pool.validate() reaches at least one server *)
  tls_ok : bool                       (* Tls::new() and the rustls handshake succeed *)
}.

Definition next_fetch (fs : list (option bytes)) : option bytes * list (option bytes) :=
  match fs with [] => (None, []) | f :: r => (f, r) end.

(** ** Observables *)

Inductive errkind :=
| EAdminOnly                         (* 58000 "terminating connection due to administrator command" *)
| ENoPool (db name : bytes)          (* 58000 "No pool configured for database: .., user: .." *)
| EWrongPassword (name : bytes)      (* 28P01 "password authentication failed for user .." *)
| EPoolDown (db name : bytes).       (* 58000 "Pool down for database: .., user: .." *)

Inductive reply :=
| RTlsNo                             (* the byte 'N' *)
| RTlsYes                            (* the byte 'S' *)
| RMd5Request (salt : bytes)         (* AuthenticationMD5Password *)
| RError (k : errkind)
| RReadyForQuery
| RAuthOk
| RParamStatuses                     (* the block of ParameterStatus messages *)
| RBackendKeyData.

Inductive why :=
| WBadStartup | WProtocolSync | WMissingUser | WShuttingDown
| WSocket (stage : nat)              (* 0: password code, 1: length, 2: body *)
| WExpectedP (code : byte)
| WInvalidPassword | WNoPool | WAuthImpossible | WPassthrough | WRefetchFailed | WPoolDown | WTls.

Inductive outcome :=
| PoolAdmitted (db name : bytes)
| AdminAdmitted
| Rejected (w : why)
| TaskPanic
| CancelRequest.                     (* Client::cancel: not a login; C10 *)

(** What the pooler does towards servers during a startup.  [EvClientBytes] is what
    [Client::handle] does after admission; [startup] never emits it. *)
Inductive event :=
| EvAuthQuery (db name : bytes)      (* refetch_auth_hash: own connection as auth_query_user, runs the configured auth_query for [name] *)
| EvValidate (db name : bytes)       (* pool.validate(): opens the pool's own server connections *)
| EvClientBytes (b : bytes).

Record result := {
  out : outcome;
  replies : list reply;
  events : list event;
  cache' : option bytes               (* pool.auth_hash afterwards *)
}.

Definition auth_tail : list reply := [RAuthOk; RParamStatuses; RBackendKeyData; RReadyForQuery].

(** ** The password message reader (client.rs:498-536 = 589-627) *)

Inductive pw_result :=
| PwOk (body rest : bytes)
| PwSocket (stage : nat)
| PwNotP (code : byte)
| PwPanic.

Section Env.
Variable md5 : bytes -> bytes.        (* the md-5 crate: digest of a byte string *)
Variable chk : bool.                  (* overflow-checks *)

Definition read_password (s : bytes) : pw_result :=
  match s with
  | [] => PwSocket 0
  | code :: r =>
    if negb (code =? 112)%N then PwNotP code                 (* [code as char != 'p'] *)
    else match r with
         | a :: b :: c :: d :: r2 =>
           let len := i32_of a b c d in
           (* [vec![0u8; (len - 4) as usize]]: i32 subtraction, then a sign-extending cast *)
           if len - 4 <? -2147483648
           then (if chk then PwPanic                           (* attempt to subtract with overflow *)
                 else match read_exact (len - 4 + 4294967296) r2 with
                      | None => PwSocket 2
                      | Some (body, rest) => PwOk body rest
                      end)
           else if len - 4 <? 0 then PwPanic                   (* capacity overflow *)
           else match read_exact (len - 4) r2 with
                | None => PwSocket 2
                | Some (body, rest) => PwOk body rest
                end
         | _ => PwSocket 1
         end
  end.

(** ** MD5 (messages.rs:233-259).  [format!("{:x}", digest)]: two lower-case hex digits per byte. *)

Definition hex_digit (n : N) : byte := nth (N.to_nat (n mod 16)) hex_table 0%N.
Fixpoint hex (s : bytes) : bytes :=
  match s with
  | [] => []
  | b :: r => hex_digit (b / 16) :: hex_digit b :: hex r
  end.

Definition md5_hash_second_pass (hash salt : bytes) : bytes :=
  s_md5 ++ hex (md5 (hash ++ salt)) ++ [0%N].

Definition md5_hash_password (name password salt : bytes) : bytes :=
  md5_hash_second_pass (hex (md5 (password ++ name))) salt.

(** ** Client::startup (client.rs:429-789) *)

Definition mk (o : outcome) (rs : list reply) (ev : list event) (c : option bytes) : result :=
  {| out := o; replies := rs; events := ev; cache' := c |}.

(** client.rs:719-753: validate the pool if needed, then AuthenticationOk etc. *)
Definition finish_user (e : auth_env) (db name : bytes) (pre : list reply) (ev : list event)
           (c : option bytes) : result :=
  if validated e then mk (PoolAdmitted db name) (pre ++ auth_tail) ev c
  else if validate_ok e then mk (PoolAdmitted db name) (pre ++ auth_tail) (ev ++ [EvValidate db name]) c
  else mk (Rejected WPoolDown) (pre ++ [RError (EPoolDown db name); RReadyForQuery]) (ev ++ [EvValidate db name]) c.

(** [refetch_auth_hash(&pool)]: contacts a server only if the pool has an AuthPassthrough. *)
Definition refetch (p : pool) (db name : bytes) (fs : list (option bytes))
  : option bytes * list (option bytes) * list event :=
  if p_aq p then let '(h, fs') := next_fetch fs in (h, fs', [EvAuthQuery db name])
  else (None, fs, []).

Definition user_md5 (c : cfg) (e : auth_env) (p : pool) (u : user) (db name salt rest : bytes) : result :=
  let pre := [RMd5Request salt] in
  let wrong := pre ++ [RError (EWrongPassword name)] in
  match read_password rest with
  | PwSocket st => mk (Rejected (WSocket st)) pre [] (cached e)
  | PwNotP code => mk (Rejected (WExpectedP code)) pre [] (cached e)
  | PwPanic => mk TaskPanic pre [] (cached e)
  | PwOk body _ =>
    (* second: the comparison value; [None] = an early return *)
    match u_password u with
    | Some pw =>
      (* client.rs:629-630 *)
      if bytes_eqb (md5_hash_password name pw salt) body
      then finish_user e db name pre [] (cached e)
      else (* client.rs:681-716: ONE refetch, also for a cleartext user *)
        let '(h, _, ev) := refetch p db name (fetches e) in
        match h with
        | None => mk (Rejected WRefetchFailed) wrong ev (cached e)
        | Some h' =>
          if bytes_eqb (md5_hash_second_pass h' salt) body
          then finish_user e db name pre ev (Some h')
          else mk (Rejected WInvalidPassword) wrong ev (cached e)
        end
    | None =>
      if negb (cfg_aq c) then mk (Rejected WAuthImpossible) wrong [] (cached e)     (* client.rs:632-635 *)
      else
        (* client.rs:637-671 *)
        let first :=
          match cached e with
          | Some h => (Some h, fetches e, [], cached e)
          | None => let '(h, fs, ev) := refetch p db name (fetches e) in
                    (h, fs, ev, match h with Some _ => h | None => cached e end)
          end in
        let '(h0, fs1, ev1, c1) := first in
        match h0 with
        | None => mk (Rejected WPassthrough) wrong ev1 c1
        | Some h =>
          if bytes_eqb (md5_hash_second_pass h salt) body
          then finish_user e db name pre ev1 c1
          else
            let '(h2, _, ev2) := refetch p db name fs1 in
            match h2 with
            | None => mk (Rejected WRefetchFailed) wrong (ev1 ++ ev2) c1
            | Some h' =>
              if bytes_eqb (md5_hash_second_pass h' salt) body
              then finish_user e db name pre (ev1 ++ ev2) (Some h')
              else mk (Rejected WInvalidPassword) wrong (ev1 ++ ev2) c1
            end
        end
    end
  end.

Definition admin_md5 (c : cfg) (e : auth_env) (name salt rest : bytes) : result :=
  let pre := [RMd5Request salt] in
  match read_password rest with
  | PwSocket st => mk (Rejected (WSocket st)) pre [] (cached e)
  | PwNotP code => mk (Rejected (WExpectedP code)) pre [] (cached e)
  | PwPanic => mk TaskPanic pre [] (cached e)
  | PwOk body _ =>
    (* client.rs:539-553: the hash is over admin_username, whatever [user] the client named *)
    if bytes_eqb (md5_hash_password (admin_user c) (admin_password c) salt) body
    then mk AdminAdmitted (pre ++ auth_tail) [] (cached e)
    else mk (Rejected WInvalidPassword) (pre ++ [RError (EWrongPassword name)]) [] (cached e)
  end.

(** [payload]: the startup packet after the protocol number; [rest]: everything the client
    sends after the startup packet. *)
Definition startup (c : cfg) (shutting_down : bool) (salt : bytes) (payload rest : bytes)
           (e : auth_env) : result :=
  match ident payload with
  | IdBadStartup => mk (Rejected WBadStartup) [] [] (cached e)
  | IdMissingUser => mk (Rejected WMissingUser) [] [] (cached e)
  | IdOk name db =>
    let admin := is_admin_db db in                                 (* client.rs:462-466 *)
    if negb admin && shutting_down                                 (* client.rs:468-480 *)
    then mk (Rejected WShuttingDown) [RError EAdminOnly] [] (cached e)
    else if admin then
      match admin_auth c with
      | Trust => mk AdminAdmitted auth_tail [] (cached e)
      | MD5 => admin_md5 c e name salt rest
      end
    else
      match get_pool c db name with
      | None => mk (Rejected WNoPool) [RError (ENoPool db name); RReadyForQuery] [] (cached e)
      | Some (p, u) =>
        match u_auth u with
        | Trust => finish_user e db name [] [] (cached e)
        | MD5 => user_md5 c e p u db name salt rest
        end
      end
  end.

(** ** client_entrypoint (client.rs:119-318) and startup_tls (361-416).
    [stream] is everything the client sends on the TCP connection; after an accepted
    SSLRequest the remainder is what rustls delivers as plaintext (TLS itself is environment). *)

Definition prepend (rs : list reply) (r : result) : result :=
  mk (out r) (rs ++ replies r) (events r) (cache' r).

Definition entry (c : cfg) (shutting_down : bool) (salt : bytes) (stream : bytes) (e : auth_env) : result :=
  match get_startup stream with
  | GsPanic => mk TaskPanic [] [] (cached e)
  | GsBadStartup => mk (Rejected WBadStartup) [] [] (cached e)
  | GsProtocolSync => mk (Rejected WProtocolSync) [] [] (cached e)
  | GsOk CtCancel _ _ => mk CancelRequest [] [] (cached e)
  | GsOk CtStartup payload rest => startup c shutting_down salt payload rest e
  | GsOk CtTls _ rest =>
    if tls c then
      if tls_ok e then
        match get_startup rest with                                (* client.rs:391-415 *)
        | GsPanic => mk TaskPanic [RTlsYes] [] (cached e)
        | GsBadStartup => mk (Rejected WBadStartup) [RTlsYes] [] (cached e)
        | GsProtocolSync => mk (Rejected WProtocolSync) [RTlsYes] [] (cached e)
        | GsOk CtStartup payload rest' => prepend [RTlsYes] (startup c shutting_down salt payload rest' e)
        | GsOk _ _ _ => mk (Rejected WProtocolSync) [RTlsYes] [] (cached e)
        end
      else mk (Rejected WTls) [RTlsYes] [] (cached e)
    else
      match get_startup rest with                                  (* client.rs:187-238 *)
      | GsPanic => mk TaskPanic [RTlsNo] [] (cached e)
      | GsBadStartup => mk (Rejected WBadStartup) [RTlsNo] [] (cached e)
      | GsProtocolSync => mk (Rejected WProtocolSync) [RTlsNo] [] (cached e)
      | GsOk CtStartup payload rest' => prepend [RTlsNo] (startup c shutting_down salt payload rest' e)
      | GsOk _ _ _ => mk (Rejected WProtocolSync) [RTlsNo] [] (cached e)
      end
  end.

End Env.

(** The (outcome, replies) view asked for by the design. *)
Definition startup_or md5 chk c sd salt payload rest e : outcome * list reply :=
  let r := startup md5 chk c sd salt payload rest e in (out r, replies r).
