(** C05 — specification side: what a "plain read" is, stated over the flattened statement
    (a "for every node" formulation, independent of the recursive walk in Model.v). *)
From Coq Require Import List Bool Arith.
From PV Require Import Route.Model.
Import ListNotations.

(** All Query nodes of a query: itself, its CTEs, its sub-queries (FROM / expressions), the
    parenthesised arms of its body — recursively. *)
Fixpoint qnodes (q : query) : list query :=
  match q with
  | MkQuery ctes subs b lk => q :: flat_map qnodes ctes ++ flat_map qnodes subs ++ bnodes b
  end
with bnodes (b : body) : list query :=
  match b with
  | BSetOp l r => bnodes l ++ bnodes r
  | BNested q => qnodes q
  | _ => []
  end.

(** The SELECT / VALUES / INSERT / UPDATE / TABLE arms that belong to one Query node itself
    (through set operations; a parenthesised arm is a node of its own). *)
Fixpoint leaves (b : body) : list body :=
  match b with
  | BSetOp l r => leaves l ++ leaves r
  | BNested _ => []
  | x => [x]
  end.

(** An arm that only reads: SELECT without INTO, VALUES, TABLE. *)
Definition leaf_reads (b : body) : bool :=
  match b with
  | BSelect into => negb into
  | BValues | BTable => true
  | _ => false
  end.

(** A node is harmless: no FOR UPDATE/SHARE clause and every arm only reads. *)
Definition node_reads (q : query) : bool :=
  negb (q_locks q) && forallb leaf_reads (leaves (q_body q)).

(** A plain read: a Query statement in which no node, at any depth, locks rows, inserts,
    updates or SELECTs INTO a table (data-modifying CTEs are nodes with an Insert/Update
    arm).  Transaction starts and every other statement kind are not plain reads. *)
Definition plain_query (q : query) : bool := forallb node_reads (qnodes q).

Definition plain_read (s : stmt) : bool :=
  match s with SQuery q => plain_query q | _ => false end.

Definition has_non_plain (ss : list stmt) : bool := existsb (fun s => negb (plain_read s)) ss.

(** the statements executed by an extended-protocol batch contain a non-plain-read *)
Definition batch_has_write (g : ghost) (b : list bmsg) : bool :=
  existsb (fun o => match o with Some ss => has_non_plain ss | None => false end) (batch_bound g b).

(** no activity pin: the feature is off or both caches are cold *)
Definition is_quiet (act : activity) : Prop := a_init act = false /\ forall i, a_hot act i = false.

(** * Concrete statements used by the Examples and the refutation witness *)
Definition cfg_split (preads : bool) : settings :=
  {| s_parser := true; s_splitting := true; s_primary_reads := preads; s_default_role := None; s_plugins := false |}.
Definition st_replica : rstate := {| active_role := Some Replica; o_parser := None; o_preads := None |}.

Definition sel : query := MkQuery [] [] (BSelect false) false.                 (* SELECT 1 *)
Definition sel_for_update : query := MkQuery [] [] (BSelect false) true.       (* SELECT .. FOR UPDATE *)
Definition sel_into : query := MkQuery [] [] (BSelect true) false.             (* SELECT * INTO t2 FROM t *)
Definition insert_cte : query :=                                               (* WITH x AS (INSERT .. RETURNING ..) SELECT .. FROM x *)
  MkQuery [MkQuery [] [] BInsert false] [] (BSelect false) false.
Definition paren_lock : query := MkQuery [] [] (BNested sel_for_update) false. (* (SELECT .. FOR UPDATE) *)
Definition cte_lock : query := MkQuery [sel_for_update] [] (BSelect false) false. (* WITH x AS (SELECT .. FOR UPDATE) SELECT .. *)
Definition derived_lock : query := MkQuery [] [sel_for_update] (BSelect false) false. (* SELECT * FROM (SELECT .. FOR UPDATE) s *)
Definition union_into : query := MkQuery [] [] (BSetOp (BSelect true) (BSelect false)) false. (* SELECT * INTO t2 FROM t UNION SELECT .. *)
Definition with_insert : query := MkQuery [sel] [] BInsert false.              (* WITH x AS (SELECT 1) INSERT INTO t SELECT * FROM x *)
Definition read_cte_union : query :=                                           (* WITH x AS (SELECT 1) (SELECT ..) UNION VALUES (1) *)
  MkQuery [sel] [sel] (BSetOp (BNested sel) BValues) false.

(* the same pool with a [plugins] section: sessions stay parsed after SET SERVER ROLE *)
Definition cfg_plug (preads : bool) : settings :=
  {| s_parser := true; s_splitting := true; s_primary_reads := preads; s_default_role := None; s_plugins := true |}.

Definition role_after (preads : bool) (ss : list stmt) : option role :=
  active_role (fst (infer (cfg_split preads) st_replica ss)).

Definition st_primary : rstate := {| active_role := Some Primary; o_parser := None; o_preads := None |}.
