(** C05 — lemmas.  Property theorems are restated in Props.v. *)
From Coq Require Import List Bool Arith Lia.
From PV Require Import Route.Model Route.Spec.
Import ListNotations.

(** * Induction over the nested / mutual AST *)
Section QueryInd.
  Variable P : query -> Prop.
  Variable Pb : body -> Prop.
  Hypothesis Hq : forall ctes subs b lk, Forall P ctes -> Forall P subs -> Pb b -> P (MkQuery ctes subs b lk).
  Hypothesis Hsel : forall into, Pb (BSelect into).
  Hypothesis Hins : Pb BInsert.
  Hypothesis Hupd : Pb BUpdate.
  Hypothesis Hval : Pb BValues.
  Hypothesis Htab : Pb BTable.
  Hypothesis Hset : forall l r, Pb l -> Pb r -> Pb (BSetOp l r).
  Hypothesis Hnest : forall q, P q -> Pb (BNested q).

  Fixpoint query_ind2 (q : query) : P q :=
    match q with
    | MkQuery ctes subs b lk =>
        Hq ctes subs b lk
           ((fix go (l : list query) : Forall P l :=
               match l with [] => Forall_nil P | x :: r => Forall_cons x (query_ind2 x) (go r) end) ctes)
           ((fix go (l : list query) : Forall P l :=
               match l with [] => Forall_nil P | x :: r => Forall_cons x (query_ind2 x) (go r) end) subs)
           (body_ind2 b)
    end
  with body_ind2 (b : body) : Pb b :=
    match b with
    | BSelect i => Hsel i
    | BInsert => Hins
    | BUpdate => Hupd
    | BValues => Hval
    | BTable => Htab
    | BSetOp l r => Hset l r (body_ind2 l) (body_ind2 r)
    | BNested q => Hnest q (query_ind2 q)
    end.

  Lemma query_body_ind : (forall q, P q) /\ (forall b, Pb b).
  Proof. split; [exact query_ind2 | exact body_ind2]. Qed.
End QueryInd.

(** * The code's recursive "writes" test is the specification's "some node is not harmless" *)

Definition leaf_bad (b : body) : bool := negb (leaf_reads b).
Definition node_bad (q : query) : bool := q_locks q || existsb leaf_bad (leaves (q_body q)).

Lemma negb_forallb {A} (f : A -> bool) l : negb (forallb f l) = existsb (fun x => negb (f x)) l.
Proof. induction l as [|x r IH]; simpl; [reflexivity|]. rewrite negb_andb, IH. reflexivity. Qed.

Lemma node_reads_bad q : node_reads q = negb (node_bad q).
Proof.
  unfold node_reads, node_bad, leaf_bad. rewrite negb_orb, <- negb_forallb, negb_involutive. reflexivity.
Qed.

Lemma existsb_flat_map {A B} (p : B -> bool) (g : A -> list B) (f : A -> bool) l :
  Forall (fun x => f x = existsb p (g x)) l -> existsb f l = existsb p (flat_map g l).
Proof.
  induction 1 as [|x r Hx _ IH]; simpl; [reflexivity|]. rewrite existsb_app, Hx, IH. reflexivity.
Qed.

Lemma writes_spec :
  (forall q, q_writes q = existsb node_bad (qnodes q)) /\
  (forall b, b_writes b = existsb leaf_bad (leaves b) || existsb node_bad (bnodes b)).
Proof.
  apply query_body_ind.
  - intros ctes subs b lk Hc Hs Hb.
    change (q_writes (MkQuery ctes subs b lk))
      with (lk || existsb q_writes ctes || existsb q_writes subs || b_writes b).
    change (qnodes (MkQuery ctes subs b lk))
      with (MkQuery ctes subs b lk :: flat_map qnodes ctes ++ flat_map qnodes subs ++ bnodes b).
    rewrite (existsb_flat_map node_bad qnodes q_writes ctes Hc).
    rewrite (existsb_flat_map node_bad qnodes q_writes subs Hs).
    rewrite Hb. cbn [existsb]. rewrite !existsb_app.
    change (node_bad (MkQuery ctes subs b lk)) with (lk || existsb leaf_bad (leaves b)).
    set (A := existsb node_bad (flat_map qnodes ctes)). set (B := existsb node_bad (flat_map qnodes subs)).
    set (C := existsb leaf_bad (leaves b)). set (D := existsb node_bad (bnodes b)).
    clearbody A B C D. destruct lk, A, B, C, D; reflexivity.
  - intros into. simpl. unfold leaf_bad. simpl. rewrite negb_involutive. destruct into; reflexivity.
  - reflexivity.
  - reflexivity.
  - reflexivity.
  - reflexivity.
  - intros l r Hl Hr.
    change (b_writes (BSetOp l r)) with (b_writes l || b_writes r).
    change (leaves (BSetOp l r)) with (leaves l ++ leaves r).
    change (bnodes (BSetOp l r)) with (bnodes l ++ bnodes r).
    rewrite Hl, Hr, !existsb_app.
    destruct (existsb leaf_bad (leaves l)), (existsb node_bad (bnodes l)),
      (existsb leaf_bad (leaves r)), (existsb node_bad (bnodes r)); reflexivity.
  - intros q Hq.
    change (b_writes (BNested q)) with (q_writes q).
    change (leaves (BNested q)) with (@nil body).
    change (bnodes (BNested q)) with (qnodes q).
    rewrite Hq. reflexivity.
Qed.

Lemma q_writes_locks q : q_locks q = true -> q_writes q = true.
Proof. destruct q as [c s b lk]. simpl. intros ->. reflexivity. Qed.

(** has_locks || has_mutation is exactly "not a plain read" *)
Lemma is_write_query_spec q : is_write_query q = negb (plain_query q).
Proof.
  unfold is_write_query, is_mutation, plain_query.
  rewrite negb_forallb.
  assert (E : existsb (fun x => negb (node_reads x)) (qnodes q) = existsb node_bad (qnodes q)).
  { induction (qnodes q) as [|x r IH]; simpl; [reflexivity|].
    rewrite IH, node_reads_bad, negb_involutive. reflexivity. }
  rewrite E, <- (proj1 writes_spec q).
  destruct (q_locks q) eqn:L; [|reflexivity].
  rewrite (q_writes_locks q L). reflexivity.
Qed.

(** * infer *)

Lemma set_role_role st r : active_role (set_role st r) = r.
Proof. reflexivity. Qed.
Lemma set_role_preads cfg st r : preads_on cfg (set_role st r) = preads_on cfg st.
Proof. reflexivity. Qed.
Lemma read_role_set cfg st r : read_role cfg (set_role st r) = read_role cfg st.
Proof. reflexivity. Qed.

(** once the role is Primary and a write was seen (or the activity pin is set), the loop
    never leaves Primary *)
Lemma loop_primary_sticky cfg act ss : forall i pin visited st,
  pin || visited = true -> active_role st = Some Primary ->
  active_role (infer_loop cfg act i pin visited st ss) = Some Primary.
Proof.
  induction ss as [|s r IH]; intros i pin visited st Hpv Hr; simpl; [exact Hr|].
  destruct s as [|q|].
  - reflexivity.
  - destruct pin.
    + apply IH; assumption.
    + simpl in Hpv. subst visited.
      destruct (a_hot act i); [apply IH; reflexivity|].
      destruct (is_write_query q); [apply IH; reflexivity|].
      apply IH; [reflexivity|assumption].
  - apply IH; [apply orb_true_r|reflexivity].
Qed.

Lemma loop_write_primary cfg act ss : forall i pin visited st,
  (pin = true -> active_role st = Some Primary) ->
  has_non_plain ss = true ->
  active_role (infer_loop cfg act i pin visited st ss) = Some Primary.
Proof.
  induction ss as [|s r IH]; intros i pin visited st Hpin Hw; [discriminate|].
  destruct s as [|q|]; simpl infer_loop.
  - reflexivity.
  - destruct pin.
    + apply loop_primary_sticky; [reflexivity|auto].
    + destruct (a_hot act i); [apply loop_primary_sticky; reflexivity|].
      destruct (is_write_query q) eqn:W; [apply loop_primary_sticky; [apply orb_true_r|reflexivity]|].
      rewrite is_write_query_spec in W. apply negb_false_iff in W.
      assert (Hw' : has_non_plain r = true).
      { unfold has_non_plain in Hw. cbn [existsb] in Hw.
        change (plain_read (SQuery q)) with (plain_query q) in Hw. rewrite W in Hw. exact Hw. }
      destruct visited; apply IH; try discriminate; exact Hw'.
  - apply loop_primary_sticky; [apply orb_true_r|reflexivity].
Qed.

Lemma infer_writes_primary cfg act st ss :
  s_splitting cfg = true -> override_off st = false -> has_non_plain ss = true ->
  active_role (fst (infer_act cfg act st ss)) = Some Primary.
Proof.
  intros Hs Ho Hw. unfold infer_act. rewrite Hs, Ho. cbn [negb].
  destruct ss as [|s r]; [discriminate|]. cbn [fst].
  apply loop_write_primary; [|exact Hw].
  intros Hp. rewrite Hp. reflexivity.
Qed.

Lemma infer_empty cfg act st :
  s_splitting cfg = true -> override_off st = false -> infer_act cfg act st [] = (set_role st (Some Primary), true).
Proof. intros Hs Ho. unfold infer_act. rewrite Hs, Ho. reflexivity. Qed.

(** plain reads, no activity pin *)
Lemma loop_reads cfg act ss : forall i st,
  (forall j, a_hot act j = false) -> forallb plain_read ss = true ->
  infer_loop cfg act i false false st ss =
  match ss with [] => st | _ => set_role st (read_role cfg st) end.
Proof.
  induction ss as [|s r IH]; intros i st Hq Hp; [reflexivity|].
  simpl in Hp. apply andb_true_iff in Hp. destruct Hp as [Hs Hr].
  destruct s as [|q|]; try discriminate. simpl in Hs.
  simpl. rewrite Hq.
  assert (W : is_write_query q = false) by (rewrite is_write_query_spec, Hs; reflexivity).
  rewrite W. rewrite (IH (S i) _ Hq Hr).
  destruct r; [reflexivity|]. reflexivity.
Qed.

Lemma infer_reads cfg act st ss :
  s_splitting cfg = true -> override_off st = false -> ss <> [] -> is_quiet act -> forallb plain_read ss = true ->
  active_role (fst (infer_act cfg act st ss)) = (if preads_on cfg st then None else Some Replica).
Proof.
  intros Hs Ho Hne [Hi Hh] Hp. unfold infer_act. rewrite Hs, Ho, Hi. cbn [negb].
  destruct ss as [|s r]; [congruence|]. cbn [fst].
  rewrite (loop_reads cfg act (s :: r) 0 st Hh Hp). reflexivity.
Qed.

(** the loop is a function of the role it starts with (and of the primary-reads override) *)
Lemma loop_eq_role cfg act ss : forall i pin visited st st',
  o_preads st = o_preads st' -> active_role st = active_role st' ->
  active_role (infer_loop cfg act i pin visited st ss) = active_role (infer_loop cfg act i pin visited st' ss).
Proof.
  induction ss as [|s r IH]; intros i pin visited st st' Hp Hr; simpl; [exact Hr|].
  destruct s as [|q|].
  - reflexivity.
  - destruct pin; [apply IH; assumption|].
    destruct (a_hot act i); [apply IH; [exact Hp|reflexivity]|].
    destruct (is_write_query q); [apply IH; [exact Hp|reflexivity]|].
    destruct visited; [apply IH; assumption|].
    apply IH; [exact Hp|]. simpl. unfold read_role, preads_on. rewrite Hp. reflexivity.
  - apply IH; [exact Hp|reflexivity].
Qed.

Lemma infer_recomputed cfg act st st' ss :
  s_splitting cfg = true -> override_off st = false -> override_off st' = false -> o_preads st = o_preads st' ->
  active_role (fst (infer_act cfg act st ss)) = active_role (fst (infer_act cfg act st' ss)).
Proof.
  intros Hs Ho Ho' Hp. unfold infer_act. rewrite Hs, Ho, Ho'. cbn [negb].
  destruct ss as [|s r]; [reflexivity|]. cbn [fst].
  destruct (a_init act).
  - apply loop_eq_role; [exact Hp|reflexivity].
  - simpl. destruct s as [|q|].
    + reflexivity.
    + destruct (a_hot act 0); [apply loop_eq_role; [exact Hp|reflexivity]|].
      destruct (is_write_query q); [apply loop_eq_role; [exact Hp|reflexivity]|].
      apply loop_eq_role; [exact Hp|]. simpl. unfold read_role, preads_on. rewrite Hp. reflexivity.
    + apply loop_eq_role; [exact Hp|reflexivity].
Qed.

Lemma infer_pinned cfg act st ss :
  s_splitting cfg = true -> override_off st = false -> a_init act = true ->
  active_role (fst (infer_act cfg act st ss)) = Some Primary.
Proof.
  intros Hs Ho Hi. unfold infer_act. rewrite Hs, Ho, Hi. cbn [negb].
  destruct ss as [|s r]; [reflexivity|]. cbn [fst].
  apply loop_primary_sticky; reflexivity.
Qed.

(** infer never touches the overrides *)
Lemma loop_overrides cfg act ss : forall i pin visited st,
  o_parser (infer_loop cfg act i pin visited st ss) = o_parser st /\
  o_preads (infer_loop cfg act i pin visited st ss) = o_preads st.
Proof.
  induction ss as [|s r IH]; intros i pin visited st; simpl; [split; reflexivity|].
  destruct s as [|q|].
  - split; reflexivity.
  - destruct pin; [apply IH|].
    destruct (a_hot act i); [apply (IH (S i) true visited (set_role st (Some Primary)))|].
    destruct (is_write_query q); [apply (IH (S i) false true (set_role st (Some Primary)))|].
    destruct visited; [apply IH|].
    apply (IH (S i) false false (set_role st (read_role cfg st))).
  - apply (IH (S i) pin true (set_role st (Some Primary))).
Qed.

Lemma infer_overrides cfg act st ss :
  o_parser (fst (infer_act cfg act st ss)) = o_parser st /\
  o_preads (fst (infer_act cfg act st ss)) = o_preads st.
Proof.
  unfold infer_act. destruct (negb (s_splitting cfg)); [split; reflexivity|].
  destruct (override_off st); [split; reflexivity|].
  destruct ss as [|s r]; [split; reflexivity|]. cbn [fst].
  destruct (a_init act).
  - apply (loop_overrides cfg act (s :: r) 0 true false (set_role st (Some Primary))).
  - apply loop_overrides.
Qed.

(** * shard inference does not influence the role *)
Lemma loop_sh_role cfg act auto sho ss : forall i pin visited st sh,
  fst (infer_sh_loop cfg act auto sho i pin visited st sh ss) = infer_loop cfg act i pin visited st ss.
Proof.
  induction ss as [|s r IH]; intros i pin visited st sh; simpl; [reflexivity|].
  destruct s as [|q|].
  - reflexivity.
  - destruct pin; [apply IH|].
    destruct (a_hot act i); [apply IH|].
    destruct (is_write_query q); [apply IH|].
    destruct visited; apply IH.
  - apply IH.
Qed.

Lemma infer_sh_role cfg act auto sho st shard ss :
  fst (fst (infer_sh cfg act auto sho st shard ss)) = fst (infer_act cfg act st ss).
Proof.
  unfold infer_sh, infer_act. destruct (negb (s_splitting cfg)); [reflexivity|].
  destruct (override_off st); [reflexivity|].
  destruct ss as [|s r]; [reflexivity|]. cbn [fst]. apply loop_sh_role.
Qed.

(** without automatic_sharding_key the shard is untouched and the only error is "empty query" *)
Lemma shard_step_off r s : shard_step false r s = s.
Proof. reflexivity. Qed.

Lemma loop_sh_off cfg act sho ss : forall i pin visited st sh,
  snd (infer_sh_loop cfg act false sho i pin visited st sh ss) = sh.
Proof.
  induction ss as [|s r IH]; intros i pin visited st sh; simpl; [reflexivity|].
  destruct s as [|q|].
  - reflexivity.
  - destruct pin; [apply IH|].
    destruct (a_hot act i); [apply IH|].
    destruct (is_write_query q); [apply IH|].
    destruct visited; apply IH.
  - apply IH.
Qed.

Lemma infer_sh_off cfg act sho st shard ss :
  infer_sh cfg act false sho st shard ss = (fst (infer_act cfg act st ss), shard, snd (infer_act cfg act st ss)).
Proof.
  unfold infer_sh, infer_act. destruct (negb (s_splitting cfg)); [reflexivity|].
  destruct (override_off st); [reflexivity|].
  destruct ss as [|s r]; [reflexivity|]. cbn [fst snd].
  rewrite loop_sh_off. cbn [sh_active sh_err]. rewrite loop_sh_role. reflexivity.
Qed.

(** * client.rs gating *)

Lemma parser_on_override cfg st : parser_on cfg st = true -> override_off st = false.
Proof. unfold parser_on, override_off. destruct (o_parser st) as [[|]|]; intros H; try reflexivity; discriminate. Qed.

Lemma parser_on_parses cfg st : parser_on cfg st = true -> parses_messages cfg st = true.
Proof. intros H. unfold parses_messages. rewrite H. reflexivity. Qed.

(** the explicit override: whatever is parsed (the pool may run plugins), nothing is inferred *)
Lemma infer_override_off cfg act st ss : override_off st = true -> fst (infer_act cfg act st ss) = st.
Proof. intros H. unfold infer_act. destruct (negb (s_splitting cfg)); [reflexivity|]. rewrite H. reflexivity. Qed.

Lemma route_parsed_off cfg st p : override_off st = true -> route_parsed cfg st p = st.
Proof.
  intros H. unfold route_parsed. destruct (parses_messages cfg st); [|reflexivity].
  destruct p as [|act ss]; [reflexivity|]. apply infer_override_off. exact H.
Qed.

(** not parsed at all (parser off for the session and no plugins): nothing changes either *)
Lemma route_parsed_unparsed cfg st p : parses_messages cfg st = false -> route_parsed cfg st p = st.
Proof. intros H. unfold route_parsed. rewrite H. reflexivity. Qed.

Lemma route_parsed_writes cfg st act ss :
  parser_on cfg st = true -> s_splitting cfg = true -> has_non_plain ss = true ->
  active_role (route_parsed cfg st (PAcc act ss)) = Some Primary.
Proof.
  intros Hp Hs Hw. unfold route_parsed. rewrite (parser_on_parses _ _ Hp).
  apply infer_writes_primary; [assumption|exact (parser_on_override _ _ Hp)|assumption].
Qed.

Lemma route_parsed_reads cfg st act ss :
  parser_on cfg st = true -> s_splitting cfg = true -> ss <> [] -> is_quiet act ->
  forallb plain_read ss = true ->
  active_role (route_parsed cfg st (PAcc act ss)) = (if preads_on cfg st then None else Some Replica).
Proof.
  intros Hp Hs Hne Hq Hr. unfold route_parsed. rewrite (parser_on_parses _ _ Hp).
  apply infer_reads; try assumption. exact (parser_on_override _ _ Hp).
Qed.

Lemma route_parsed_recomputed cfg st st' act ss :
  parser_on cfg st = true -> parser_on cfg st' = true -> s_splitting cfg = true ->
  o_preads st = o_preads st' ->
  active_role (route_parsed cfg st (PAcc act ss)) = active_role (route_parsed cfg st' (PAcc act ss)).
Proof.
  intros Hp Hp' Hs Ho. unfold route_parsed. rewrite (parser_on_parses _ _ Hp), (parser_on_parses _ _ Hp').
  apply infer_recomputed; try assumption; [exact (parser_on_override _ _ Hp)|exact (parser_on_override _ _ Hp')].
Qed.

Lemma batch_off cfg b : forall st, override_off st = true -> fold_left (route_bmsg cfg) b st = st.
Proof.
  induction b as [|m r IH]; intros st H; simpl; [reflexivity|].
  destruct m; simpl; try (apply IH; exact H).
  rewrite route_parsed_off by exact H. apply IH; exact H.
Qed.

Lemma batch_no_parse cfg rest : forall st,
  forallb (fun m => match m with BParse _ _ => false | _ => true end) rest = true ->
  fold_left (route_bmsg cfg) rest st = st.
Proof.
  induction rest as [|m r IH]; intros st H; simpl; [reflexivity|].
  simpl in H. apply andb_true_iff in H. destruct H as [Hm Hr].
  destruct m; try discriminate; simpl; apply IH; exact Hr.
Qed.

(** * SET SERVER ROLE is sticky *)

Definition role_of_arg (a : role_arg) : option role :=
  match a with RPrimary => Some Primary | RReplica => Some Replica | _ => None end.

Definition explicit_arg (a : role_arg) : bool :=
  match a with RPrimary | RReplica | RAny => true | _ => false end.

Definition not_set_role (it : item) : bool :=
  match it with ICmd (SetServerRole _) => false | _ => true end.

Definition pinned_to (r : option role) (st : rstate) : Prop :=
  o_parser st = Some false /\ active_role st = r.

Lemma set_role_pins cfg st a :
  explicit_arg a = true -> pinned_to (role_of_arg a) (exec_role_cmd cfg st (SetServerRole a)).
Proof. destruct a; try discriminate; intros _; split; reflexivity. Qed.

Lemma pinned_step cfg r st it :
  pinned_to r st -> not_set_role it = true -> pinned_to r (client_route cfg st it).
Proof.
  intros [Hp Hr] Hn.
  assert (Hoff : override_off st = true) by (unfold override_off; rewrite Hp; reflexivity).
  destruct it as [c|p|b]; simpl.
  - destruct c as [a|a]; [discriminate|]. destruct a; split; assumption.
  - rewrite route_parsed_off by exact Hoff. split; assumption.
  - rewrite batch_off by exact Hoff. split; assumption.
Qed.

Lemma sticky_trace cfg r its : forall st,
  pinned_to r st -> forallb not_set_role its = true ->
  Forall (fun st' => active_role st' = r) (session_trace cfg st its).
Proof.
  induction its as [|it rest IH]; intros st Hpin Hn; simpl; [constructor|].
  simpl in Hn. apply andb_true_iff in Hn. destruct Hn as [H1 H2].
  pose proof (pinned_step cfg r st it Hpin H1) as Hp'.
  constructor; [exact (proj2 Hp')|]. apply IH; assumption.
Qed.

Lemma explicit_role_sticky cfg st a its :
  explicit_arg a = true -> forallb not_set_role its = true ->
  Forall (fun st' => active_role st' = role_of_arg a)
         (session_trace cfg (exec_role_cmd cfg st (SetServerRole a)) its).
Proof. intros Ha Hn. apply sticky_trace; [apply set_role_pins; exact Ha|exact Hn]. Qed.

Lemma sticky_session cfg r its : forall st,
  pinned_to r st -> forallb not_set_role its = true -> pinned_to r (session cfg st its).
Proof.
  unfold session. induction its as [|it rest IH]; intros st Hpin Hn; simpl; [exact Hpin|].
  simpl in Hn. apply andb_true_iff in Hn. destruct Hn as [H1 H2].
  apply IH; [apply pinned_step; assumption|exact H2].
Qed.

Lemma explicit_role_sticky_end cfg st a its :
  explicit_arg a = true -> forallb not_set_role its = true ->
  active_role (session cfg (exec_role_cmd cfg st (SetServerRole a)) its) = role_of_arg a.
Proof. intros Ha Hn. apply (sticky_session cfg (role_of_arg a) its); [apply set_role_pins; exact Ha|exact Hn]. Qed.

(** * Extended-protocol batches *)

Lemma bound_std g n v rest :
  forallb (fun m => match m with BParse _ _ => false | BBind k => Nat.eqb k n | BOther => true end) rest = true ->
  forall o, In o (batch_bound ((n, v) :: g) rest) -> o = v.
Proof.
  induction rest as [|m r IH]; intros H o Hin; simpl in *; [contradiction|].
  apply andb_true_iff in H. destruct H as [Hm Hr].
  destruct m as [k p|k|]; try discriminate.
  - apply Nat.eqb_eq in Hm. subst k. rewrite Nat.eqb_refl in Hin.
    destruct Hin as [<-|Hin]; [reflexivity|]. apply IH; assumption.
  - apply IH; assumption.
Qed.

Lemma batch_to_primary cfg st g b :
  parser_on cfg st = true -> s_splitting cfg = true ->
  known_c05 b = false -> batch_has_write g b = true ->
  active_role (client_route cfg st (IBatch b)) = Some Primary.
Proof.
  intros Hp Hs Hk Hw. unfold known_c05 in Hk. apply negb_false_iff in Hk.
  destruct b as [|m rest]; [discriminate|].
  destruct m as [n p|k|]; try discriminate. destruct p as [|act ss]; [discriminate|].
  simpl in Hk.
  unfold batch_has_write in Hw. simpl batch_bound in Hw.
  apply existsb_exists in Hw. destruct Hw as [o [Hin Ho]].
  rewrite (bound_std g n (Some ss) rest Hk o Hin) in Ho.
  simpl client_route. simpl fold_left.
  rewrite batch_no_parse.
  - apply route_parsed_writes; assumption.
  - clear -Hk. induction rest as [|m r IH]; [reflexivity|]. simpl in *.
    apply andb_true_iff in Hk. destruct Hk as [Hm Hr]. rewrite (IH Hr).
    destruct m; try discriminate; reflexivity.
Qed.

(** * pool.get *)

Lemma role_eqb_eq a b : role_eqb a b = true <-> a = b.
Proof. destruct a, b; simpl; split; intros H; try reflexivity; discriminate. Qed.

Lemma candidates_sound want keep addrs a :
  In a (candidates want keep addrs) ->
  In a addrs /\ (forall r, want = Some r -> a_role a = r) /\ (forall s, keep = Some s -> a_shard a = s).
Proof.
  unfold candidates. intros H. apply filter_In in H. destruct H as [H Hs].
  apply filter_In in H. destruct H as [Hin Hr].
  split; [exact Hin|]. split.
  - intros r ->. simpl in Hr. apply role_eqb_eq. exact Hr.
  - intros s ->. apply Nat.eqb_eq. exact Hs.
Qed.

Lemma candidates_complete want keep addrs a :
  In a addrs -> role_matches (a_role a) want = true ->
  (forall s, keep = Some s -> a_shard a = s) -> In a (candidates want keep addrs).
Proof.
  intros Hin Hr Hs. unfold candidates. apply filter_In. split.
  - apply filter_In. split; assumption.
  - destruct keep as [s|]; [|reflexivity]. apply Nat.eqb_eq. apply Hs. reflexivity.
Qed.

Lemma pool_get_sound nshards d usable sh want addrs a :
  In (GServer a) (pool_get nshards d usable sh want addrs) ->
  exists keep, retain_shard nshards sh d = Some keep /\ In a (candidates want keep addrs) /\ usable a = true.
Proof.
  unfold pool_get. destruct (retain_shard nshards sh d) as [keep|].
  - intros H. exists keep. split; [reflexivity|].
    destruct (filter usable (candidates want keep addrs)) as [|x l] eqn:E.
    + simpl in H. destruct H as [H|[]]. discriminate.
    + apply in_map_iff in H. destruct H as [y [Hy Hin]]. inversion Hy; subst y.
      rewrite <- E in Hin. apply filter_In in Hin. exact Hin.
  - simpl. intros [H|[]]. discriminate.
Qed.

Lemma no_substitute nshards d usable sh r addrs a :
  In (GServer a) (pool_get nshards d usable sh (Some r) addrs) ->
  a_role a = r /\ In a addrs /\
  (forall s, retain_shard nshards sh d = Some (Some s) -> a_shard a = s).
Proof.
  intros H. apply pool_get_sound in H. destruct H as [keep [Hk [Hc _]]].
  apply candidates_sound in Hc. destruct Hc as [Hin [Hr Hs]].
  split; [apply Hr; reflexivity|]. split; [exact Hin|].
  intros s Hs'. rewrite Hk in Hs'. inversion Hs'; subst keep. apply Hs. reflexivity.
Qed.

Lemma no_candidate_no_server nshards d usable sh want addrs keep :
  retain_shard nshards sh d = Some keep ->
  filter usable (candidates want keep addrs) = [] ->
  pool_get nshards d usable sh want addrs = [GAllDown].
Proof. intros Hk He. unfold pool_get. rewrite Hk, He. reflexivity. Qed.

Lemma any_role_all nshards d usable sh addrs a keep :
  retain_shard nshards sh d = Some keep -> In a addrs -> usable a = true ->
  (forall s, keep = Some s -> a_shard a = s) ->
  In (GServer a) (pool_get nshards d usable sh None addrs).
Proof.
  intros Hk Hin Hu Hs. unfold pool_get. rewrite Hk.
  assert (Hc : In a (filter usable (candidates None keep addrs))).
  { apply filter_In. split; [|exact Hu]. apply candidates_complete; auto. }
  destruct (filter usable (candidates None keep addrs)) as [|x l] eqn:E; [contradiction|].
  apply in_map. exact Hc.
Qed.

(** * Known class F17: witnesses *)
Lemma batch_refuted :
  (exists cfg st g b, parser_on cfg st = true /\ s_splitting cfg = true /\ known_c05 b = true /\
     batch_has_write g b = true /\ active_role (client_route cfg st (IBatch b)) <> Some Primary) /\
  (* Parse(INSERT) Bind Execute Parse(SELECT) Bind Execute Sync *)
  active_role (client_route (cfg_split false) st_primary
      (IBatch [BParse 1 (PAcc quiet [SOther]); BBind 1; BOther;
               BParse 2 (PAcc quiet [SQuery sel]); BBind 2; BOther])) = Some Replica /\
  (* earlier: Parse s7 (INSERT) ... ; now, after a plain SELECT: Bind s7, Execute, Sync *)
  batch_has_write [(7, Some [SOther])] [BBind 7; BOther] = true /\
  active_role (client_route (cfg_split false) st_replica (IBatch [BBind 7; BOther])) = Some Replica.
Proof.
  split; [|vm_compute; repeat split].
  exists (cfg_split false), st_primary, [],
    [BParse 1 (PAcc quiet [SOther]); BBind 1; BOther; BParse 2 (PAcc quiet [SQuery sel]); BBind 2; BOther].
  vm_compute. repeat split; discriminate.
Qed.


(** (F39 repair) The shard part of [infer] ignores recent activity, the role state and the
    role decisions altogether: it is a function of the statements' keys alone. *)
Lemma infer_sh_loop_shard_indep cfg auto sho ss : forall act act' i pin pin' visited visited' st st' sh,
  snd (infer_sh_loop cfg act auto sho i pin visited st sh ss) =
  snd (infer_sh_loop cfg act' auto sho i pin' visited' st' sh ss).
Proof.
  induction ss as [|s ss IH]; intros act act' i pin pin' visited visited' st st' sh; [reflexivity|].
  destruct s as [| q |]; cbn [infer_sh_loop]; [reflexivity| |apply IH].
  destruct pin, pin'; try destruct (a_hot act i); try destruct (a_hot act' i);
    destruct (is_write_query q); destruct visited, visited'; apply IH.
Qed.

Lemma infer_sh_shard_indep cfg auto sho st st' shard ss act act' :
  s_splitting cfg = true -> override_off st = false -> override_off st' = false -> ss <> [] ->
  snd (fst (infer_sh cfg act auto sho st shard ss)) = snd (fst (infer_sh cfg act' auto sho st' shard ss)) /\
  snd (infer_sh cfg act auto sho st shard ss) = snd (infer_sh cfg act' auto sho st' shard ss).
Proof.
  intros Hs Ho Ho' Hne. unfold infer_sh. rewrite Hs, Ho, Ho'. cbn [negb].
  destruct ss as [|s ss]; [contradiction|]. cbn [fst snd].
  rewrite (infer_sh_loop_shard_indep cfg auto sho (s :: ss) act act' 0 (a_init act) (a_init act') false false
             (if a_init act then set_role st (Some Primary) else st) (if a_init act' then set_role st' (Some Primary) else st')).
  split; reflexivity.
Qed.
