(** C05 — writes and transactions go to the primary; explicit role choices are honoured.
    Property theorems only: each is closed by [exact <lemma>] and audited with
    [Print Assumptions]; Examples validate the specification and show non-vacuity. *)
From Coq Require Import List Bool Arith.
From PV Require Import Route.Model Route.Spec Route.Proofs.
Import ListNotations.

(** The test the code applies to a Query statement (has_locks || is_mutation_query, a
    recursive walk) is exactly the specification's "not a plain read" (a statement about
    every node of the flattened query). *)
Theorem c05_write_test_is_spec : forall q, is_write_query q = negb (plain_query q).
Proof. exact is_write_query_spec. Qed.
Print Assumptions c05_write_test_is_spec.

(** With read/write splitting on, a message of ANY length that contains, at ANY position, a
    statement that is not a plain read (transaction start, non-Query statement, Query with a
    lock / Insert / Update / SELECT INTO at any depth) leaves [infer] with role Primary —
    whatever the previous role, the overrides, the activity oracle, and whatever stands
    before or after that statement.  ([has_non_plain] is an [existsb]: every order is
    covered; the message is non-empty by the hypothesis.) *)
Theorem c05_writes_to_primary : forall cfg act st ss,
  s_splitting cfg = true -> override_off st = false -> has_non_plain ss = true ->
  active_role (fst (infer_act cfg act st ss)) = Some Primary.
Proof. exact infer_writes_primary. Qed.
Print Assumptions c05_writes_to_primary.

(** the same through the gating of client.rs, for a 'Q' or a 'P' message *)
Theorem c05_client_writes_to_primary : forall cfg st act ss,
  parser_on cfg st = true -> s_splitting cfg = true -> has_non_plain ss = true ->
  active_role (route_parsed cfg st (PAcc act ss)) = Some Primary.
Proof. exact route_parsed_writes. Qed.
Print Assumptions c05_client_writes_to_primary.

(** the empty message (no statement) goes to the primary and infer reports an error *)
Theorem c05_empty_message_primary : forall cfg act st,
  s_splitting cfg = true -> override_off st = false -> infer_act cfg act st [] = (set_role st (Some Primary), true).
Proof. exact infer_empty. Qed.
Print Assumptions c05_empty_message_primary.

(** The role decision does not depend on shard inference: whatever infer_shard /
    infer_shard_on_write deliver for each statement (no key, any shard, an error) and whether
    automatic_sharding_key is set or not, the router state after [infer] is the one of the
    shard-free model — in particular a shard conflict BEFORE a write (SELECT .. id=5; SELECT ..
    id=6; DELETE ..) cannot leave the message on a replica. *)
Theorem c05_role_independent_of_shards : forall cfg act auto sho st shard ss,
  fst (fst (infer_sh cfg act auto sho st shard ss)) = fst (infer_act cfg act st ss).
Proof. exact infer_sh_role. Qed.
Print Assumptions c05_role_independent_of_shards.

(** (C06, F39 repair) With an automatic sharding key the shard a message selects, and whether it is
    refused as multi-shard, depend on the statements' keys alone: not on recent database activity
    (Initializing window, mutation cache), not on the role state.  False of the code before the
    repair, where a read pinned to the primary by activity skipped shard inference. *)
Theorem c05_shard_independent_of_activity : forall cfg auto sho st st' shard ss act act',
  s_splitting cfg = true -> override_off st = false -> override_off st' = false -> ss <> [] ->
  snd (fst (infer_sh cfg act auto sho st shard ss)) = snd (fst (infer_sh cfg act' auto sho st' shard ss)) /\
  snd (infer_sh cfg act auto sho st shard ss) = snd (infer_sh cfg act' auto sho st' shard ss).
Proof. exact infer_sh_shard_indep. Qed.
Print Assumptions c05_shard_independent_of_activity.

Theorem c05_no_sharding_key_no_shard_effect : forall cfg act sho st shard ss,
  infer_sh cfg act false sho st shard ss = (fst (infer_act cfg act st ss), shard, snd (infer_act cfg act st ss)).
Proof. exact infer_sh_off. Qed.
Print Assumptions c05_no_sharding_key_no_shard_effect.

(** Plain reads only, no activity pin: Replica, or "any" when primary reads are enabled
    (pool setting or session override). *)
Theorem c05_reads_not_pinned : forall cfg act st ss,
  s_splitting cfg = true -> override_off st = false -> ss <> [] -> is_quiet act -> forallb plain_read ss = true ->
  active_role (fst (infer_act cfg act st ss)) = (if preads_on cfg st then None else Some Replica).
Proof. exact infer_reads. Qed.
Print Assumptions c05_reads_not_pinned.

(** activity-based routing, database Initializing: everything goes to the primary *)
Theorem c05_activity_pin_primary : forall cfg act st ss,
  s_splitting cfg = true -> override_off st = false -> a_init act = true ->
  active_role (fst (infer_act cfg act st ss)) = Some Primary.
Proof. exact infer_pinned. Qed.
Print Assumptions c05_activity_pin_primary.

(** The decision is recomputed: with splitting on, the role after [infer] is a function of
    (settings, primary-reads override, activity oracle, statements) — two router states
    that differ in the previous role (and parser override) get the same role.  Holds for
    every message including the empty one.  What does NOT recompute is listed in the
    Examples [c05_stale_*] below. *)
Theorem c05_recomputed : forall cfg act st st' ss,
  s_splitting cfg = true -> override_off st = false -> override_off st' = false -> o_preads st = o_preads st' ->
  active_role (fst (infer_act cfg act st ss)) = active_role (fst (infer_act cfg act st' ss)).
Proof. exact infer_recomputed. Qed.
Print Assumptions c05_recomputed.

Theorem c05_client_recomputed : forall cfg st st' act ss,
  parser_on cfg st = true -> parser_on cfg st' = true -> s_splitting cfg = true ->
  o_preads st = o_preads st' ->
  active_role (route_parsed cfg st (PAcc act ss)) = active_role (route_parsed cfg st' (PAcc act ss)).
Proof. exact route_parsed_recomputed. Qed.
Print Assumptions c05_client_recomputed.

(** After SET SERVER ROLE TO 'primary' | 'replica' | 'any', every later transaction (simple
    query, extended batch, accepted or rejected by the parser, plain read or write) and
    every SET PRIMARY READS leaves the role at the chosen value, until the next SET SERVER
    ROLE: the role after each item of the session is the chosen one. *)
Theorem c05_explicit_role_sticky : forall cfg st a its,
  explicit_arg a = true -> forallb not_set_role its = true ->
  Forall (fun st' => active_role st' = role_of_arg a)
         (session_trace cfg (exec_role_cmd cfg st (SetServerRole a)) its).
Proof. exact explicit_role_sticky. Qed.
Print Assumptions c05_explicit_role_sticky.

(** The step behind it: while the session's parser override is Some(false) (set by SET SERVER ROLE
    primary|replica|any) NO message changes the router state — accepted or rejected, empty (";",
    a comment, an empty Parse), read or write, whether or not the pool's plugins make client.rs
    parse it, with or without read/write splitting. *)
Theorem c05_explicit_role_survives_any_message : forall cfg st p,
  override_off st = true -> route_parsed cfg st p = st.
Proof. exact route_parsed_off. Qed.
Print Assumptions c05_explicit_role_survives_any_message.

Theorem c05_explicit_role_sticky_end : forall cfg st a its,
  explicit_arg a = true -> forallb not_set_role its = true ->
  active_role (session cfg (exec_role_cmd cfg st (SetServerRole a)) its) = role_of_arg a.
Proof. exact explicit_role_sticky_end. Qed.
Print Assumptions c05_explicit_role_sticky_end.

(** pool.get hands out only servers of the requested role and of the selected shard; a
    banned / unreachable / unhealthy candidate is skipped, never replaced by a server of
    another role; no usable candidate = checkout error. *)
Theorem c05_no_substitute : forall nshards d usable sh r addrs a,
  In (GServer a) (pool_get nshards d usable sh (Some r) addrs) ->
  a_role a = r /\ In a addrs /\
  (forall s, retain_shard nshards sh d = Some (Some s) -> a_shard a = s).
Proof. exact no_substitute. Qed.
Print Assumptions c05_no_substitute.

Theorem c05_no_candidate_is_error : forall nshards d usable sh want addrs keep,
  retain_shard nshards sh d = Some keep ->
  filter usable (candidates want keep addrs) = [] ->
  pool_get nshards d usable sh want addrs = [GAllDown].
Proof. exact no_candidate_no_server. Qed.
Print Assumptions c05_no_candidate_is_error.

Theorem c05_candidates_exact : forall want keep addrs a,
  In a (candidates want keep addrs) ->
  In a addrs /\ (forall r, want = Some r -> a_role a = r) /\ (forall s, keep = Some s -> a_shard a = s).
Proof. exact candidates_sound. Qed.
Print Assumptions c05_candidates_exact.

(** Extended protocol, standard batch (one accepted Parse, then Bind/Describe/Execute of
    that statement, Sync): if the bound statement is not a plain read the checkout asks for
    the primary.  The guard [known_c05] excludes the recorded class F17. *)
Theorem c05_batch_to_primary : forall cfg st g b,
  parser_on cfg st = true -> s_splitting cfg = true ->
  known_c05 b = false -> batch_has_write g b = true ->
  active_role (client_route cfg st (IBatch b)) = Some Primary.
Proof. exact batch_to_primary. Qed.
Print Assumptions c05_batch_to_primary.

(** * Concrete statements (definitions in Spec.v) *)

(** The three witnesses of the former defect F3 (fixed in bd1691c) and the four of its
    follow-up (fixed in 8b40d89) go to the primary; so does every order of write / read. *)
Example c05_former_witnesses :
  role_after false [SQuery sel_for_update; SQuery sel] = Some Primary /\
  role_after false [SQuery sel_into] = Some Primary /\
  role_after false [SQuery insert_cte] = Some Primary /\
  role_after false [SQuery paren_lock] = Some Primary /\
  role_after false [SQuery cte_lock] = Some Primary /\
  role_after false [SQuery derived_lock] = Some Primary /\
  role_after false [SQuery union_into] = Some Primary /\
  role_after false [SQuery with_insert] = Some Primary.
Proof. vm_compute. repeat split. Qed.

Example c05_orders :
  role_after false [SQuery sel; SOther] = Some Primary /\
  role_after false [SOther; SQuery sel] = Some Primary /\
  role_after false [SQuery sel_for_update; SQuery sel; SQuery sel] = Some Primary /\
  role_after false [SQuery sel; SQuery sel; SQuery sel_into] = Some Primary /\
  role_after false [SStartTxn] = Some Primary /\
  role_after false [SQuery sel; SStartTxn; SQuery sel] = Some Primary /\
  role_after false [SQuery sel; SQuery sel; SStartTxn] = Some Primary /\
  role_after true [SQuery sel; SOther; SQuery sel] = Some Primary.
Proof. vm_compute. repeat split. Qed.

(** the specification classifies the examples as intended *)
Example c05_spec_examples :
  map plain_query [sel; read_cte_union; sel_for_update; sel_into; insert_cte; paren_lock; cte_lock;
                   derived_lock; union_into; with_insert]
  = [true; true; false; false; false; false; false; false; false; false] /\
  plain_read SStartTxn = false /\ plain_read SOther = false.
Proof. vm_compute. repeat split. Qed.

(** non-vacuity of c05_reads_not_pinned; the session override beats the pool setting *)
Example c05_reads :
  role_after false [SQuery sel] = Some Replica /\
  role_after false [SQuery sel; SQuery read_cte_union] = Some Replica /\
  role_after true [SQuery sel] = None /\
  active_role (fst (infer (cfg_split true)
                 (exec_role_cmd (cfg_split true) st_replica (SetPrimaryReads POff)) [SQuery sel])) = Some Replica /\
  is_quiet quiet.
Proof. vm_compute. repeat split. Qed.

(** * What is NOT recomputed (the previous role is used as it stands) *)

Example c05_stale_role_cases :
  (* the parser rejects the SQL (e.g. VACUUM, LOCK TABLE, a DELETE in a CTE): role unchanged *)
  route_parsed (cfg_split false) st_replica PRej = st_replica /\
  (* parser on, splitting off: infer does nothing *)
  active_role (route_parsed {| s_parser := true; s_splitting := false; s_primary_reads := false; s_default_role := None; s_plugins := false |}
                            st_replica (PAcc quiet [SOther])) = Some Replica /\
  (* a batch without Parse (Bind/Execute of a named statement) carries no SQL *)
  client_route (cfg_split false) st_replica (IBatch [BBind 7; BOther]) = st_replica.
Proof. vm_compute. repeat split. Qed.

(** * Known class F17: the role of a batch is the one of its LAST accepted Parse (or stale) *)
Theorem c05_batch_refuted :
  (exists cfg st g b, parser_on cfg st = true /\ s_splitting cfg = true /\ known_c05 b = true /\
     batch_has_write g b = true /\ active_role (client_route cfg st (IBatch b)) <> Some Primary) /\
  (* Parse(INSERT) Bind Execute Parse(SELECT) Bind Execute Sync *)
  active_role (client_route (cfg_split false) st_primary
      (IBatch [BParse 1 (PAcc quiet [SOther]); BBind 1; BOther;
               BParse 2 (PAcc quiet [SQuery sel]); BBind 2; BOther])) = Some Replica /\
  (* earlier: Parse s7 (INSERT) ... ; now, after a plain SELECT: Bind s7, Execute, Sync *)
  batch_has_write [(7, Some [SOther])] [BBind 7; BOther] = true /\
  active_role (client_route (cfg_split false) st_replica (IBatch [BBind 7; BOther])) = Some Replica.
Proof. exact batch_refuted. Qed.
Print Assumptions c05_batch_refuted.

Example c05_batch_std_example :
  known_c05 [BParse 1 (PAcc quiet [SOther]); BBind 1; BOther] = false /\
  batch_has_write [] [BParse 1 (PAcc quiet [SOther]); BBind 1; BOther] = true /\
  active_role (client_route (cfg_split false) st_replica
                 (IBatch [BParse 1 (PAcc quiet [SOther]); BBind 1; BOther])) = Some Primary.
Proof. vm_compute. repeat split. Qed.

(** * Explicit role: honoured even for writes; 'auto' / 'default' resume inference *)
Example c05_explicit_examples :
  let c := cfg_split false in
  let s0 := init_state c in
  active_role (session c s0 [ICmd (SetServerRole RReplica); ISimple (PAcc quiet [SOther])]) = Some Replica /\
  active_role (session c s0 [ICmd (SetServerRole RPrimary); ISimple (PAcc quiet [SQuery sel]);
                             IBatch [BParse 1 (PAcc quiet [SQuery sel]); BBind 1]]) = Some Primary /\
  active_role (session c s0 [ICmd (SetServerRole RAny); ICmd (SetPrimaryReads POff); ISimple (PAcc quiet [SOther])]) = None /\
  active_role (session c s0 [ICmd (SetServerRole RPrimary); ICmd (SetServerRole RAuto); ISimple (PAcc quiet [SQuery sel])]) = Some Replica /\
  active_role (session c s0 [ICmd (SetServerRole RReplica); ICmd (SetServerRole RDefault); ISimple (PAcc quiet [SOther])]) = Some Primary.
Proof. vm_compute. repeat split. Qed.

(** * pool.get: a 2-shard pool; shard 1 has no replica *)
Definition A (i s : nat) (r : role) : addr := {| a_id := i; a_shard := s; a_role := r |}.
Definition pool2 : list addr := [A 0 0 Primary; A 1 0 Replica; A 2 0 Replica; A 3 1 Primary].
Definition all_up (a : addr) := true.

Example c05_pool_examples :
  pool_get 2 (DShard 0) all_up (Some 0) (Some Primary) pool2 = [GServer (A 0 0 Primary)] /\
  pool_get 2 (DShard 0) all_up (Some 0) (Some Replica) pool2 = [GServer (A 1 0 Replica); GServer (A 2 0 Replica)] /\
  pool_get 2 (DShard 0) all_up (Some 0) None pool2 = [GServer (A 0 0 Primary); GServer (A 1 0 Replica); GServer (A 2 0 Replica)] /\
  (* no replica on shard 1: an error, not the primary *)
  pool_get 2 (DShard 0) all_up (Some 1) (Some Replica) pool2 = [GAllDown] /\
  (* both replicas of shard 0 banned: an error, not the primary *)
  pool_get 2 (DShard 0) (fun a => role_eqb (a_role a) Primary) (Some 0) (Some Replica) pool2 = [GAllDown] /\
  pool_get 2 (DShard 0) all_up (Some 2) (Some Primary) pool2 = [GInvalidShard] /\
  role_matches Replica None = true /\ role_matches Replica (Some Primary) = false /\ role_matches Mirror None = true.
Proof. vm_compute. repeat split. Qed.

(** Known class F23 lives below the model: for [SELECT * FROM (TABLE t FOR UPDATE) AS d]
    sqlparser 0.52 delivers this lock-free AST (parse_as_table swallows [FOR UPDATE]); on
    it the code and the model rightly answer "plain read".  Only the monitor, which works
    from the generator's label, sees the lost lock. *)
Example c05_f23_delivered_ast_is_plain :
  let q := MkQuery [] [MkQuery [] [] BTable false] (BSelect false) false in
  plain_query q = true /\ role_after false [SQuery q] = Some Replica.
Proof. vm_compute. repeat split. Qed.

(** two reads on different shards, then a write: Primary, first shard kept, Err returned;
    the assignment error of the write ("Sharding key cannot be updated") likewise *)
Example c05_shard_conflict_before_write :
  infer_sh (cfg_split false) quiet true (fun i => nth i [ShSome 0; ShSome 1; ShSome 2] ShNone) st_replica None
           [SQuery sel; SQuery sel; SOther]
  = ({| active_role := Some Primary; o_parser := None; o_preads := None |}, Some 0, true) /\
  infer_sh (cfg_split false) quiet true (fun i => nth i [ShSome 2; ShErr] ShNone) st_replica (Some 1)
           [SQuery sel; SOther; SQuery sel]
  = ({| active_role := Some Primary; o_parser := None; o_preads := None |}, Some 2, true) /\
  infer_sh (cfg_split false) quiet true (fun i => nth i [ShSome 1; ShNone; ShSome 1] ShNone) st_replica None
           [SQuery sel; SQuery sel; SQuery sel]
  = ({| active_role := Some Replica; o_parser := None; o_preads := None |}, Some 1, false).
Proof. vm_compute. repeat split. Qed.

(** A pool with plugins keeps parsing after SET SERVER ROLE; an empty message (";", a comment,
    an empty Parse) must not flip the session to the primary. *)
Example c05_empty_message_after_explicit_role :
  let c := cfg_plug false in
  let s0 := init_state c in
  parses_messages c (exec_role_cmd c s0 (SetServerRole RReplica)) = true /\
  active_role (session c s0 [ICmd (SetServerRole RReplica); ISimple (PAcc quiet [])]) = Some Replica /\
  active_role (session c s0 [ICmd (SetServerRole RAny); IBatch [BParse 0 (PAcc quiet []); BBind 0];
                             ISimple (PAcc quiet [SQuery sel])]) = None /\
  active_role (session c s0 [ICmd (SetServerRole RReplica); ISimple (PAcc quiet []); ISimple (PAcc quiet [SOther]);
                             ISimple (PAcc quiet [SQuery sel])]) = Some Replica /\
  (* without an explicit role the empty message goes to the primary, as before *)
  active_role (session c s0 [ISimple (PAcc quiet [SQuery sel]); ISimple (PAcc quiet [])]) = Some Primary /\
  active_role (session c s0 [ICmd (SetServerRole RReplica); ICmd (SetServerRole RAuto); ISimple (PAcc quiet [])]) = Some Primary.
Proof. vm_compute. repeat split. Qed.
