(** C05 — model of pgcat's role routing.  Definitions only (executable); every definition
    cites the Rust it transcribes (tree at /repo commit 8b40d89).

    sqlparser is environment: the model starts at an abstract AST that carries exactly
    the fields [QueryRouter::infer] / [is_mutation_query] inspect.  harness/src/astproj.rs
    projects sqlparser's real AST to this shape. *)
From Coq Require Import List Bool Arith.
Import ListNotations.

(** config.rs:31-39 *)
Inductive role := Primary | Replica | Mirror.

Definition role_eqb (a b : role) : bool :=
  match a, b with
  | Primary, Primary | Replica, Replica | Mirror, Mirror => true
  | _, _ => false
  end.

(** ** Abstract AST

    [query] is a sqlparser [Query] node: [ctes] = with.cte_tables[i].query, [qbody] = body,
    [locks] = !locks.is_empty(), [subs] = every other Query node that is a direct child of
    this node in sqlparser's visitor (derived tables, scalar / EXISTS / IN sub-queries,
    sub-queries in VALUES rows, ORDER BY, LIMIT ...).  [body] is [SetExpr]; [BNested] is
    [SetExpr::Query] (a parenthesised query), [BSetOp] is UNION / INTERSECT / EXCEPT. *)
Inductive body :=
| BSelect (into : bool)
| BInsert
| BUpdate
| BValues
| BTable
| BSetOp (l r : body)
| BNested (q : query)
with query :=
| MkQuery (ctes : list query) (subs : list query) (qbody : body) (locks : bool).

Definition q_ctes (q : query) := match q with MkQuery c _ _ _ => c end.
Definition q_subs (q : query) := match q with MkQuery _ s _ _ => s end.
Definition q_body (q : query) := match q with MkQuery _ _ b _ => b end.
Definition q_locks (q : query) := match q with MkQuery _ _ _ l => l end.

(** Statement::StartTransaction | Statement::Query | anything else (query_router.rs:523-606) *)
Inductive stmt := SStartTxn | SQuery (q : query) | SOther.

(** query_router.rs:421-451 [is_mutation_query]: a sqlparser [Visitor] over the query and
    every Query nested anywhere in it; breaks (= true) at the first node with a locking
    clause or with [body_writes]: an Insert/Update body or a SELECT .. INTO, also below set
    operations ([SetExpr::Query] arms are Query nodes of their own and are visited).
    The result of a boolean "any" does not depend on the visiting order. *)
Fixpoint q_writes (q : query) : bool :=
  match q with
  | MkQuery ctes subs b lk => lk || existsb q_writes ctes || existsb q_writes subs || b_writes b
  end
with b_writes (b : body) : bool :=
  match b with
  | BInsert | BUpdate => true
  | BSelect into => into
  | BSetOp l r => b_writes l || b_writes r
  | BNested q => q_writes q
  | BValues | BTable => false
  end.

Definition is_mutation (q : query) : bool := q_writes q.

(** query_router.rs:548-551: has_locks || has_mutation *)
Definition is_write_query (q : query) : bool := q_locks q || is_mutation q.

(** ** Settings and per-session router state *)

(** The PoolSettings fields read by the role logic (pool.rs:171-…). *)
Record settings := {
  s_parser : bool;               (* query_parser_enabled *)
  s_splitting : bool;            (* query_parser_read_write_splitting *)
  s_primary_reads : bool;        (* primary_reads_enabled *)
  s_default_role : option role;  (* default_role: "any" = None *)
  s_plugins : bool               (* the pool has a [plugins] section (pool_settings.plugins.is_some()) *)
}.

(** QueryRouter fields (query_router.rs:87-105) that the role depends on.  The router is
    created once per client session (client.rs:885-886) and lives until disconnect. *)
Record rstate := {
  active_role : option role;
  o_parser : option bool;        (* query_parser_enabled override *)
  o_preads : option bool         (* primary_reads_enabled override *)
}.

Definition set_role (st : rstate) (r : option role) : rstate :=
  {| active_role := r; o_parser := o_parser st; o_preads := o_preads st |}.

(** client.rs:885-886: QueryRouter::new(); update_pool_settings; set_default_role() *)
Definition init_state (cfg : settings) : rstate :=
  {| active_role := s_default_role cfg; o_parser := None; o_preads := None |}.

(** query_router.rs:1297-1315 *)
Definition parser_on (cfg : settings) (st : rstate) : bool :=
  match o_parser st with Some b => b | None => s_parser cfg end.

(** query_router.rs:1317-1322 *)
Definition preads_on (cfg : settings) (st : rstate) : bool :=
  match o_preads st with Some b => b | None => s_primary_reads cfg end.

(** query_router.rs parses_messages (since 2a7a370): client.rs parses a message when the
    session's parser is on, and also when the pool (parser enabled) runs plugins — SET SERVER
    ROLE switches the session's role inference off, not the pool's plugins. *)
Definition parses_messages (cfg : settings) (st : rstate) : bool :=
  parser_on cfg st || (s_parser cfg && s_plugins cfg).

(** [self.query_parser_enabled == Some(false)]: the client chose the role itself *)
Definition override_off (st : rstate) : bool :=
  match o_parser st with Some false => true | _ => false end.

(** ** Custom commands (try_execute_command, query_router.rs:320-363).  The regexes that
    recognise them are C13's subject; here a command is already recognised. *)
Inductive role_arg := RPrimary | RReplica | RAny | RAuto | RDefault.
Inductive pr_arg := POn | POff | PDefault.
Inductive cmd := SetServerRole (a : role_arg) | SetPrimaryReads (a : pr_arg).

Definition exec_role_cmd (cfg : settings) (st : rstate) (c : cmd) : rstate :=
  match c with
  | SetServerRole RPrimary => {| active_role := Some Primary; o_parser := Some false; o_preads := o_preads st |}
  | SetServerRole RReplica => {| active_role := Some Replica; o_parser := Some false; o_preads := o_preads st |}
  | SetServerRole RAny     => {| active_role := None;         o_parser := Some false; o_preads := o_preads st |}
  | SetServerRole RAuto    => {| active_role := None;         o_parser := Some true;  o_preads := o_preads st |}
  | SetServerRole RDefault => {| active_role := s_default_role cfg; o_parser := None; o_preads := o_preads st |}
  | SetPrimaryReads POn      => {| active_role := active_role st; o_parser := o_parser st; o_preads := Some true |}
  | SetPrimaryReads POff     => {| active_role := active_role st; o_parser := o_parser st; o_preads := Some false |}
  | SetPrimaryReads PDefault => {| active_role := active_role st; o_parser := o_parser st; o_preads := None |}
  end.

(** ** infer (query_router.rs:489-616)

    db_activity_based_routing reads two process-global, time-dependent moka caches.  They
    are oracle inputs: [a_init] = "routing by activity is on and the database is in state
    Initializing" (509-520), [a_hot i] = "routing by activity is on and the i-th statement
    is a Query touching a table in the mutation cache" (537-546).  [quiet] = feature off.

    Shard inference (automatic_sharding_key) does not influence the role any more: a shard
    error is only recorded and returned at the end (505-507, 564-577, 592-606, 612-615).  It
    is not modelled here (C06); the error flag below is the "empty query" error only. *)
Record activity := { a_init : bool; a_hot : nat -> bool }.
Definition quiet : activity := {| a_init := false; a_hot := fun _ => false |}.

(** 557-560: the role a plain read gets *)
Definition read_role (cfg : settings) (st : rstate) : option role :=
  if preads_on cfg st then None else Some Replica.

(** the [for q in ast] loop; [i] = index of the head statement, [pin] =
    primary_set_based_on_activity, [visited] = visited_write_statement *)
Fixpoint infer_loop (cfg : settings) (act : activity) (i : nat) (pin visited : bool)
         (st : rstate) (ss : list stmt) : rstate :=
  match ss with
  | [] => st
  | SStartTxn :: _ => set_role st (Some Primary)                          (* 525-528: break *)
  | SQuery q :: rest =>
      if pin then infer_loop cfg act (S i) pin visited st rest            (* 532-535: continue *)
      else if a_hot act i
      then infer_loop cfg act (S i) true visited (set_role st (Some Primary)) rest   (* 537-546 *)
      else if is_write_query q
      then infer_loop cfg act (S i) pin true (set_role st (Some Primary)) rest      (* 551-554 *)
      else if visited
      then infer_loop cfg act (S i) pin visited st rest                              (* 555 *)
      else infer_loop cfg act (S i) pin visited (set_role st (read_role cfg st)) rest (* 556-561 *)
  | SOther :: rest =>
      infer_loop cfg act (S i) pin true (set_role st (Some Primary)) rest (* 581-590 *)
  end.

(** Result: new state and [true] iff Err("empty query").  NB: active_role is not reset at
    the start; whether the outcome depends on the old role is theorem c05_recomputed. *)
Definition infer_act (cfg : settings) (act : activity) (st : rstate) (ss : list stmt) : rstate * bool :=
  if negb (s_splitting cfg) then (st, false)                              (* "Nothing to do" *)
  else if override_off st then (st, false)   (* the guard BEFORE the empty-query block: a message parsed
                                                only for the plugins never touches an explicit role *)
  else match ss with
       | [] => (set_role st (Some Primary), true)                         (* 496-500 *)
       | _ => let st0 := if a_init act then set_role st (Some Primary) else st in
              (infer_loop cfg act 0 (a_init act) false st0 ss, false)
       end.

Definition infer (cfg : settings) (st : rstate) (ss : list stmt) : rstate * bool :=
  infer_act cfg quiet st ss.

(** ** infer with shard inference (automatic_sharding_key), query_router.rs:492-619 (98f5281)

    With automatic_sharding_key set, infer also calls infer_shard / infer_shard_on_write per
    statement and handle_inferred_shard.  Their outcome per statement is an oracle input
    [sho i]: no key found, a shard, or an error (assignment_parser: "Sharding key cannot be
    updated").  The first problem (an error, or a shard different from the previous one) is
    recorded in [shard_error]; afterwards shard inference is skipped, the loop goes on, and
    the error is returned at the end.  The role assignments are the ones of [infer_loop]:
    theorem c05_role_independent_of_shards. *)
Inductive shres := ShNone | ShSome (n : nat) | ShErr.

Record shst := {
  sh_active : option nat;   (* active_shard *)
  sh_prev : option nat;     (* prev_inferred_shard *)
  sh_err : bool             (* shard_error.is_some() *)
}.

(** the [match &self.pool_settings.automatic_sharding_key { Some(_) if shard_error.is_none() => .. }]
    arms (567-580, 595-609) with handle_inferred_shard (621-640) *)
Definition shard_step (auto : bool) (r : shres) (s : shst) : shst :=
  if auto && negb (sh_err s)
  then match r with
       | ShErr => {| sh_active := sh_active s; sh_prev := sh_prev s; sh_err := true |}
       | ShNone => s
       | ShSome n =>
           match sh_prev s with
           | Some p => if Nat.eqb p n
                       then {| sh_active := Some n; sh_prev := Some n; sh_err := false |}
                       else {| sh_active := sh_active s; sh_prev := sh_prev s; sh_err := true |}
           | None => {| sh_active := Some n; sh_prev := Some n; sh_err := false |}
           end
       end
  else s.

Fixpoint infer_sh_loop (cfg : settings) (act : activity) (auto : bool) (sho : nat -> shres)
         (i : nat) (pin visited : bool) (st : rstate) (sh : shst) (ss : list stmt) : rstate * shst :=
  match ss with
  | [] => (st, sh)
  | SStartTxn :: _ => (set_role st (Some Primary), sh)
  | SQuery q :: rest =>
      (* since the F39 repair the shard is inferred from every Query statement, also when the
         role was settled by recent activity (the two former [continue]s skipped it) *)
      let sh' := shard_step auto (sho i) sh in       (* after the role decision *)
      if pin then infer_sh_loop cfg act auto sho (S i) pin visited st sh' rest
      else if a_hot act i
      then infer_sh_loop cfg act auto sho (S i) true visited (set_role st (Some Primary)) sh' rest
      else
        if is_write_query q
        then infer_sh_loop cfg act auto sho (S i) pin true (set_role st (Some Primary)) sh' rest
        else if visited
        then infer_sh_loop cfg act auto sho (S i) pin visited st sh' rest
        else infer_sh_loop cfg act auto sho (S i) pin visited (set_role st (read_role cfg st)) sh' rest
  | SOther :: rest =>
      infer_sh_loop cfg act auto sho (S i) pin true (set_role st (Some Primary))
                    (shard_step auto (sho i) sh) rest
  end.

(** result: router state, active_shard, and [true] iff infer returns Err (empty query, or
    the recorded shard error) *)
Definition infer_sh (cfg : settings) (act : activity) (auto : bool) (sho : nat -> shres)
           (st : rstate) (shard : option nat) (ss : list stmt) : rstate * option nat * bool :=
  if negb (s_splitting cfg) then (st, shard, false)
  else if override_off st then (st, shard, false)
  else match ss with
       | [] => (set_role st (Some Primary), shard, true)
       | _ => let st0 := if a_init act then set_role st (Some Primary) else st in
              let r := infer_sh_loop cfg act auto sho 0 (a_init act) false st0
                         {| sh_active := shard; sh_prev := None; sh_err := false |} ss in
              (fst r, sh_active (snd r), sh_err (snd r))
       end.

(** ** The gating in client.rs (outer loop, 939-1052)

    One [item] = one iteration of the outer loop that ends in [continue] (custom command)
    or in a pool checkout: a simple-protocol 'Q', or an extended-protocol batch — the
    buffered P/B/D/E/C messages up to the message that triggers the checkout (Sync).
    [parsed] is what [QueryRouter::parse] returned for the message's SQL. *)
Inductive parsed := PRej | PAcc (act : activity) (ss : list stmt).

(** the 'Q' and 'P' arms of the outer loop: parse, plugins and infer only if parses_messages();
    a parse error is logged and the role stays; infer's own Err is discarded ([let _ =]). *)
Definition route_parsed (cfg : settings) (st : rstate) (p : parsed) : rstate :=
  if parses_messages cfg st
  then match p with PRej => st | PAcc act ss => fst (infer_act cfg act st ss) end
  else st.

(** Messages of a batch.  [name] identifies the prepared statement (ghost: the router never
    sees it).  Bind runs infer_shard_from_bind (shard only, 1020-1027); Describe / Execute /
    Close are only buffered (1030-1049). *)
Inductive bmsg := BParse (name : nat) (p : parsed) | BBind (name : nat) | BOther.

Definition route_bmsg (cfg : settings) (st : rstate) (m : bmsg) : rstate :=
  match m with BParse _ p => route_parsed cfg st p | BBind _ | BOther => st end.

Inductive item := ICmd (c : cmd) | ISimple (p : parsed) | IBatch (b : list bmsg).

Definition client_route (cfg : settings) (st : rstate) (it : item) : rstate :=
  match it with
  | ICmd c => exec_role_cmd cfg st c          (* handle_custom_protocol, 939-944 *)
  | ISimple p => route_parsed cfg st p
  | IBatch b => fold_left (route_bmsg cfg) b st
  end.

Definition session (cfg : settings) (st : rstate) (its : list item) : rstate :=
  fold_left (client_route cfg) its st.

(** the role handed to pool.get (client.rs:1075-1077) at the end of each item; [None] for
    custom commands (no checkout) *)
Definition checkout_role (cfg : settings) (st : rstate) (it : item) : option (option role) :=
  match it with ICmd _ => None | _ => Some (active_role (client_route cfg st it)) end.

Fixpoint session_trace (cfg : settings) (st : rstate) (its : list item) : list rstate :=
  match its with
  | [] => []
  | it :: r => let st' := client_route cfg st it in st' :: session_trace cfg st' r
  end.

(** ** Ghost bookkeeping for extended-protocol batches: which SQL each Bind executes.
    [None] = the parser rejected that Parse (the property makes no claim). *)
Definition ghost := list (nat * option (list stmt)).

Fixpoint glookup (g : ghost) (n : nat) : option (list stmt) :=
  match g with
  | [] => None
  | (k, v) :: r => if Nat.eqb k n then v else glookup r n
  end.

Definition parsed_stmts (p : parsed) : option (list stmt) :=
  match p with PRej => None | PAcc _ ss => Some ss end.

(** the statements bound (and then executed) in the batch, in order *)
Fixpoint batch_bound (g : ghost) (b : list bmsg) : list (option (list stmt)) :=
  match b with
  | [] => []
  | BParse n p :: r => batch_bound ((n, parsed_stmts p) :: g) r
  | BBind n :: r => glookup g n :: batch_bound g r
  | BOther :: r => batch_bound g r
  end.

(** The standard batch: one accepted Parse first, then only Binds of that statement (and
    Describe/Execute/Close).  Everything else is the known class F17 (theorem
    c05_batch_refuted): a second Parse in the batch, or a Bind of a statement prepared by an
    earlier batch — the role is the one inferred from the LAST accepted Parse, or stale. *)
Definition batch_std (b : list bmsg) : bool :=
  match b with
  | BParse n (PAcc _ _) :: rest =>
      forallb (fun m => match m with BParse _ _ => false | BBind k => Nat.eqb k n | BOther => true end) rest
  | _ => false
  end.

Definition known_c05 (b : list bmsg) : bool := negb (batch_std b).

(** ** pool.get (pool.rs:715-855) — transcribed; not reachable without servers, see Props. *)

(** config.rs:51-67: impl PartialEq<Option<Role>> for Role — None matches everything *)
Definition role_matches (a : role) (want : option role) : bool :=
  match want with None => true | Some r => role_eqb a r end.

Record addr := { a_id : nat; a_shard : nat; a_role : role }.

Inductive default_shard := DShard (n : nat) | DRandom.   (* Random and RandomHealthy: no retain *)

(** 721-730 and 744-760: which shard the candidates are retained by.
    outer None = Err(InvalidShardId); inner None = every shard stays *)
Definition retain_shard (nshards : nat) (sh : option nat) (d : default_shard) : option (option nat) :=
  if Nat.eqb nshards 1 then Some (Some 0)
  else match sh with
       | Some s => if Nat.ltb s nshards then Some (Some s) else None
       | None => match d with DShard n => Some (Some n) | DRandom => Some None end
       end.

(** 732-737 filter by role, 745/748 retain by shard (shuffle / sorting only reorder) *)
Definition candidates (want : option role) (keep : option nat) (addrs : list addr) : list addr :=
  filter (fun a => match keep with Some s => Nat.eqb (a_shard a) s | None => true end)
         (filter (fun a => role_matches (a_role a) want) addrs).

Inductive get_result := GInvalidShard | GAllDown | GServer (a : addr).

(** 774-854: candidates are popped one by one; a banned address, a failed checkout or a
    failed health check skips to the next candidate ([usable] is that oracle, per address);
    when the list is exhausted: Err(AllServersDown).  Result = the set of possible outcomes
    (which usable candidate is popped first depends on shuffle / load). *)
Definition pool_get (nshards : nat) (d : default_shard) (usable : addr -> bool)
           (sh : option nat) (want : option role) (addrs : list addr) : list get_result :=
  match retain_shard nshards sh d with
  | None => [GInvalidShard]
  | Some keep =>
      match filter usable (candidates want keep addrs) with
      | [] => [GAllDown]
      | l => map GServer l
      end
  end.
