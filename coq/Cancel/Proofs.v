(** C10 — lemmas about coq/Cancel/Model.v.  All statements are for every schedule (list of
    ops of any length over any number of clients and server connections). *)
From Coq Require Import ZArith NArith List Bool Arith Lia.
From PV Require Import Cancel.Model.
Import ListNotations.

(* ------------------------------------------------------------------ the map *)

Lemma ckey_eqb_spec : forall a b : ckey, reflect (a = b) (ckey_eqb a b).
Proof.
  intros [a1 a2] [b1 b2]. unfold ckey_eqb. cbn [fst snd].
  destruct (Z.eqb_spec a1 b1), (Z.eqb_spec a2 b2); cbn; constructor; congruence.
Qed.

Lemma lookup_remove_eq : forall k m, csm_lookup k (csm_remove k m) = None.
Proof.
  induction m as [|[k' t] r IH]; cbn; auto.
  destruct (ckey_eqb_spec k' k); cbn; auto.
  destruct (ckey_eqb_spec k' k); [contradiction|auto].
Qed.

Lemma lookup_remove_neq : forall k k' m, k <> k' -> csm_lookup k' (csm_remove k m) = csm_lookup k' m.
Proof.
  induction m as [|[k0 t] r IH]; cbn; intros; auto.
  destruct (ckey_eqb_spec k0 k); cbn.
  - subst. destruct (ckey_eqb_spec k k'); [contradiction|auto].
  - destruct (ckey_eqb_spec k0 k'); auto.
Qed.

Lemma lookup_remove_some : forall k k' m t,
  csm_lookup k' (csm_remove k m) = Some t -> k <> k' /\ csm_lookup k' m = Some t.
Proof.
  intros k k' m t H. destruct (ckey_eqb_spec k k') as [->|N].
  - rewrite lookup_remove_eq in H. discriminate.
  - split; auto. rewrite lookup_remove_neq in H; auto.
Qed.

Lemma lookup_remove_none : forall k k' m, csm_lookup k' m = None -> csm_lookup k' (csm_remove k m) = None.
Proof.
  intros k k' m H. destruct (ckey_eqb_spec k k') as [->|N].
  - apply lookup_remove_eq.
  - rewrite lookup_remove_neq; auto.
Qed.

Lemma lookup_insert_eq : forall k t m, csm_lookup k (csm_insert k t m) = Some t.
Proof. intros. unfold csm_insert. cbn. destruct (ckey_eqb_spec k k); congruence. Qed.

Lemma lookup_insert_neq : forall k k' t m, k <> k' -> csm_lookup k' (csm_insert k t m) = csm_lookup k' m.
Proof.
  intros. unfold csm_insert. cbn. destruct (ckey_eqb_spec k k'); [contradiction|].
  apply lookup_remove_neq; auto.
Qed.

Lemma lookup_remove_all_some : forall ks k m t,
  csm_lookup k (csm_remove_all ks m) = Some t -> csm_lookup k m = Some t.
Proof.
  induction ks as [|k0 r IH]; cbn; intros k m t H; auto.
  apply IH in H. apply lookup_remove_some in H. tauto.
Qed.

Lemma lookup_remove_all_none : forall ks k m,
  csm_lookup k m = None -> csm_lookup k (csm_remove_all ks m) = None.
Proof.
  induction ks as [|k0 r IH]; cbn; intros k m H; auto.
  apply IH. apply lookup_remove_none. auto.
Qed.

Lemma retire_held : forall f l s c, retire_sv f l s = HeldBy c <-> f s = HeldBy c.
Proof.
  intros. unfold retire_sv. destruct (f s); try tauto.
  destruct (existsb (Nat.eqb s) l); split; discriminate.
Qed.

Lemma claim_cases : forall E v c s m,
  claim E v c s m = m \/ claim E v c s m = csm_insert (key E c) (tgt E s) m.
Proof. intros. unfold claim. destruct (claim_needs_positive_pid v && _); auto. Qed.

Lemma claim_always : forall E v c s m, claim_needs_positive_pid v = false ->
  claim E v c s m = csm_insert (key E c) (tgt E s) m.
Proof. intros E v c s m H. unfold claim. rewrite H. reflexivity. Qed.

Lemma updc_eq : forall f c x, updc f c x c = x.
Proof. intros. unfold updc. rewrite Nat.eqb_refl. reflexivity. Qed.
Lemma updc_neq : forall f c x c', c' <> c -> updc f c x c' = f c'.
Proof. intros. unfold updc. destruct (Nat.eqb_spec c' c); [contradiction|reflexivity]. Qed.
Lemma upds_eq : forall f s x, upds f s x s = x.
Proof. intros. unfold upds. rewrite Nat.eqb_refl. reflexivity. Qed.
Lemma upds_neq : forall f s x s', s' <> s -> upds f s x s' = f s'.
Proof. intros. unfold upds. destruct (Nat.eqb_spec s' s); [contradiction|reflexivity]. Qed.
Lemma updg_eq : forall f k x, updg f k x k = x.
Proof. intros. unfold updg. destruct (ckey_eqb_spec k k); congruence. Qed.
Lemma updg_neq : forall f k x k', k' <> k -> updg f k x k' = f k'.
Proof. intros. unfold updg. destruct (ckey_eqb_spec k' k); [contradiction|reflexivity]. Qed.

Lemma back_not_held : forall clean c, back clean <> HeldBy c.
Proof. destruct clean; discriminate. Qed.

(* ------------------------------------------------------------------ invariants *)

Section Invariants.
Variable E : env.
Variable v : variant.

(** Exclusive ownership: a connection is borrowed by c iff c is running and holds it. *)
Definition Own (st : state) : Prop :=
  forall c s, sv st s = HeldBy c <-> (held (cl st c) = Some s /\ cphase (cl st c) = Running).

(** Every map entry is the entry of a client for the connection it checked out; that client
    either still borrows the connection or is in the exit window. *)
Definition Safe (st : state) : Prop :=
  forall k t, csm_lookup k (csm st) = Some t ->
    exists c s, key E c = k /\ tgt E s = t /\ held (cl st c) = Some s /\
                (sv st s = HeldBy c \/ cphase (cl st c) = Exiting).

(** With the order "entry first" there is no exit window. *)
Definition Strong (st : state) : Prop :=
  forall k t, csm_lookup k (csm st) = Some t ->
    exists c s, key E c = k /\ tgt E s = t /\ sv st s = HeldBy c.

(** Completeness: the borrower's key leads to the borrowed connection, unless a CancelDrop
    removed the entry since the checkout. *)
Definition Compl (st : state) : Prop :=
  forall c s, sv st s = HeldBy c -> gcancel st (key E c) = false ->
    csm_lookup (key E c) (csm st) = Some (tgt E s).

Definition GhostOff (st : state) : Prop := forall k, gcancel st k = false.

Definition NoneUnlessHolding (st : state) : Prop :=
  forall c, cphase (cl st c) = Gone -> held (cl st c) = None.

Definition key_inj : Prop := forall c c', key E c = key E c' -> c = c'.

Ltac split_step o :=
  destruct o; cbn [step];
  repeat match goal with
         | |- context [match held ?x with _ => _ end] => destruct (held x) eqn:?
         | |- context [match cphase ?x with _ => _ end] => destruct (cphase x) eqn:?
         | |- context [match sv ?st ?s with _ => _ end] => destruct (sv st s) eqn:?
         | |- context [if cancel_drop_removes ?x then _ else _] => destruct (cancel_drop_removes x) eqn:?
         | |- context [if reload_prunes ?x then _ else _] => destruct (reload_prunes x) eqn:?
         | |- context [if cancel_retries ?x then _ else _] => destruct (cancel_retries x) eqn:?
         | |- context [if lookup_at_accept ?x then _ else _] => destruct (lookup_at_accept x) eqn:?
         | |- context [match csm_lookup ?k ?m with _ => _ end] => destruct (csm_lookup k m) eqn:?
         end; auto.

Lemma own_init : Own init.
Proof. intros c s; cbn; split; [discriminate|intros [H _]; discriminate]. Qed.

Lemma own_step : forall st o, Own st -> Own (step E v st o).
Proof.
  intros st o H. split_step o; intros c' s'; cbn [sv cl].
  - (* Checkout *)
    destruct (Nat.eq_dec s' s) as [->|Ns]; destruct (Nat.eq_dec c' c) as [->|Nc];
      rewrite ?upds_eq, ?updc_eq, ?upds_neq, ?updc_neq by auto; cbn.
    + split; auto.
    + split; [intros X; inversion X; congruence|].
      intros AB. apply (proj2 (H c' s)) in AB. congruence.
    + split; [intros X; apply H in X; destruct X; congruence|intros [X _]; congruence].
    + apply H.
  - (* ReleaseNormal *)
    assert (Hs : sv st s = HeldBy c) by (apply H; auto).
    destruct (Nat.eq_dec s' s) as [->|Ns]; destruct (Nat.eq_dec c' c) as [->|Nc];
      rewrite ?upds_eq, ?updc_eq, ?upds_neq, ?updc_neq by auto; cbn.
    + split; [intros X; exfalso; eapply back_not_held; eauto|intros [X _]; discriminate].
    + split; [intros X; exfalso; eapply back_not_held; eauto|].
      intros X. apply H in X. congruence.
    + split; [intros X; apply H in X; destruct X; congruence|intros [X _]; discriminate].
    + apply H.
  - (* Terminate *)
    assert (Hs : sv st s = HeldBy c) by (apply H; auto).
    destruct (Nat.eq_dec s' s) as [->|Ns]; destruct (Nat.eq_dec c' c) as [->|Nc];
      rewrite ?upds_eq, ?updc_eq, ?upds_neq, ?updc_neq by auto; cbn.
    + split; [intros X; exfalso; eapply back_not_held; eauto|intros [X _]; discriminate].
    + split; [intros X; exfalso; eapply back_not_held; eauto|].
      intros X. apply H in X. congruence.
    + split; [intros X; apply H in X; destruct X; congruence|intros [X _]; discriminate].
    + apply H.
  - (* ExitDropGuard *)
    assert (Hs : sv st s = HeldBy c) by (apply H; auto).
    destruct (Nat.eq_dec s' s) as [->|Ns]; destruct (Nat.eq_dec c' c) as [->|Nc];
      rewrite ?upds_eq, ?updc_eq, ?upds_neq, ?updc_neq by auto; cbn.
    + split; [intros X; exfalso; eapply back_not_held; eauto|intros [_ X]; discriminate].
    + split; [intros X; exfalso; eapply back_not_held; eauto|].
      intros X. apply H in X. congruence.
    + split; [intros X; apply H in X; destruct X; congruence|intros [_ X]; discriminate].
    + apply H.
  - (* ExitDropClient, Exiting with held = Some *)
    destruct (Nat.eq_dec c' c) as [->|Nc]; rewrite ?updc_eq, ?updc_neq by auto; cbn.
    + split; [intros X; apply H in X; destruct X; congruence|intros [X _]; discriminate].
    + apply H.
  - (* ExitDropClient, Running with held = None *)
    destruct (Nat.eq_dec c' c) as [->|Nc]; rewrite ?updc_eq, ?updc_neq by auto; cbn.
    + split; [intros X; apply H in X; destruct X; congruence|intros [X _]; discriminate].
    + apply H.
  - (* ExitDropClient, Exiting with held = None *)
    destruct (Nat.eq_dec c' c) as [->|Nc]; rewrite ?updc_eq, ?updc_neq by auto; cbn.
    + split; [intros X; apply H in X; destruct X; congruence|intros [X _]; discriminate].
    + apply H.
  - (* SrvClose *)
    destruct (Nat.eq_dec s' s) as [->|Ns]; rewrite ?upds_eq, ?upds_neq by auto.
    + split; [discriminate|]. intros X. apply H in X. congruence.
    + apply H.
  - (* Reload, pruning *)
    split; [intros X; apply retire_held in X; apply H; auto|intros X; apply retire_held; apply H; auto].
  - (* Reload *)
    split; [intros X; apply retire_held in X; apply H; auto|intros X; apply retire_held; apply H; auto].
Qed.

Lemma safe_init : Safe init.
Proof. intros k t; cbn; discriminate. Qed.

(** Transport of a Safe witness across a step that changes neither the witness client nor the
    location of its connection. *)
Lemma safe_step : forall st o, Own st -> Safe st -> Safe (step E v st o).
Proof.
  intros st o HO H. split_step o; intros k' t' L; cbn [csm cl sv] in *.
  - (* Checkout c s *)
    destruct (claim_cases E v c s (csm st)) as [CL|CL]; rewrite CL in L.
    { (* the claim was skipped (mutant): nothing new in the map *)
      destruct (H _ _ L) as (c1 & s1 & K & T & Hh & D).
      assert (c1 <> c) by congruence.
      exists c1, s1. rewrite updc_neq by auto. repeat split; auto.
      destruct D as [D|D]; [left|right; auto].
      rewrite upds_neq; auto. intros ->. congruence. }
    destruct (ckey_eqb_spec (key E c) k') as [<-|Nk].
    + rewrite lookup_insert_eq in L. inversion L; subst.
      exists c, s. rewrite updc_eq, upds_eq. cbn. auto.
    + rewrite lookup_insert_neq in L by auto.
      destruct (H _ _ L) as (c1 & s1 & K & T & Hh & D).
      assert (c1 <> c) by congruence.
      exists c1, s1. rewrite updc_neq by auto. repeat split; auto.
      destruct D as [D|D]; [left|right; auto].
      rewrite upds_neq; auto. intros ->. congruence.
  - (* ReleaseNormal c *)
    apply lookup_remove_some in L. destruct L as [Nk L].
    destruct (H _ _ L) as (c1 & s1 & K & T & Hh & D).
    assert (c1 <> c) by congruence.
    exists c1, s1. rewrite updc_neq by auto. repeat split; auto.
    destruct D as [D|D]; [left|right; auto].
    rewrite upds_neq; auto. intros ->.
    assert (sv st s = HeldBy c) by (apply HO; auto). congruence.
  - (* Terminate c *)
    apply lookup_remove_some in L. destruct L as [Nk L].
    destruct (H _ _ L) as (c1 & s1 & K & T & Hh & D).
    assert (c1 <> c) by congruence.
    exists c1, s1. rewrite updc_neq by auto. repeat split; auto.
    destruct D as [D|D]; [left|right; auto].
    rewrite upds_neq; auto. intros ->.
    assert (sv st s = HeldBy c) by (apply HO; auto). congruence.
  - (* ExitDropGuard c *)
    assert (L' : csm_lookup k' (csm st) = Some t').
    { destruct (exit_entry_first v); auto. apply lookup_remove_some in L. tauto. }
    destruct (H _ _ L') as (c1 & s1 & K & T & Hh & D).
    destruct (Nat.eq_dec c1 c) as [->|Nc].
    + exists c, s1. rewrite updc_eq. cbn. repeat split; auto. congruence.
    + exists c1, s1. rewrite updc_neq by auto. repeat split; auto.
      destruct D as [D|D]; [left|right; auto].
      rewrite upds_neq; auto. intros ->.
      assert (sv st s = HeldBy c) by (apply HO; auto). congruence.
  - (* ExitDropClient c, Exiting *)
    apply lookup_remove_some in L. destruct L as [Nk L].
    destruct (H _ _ L) as (c1 & s1 & K & T & Hh & D).
    assert (c1 <> c) by congruence.
    exists c1, s1. rewrite updc_neq by auto. auto.
  - apply lookup_remove_some in L. destruct L as [Nk L].
    destruct (H _ _ L) as (c1 & s1 & K & T & Hh & D).
    assert (c1 <> c) by congruence.
    exists c1, s1. rewrite updc_neq by auto. auto.
  - apply lookup_remove_some in L. destruct L as [Nk L].
    destruct (H _ _ L) as (c1 & s1 & K & T & Hh & D).
    assert (c1 <> c) by congruence.
    exists c1, s1. rewrite updc_neq by auto. auto.
  - (* SrvClose s *)
    destruct (H _ _ L) as (c1 & s1 & K & T & Hh & D).
    exists c1, s1. repeat split; auto.
    destruct D as [D|D]; [left|right; auto].
    rewrite upds_neq; auto. intros ->. congruence.
  - (* CancelDrop *)
    apply lookup_remove_some in L. destruct L as [Nk L]. apply H; auto.
  - (* Reload, pruning *)
    apply lookup_remove_all_some in L.
    destruct (H _ _ L) as (c1 & s1 & K & T & Hh & D).
    exists c1, s1. repeat split; auto.
    destruct D as [D|D]; [left; apply retire_held; auto|right; auto].
  - (* Reload *)
    destruct (H _ _ L) as (c1 & s1 & K & T & Hh & D).
    exists c1, s1. repeat split; auto.
    destruct D as [D|D]; [left; apply retire_held; auto|right; auto].
Qed.

Lemma strong_init : Strong init.
Proof. intros k t; cbn; discriminate. Qed.

Lemma strong_step : exit_entry_first v = true ->
  forall st o, Own st -> Strong st -> Strong (step E v st o).
Proof.
  intros EF st o HO H. split_step o; intros k' t' L; cbn [csm cl sv] in *.
  - destruct (claim_cases E v c s (csm st)) as [CL|CL]; rewrite CL in L.
    { destruct (H _ _ L) as (c1 & s1 & K & T & D).
      exists c1, s1. repeat split; auto. rewrite upds_neq; auto. intros ->. congruence. }
    destruct (ckey_eqb_spec (key E c) k') as [<-|Nk].
    + rewrite lookup_insert_eq in L. inversion L; subst.
      exists c, s. rewrite upds_eq. auto.
    + rewrite lookup_insert_neq in L by auto.
      destruct (H _ _ L) as (c1 & s1 & K & T & D).
      exists c1, s1. repeat split; auto. rewrite upds_neq; auto. intros ->. congruence.
  - apply lookup_remove_some in L. destruct L as [Nk L].
    destruct (H _ _ L) as (c1 & s1 & K & T & D).
    exists c1, s1. repeat split; auto. rewrite upds_neq; auto. intros ->.
    assert (sv st s = HeldBy c) by (apply HO; auto). congruence.
  - apply lookup_remove_some in L. destruct L as [Nk L].
    destruct (H _ _ L) as (c1 & s1 & K & T & D).
    exists c1, s1. repeat split; auto. rewrite upds_neq; auto. intros ->.
    assert (sv st s = HeldBy c) by (apply HO; auto). congruence.
  - rewrite EF in L. apply lookup_remove_some in L. destruct L as [Nk L].
    destruct (H _ _ L) as (c1 & s1 & K & T & D).
    exists c1, s1. repeat split; auto. rewrite upds_neq; auto. intros ->.
    assert (sv st s = HeldBy c) by (apply HO; auto). congruence.
  - apply lookup_remove_some in L. destruct L as [Nk L]. apply H; auto.
  - apply lookup_remove_some in L. destruct L as [Nk L]. apply H; auto.
  - apply lookup_remove_some in L. destruct L as [Nk L]. apply H; auto.
  - destruct (H _ _ L) as (c1 & s1 & K & T & D).
    exists c1, s1. repeat split; auto. rewrite upds_neq; auto. intros ->. congruence.
  - apply lookup_remove_some in L. destruct L as [Nk L]. apply H; auto.
  - apply lookup_remove_all_some in L.
    destruct (H _ _ L) as (c1 & s1 & K & T & D).
    exists c1, s1. repeat split; auto. apply retire_held; auto.
  - destruct (H _ _ L) as (c1 & s1 & K & T & D).
    exists c1, s1. repeat split; auto. apply retire_held; auto.
Qed.

Lemma compl_init : Compl init.
Proof. intros c s; cbn; discriminate. Qed.

Lemma compl_step : key_inj -> reload_prunes v = false -> claim_needs_positive_pid v = false ->
  forall st o, Own st -> Compl st -> Compl (step E v st o).
Proof.
  intros INJ RP CP st o HO H. split_step o; intros c' s' Hs Hg; cbn [csm cl sv gcancel] in *.
  - (* Checkout c s *)
    rewrite (claim_always E v c s (csm st) CP).
    destruct (Nat.eq_dec s' s) as [->|Ns].
    + rewrite upds_eq in Hs. inversion Hs; subst. apply lookup_insert_eq.
    + rewrite upds_neq in Hs by auto.
      assert (c' <> c). { intros ->. apply HO in Hs. destruct Hs. congruence. }
      assert (key E c <> key E c') by (intros X; apply INJ in X; congruence).
      rewrite lookup_insert_neq by auto. apply H; auto.
      rewrite updg_neq in Hg; auto.
  - (* ReleaseNormal c *)
    assert (Hsc : sv st s = HeldBy c) by (apply HO; auto).
    destruct (Nat.eq_dec s' s) as [->|Ns].
    + rewrite upds_eq in Hs. exfalso; eapply back_not_held; eauto.
    + rewrite upds_neq in Hs by auto.
      assert (c' <> c). { intros ->. apply HO in Hs. destruct Hs. congruence. }
      assert (key E c <> key E c') by (intros X; apply INJ in X; congruence).
      rewrite lookup_remove_neq by auto. apply H; auto.
  - (* Terminate c *)
    destruct (Nat.eq_dec s' s) as [->|Ns].
    + rewrite upds_eq in Hs. exfalso; eapply back_not_held; eauto.
    + rewrite upds_neq in Hs by auto.
      assert (c' <> c). { intros ->. apply HO in Hs. destruct Hs. congruence. }
      assert (key E c <> key E c') by (intros X; apply INJ in X; congruence).
      rewrite lookup_remove_neq by auto. apply H; auto.
  - (* ExitDropGuard c *)
    destruct (Nat.eq_dec s' s) as [->|Ns].
    + rewrite upds_eq in Hs. exfalso; eapply back_not_held; eauto.
    + rewrite upds_neq in Hs by auto.
      assert (c' <> c). { intros ->. apply HO in Hs. destruct Hs. congruence. }
      assert (key E c <> key E c') by (intros X; apply INJ in X; congruence).
      destruct (exit_entry_first v); [rewrite lookup_remove_neq by auto|]; apply H; auto.
  - (* ExitDropClient, Exiting *)
    assert (c' <> c). { intros ->. apply HO in Hs. destruct Hs. congruence. }
    assert (key E c <> key E c') by (intros X; apply INJ in X; congruence).
    rewrite lookup_remove_neq by auto. apply H; auto.
  - assert (c' <> c). { intros ->. apply HO in Hs. destruct Hs. congruence. }
    assert (key E c <> key E c') by (intros X; apply INJ in X; congruence).
    rewrite lookup_remove_neq by auto. apply H; auto.
  - assert (c' <> c). { intros ->. apply HO in Hs. destruct Hs. congruence. }
    assert (key E c <> key E c') by (intros X; apply INJ in X; congruence).
    rewrite lookup_remove_neq by auto. apply H; auto.
  - (* SrvClose *)
    destruct (Nat.eq_dec s' s) as [->|Ns].
    + rewrite upds_eq in Hs. discriminate.
    + rewrite upds_neq in Hs by auto. apply H; auto.
  - (* CancelDrop k, removing *)
    destruct (ckey_eqb_spec (key E c') k) as [X|X].
    + rewrite X, updg_eq in Hg. discriminate.
    + rewrite updg_neq in Hg by auto. rewrite lookup_remove_neq by congruence. apply H; auto.
  - (* Reload, pruning: excluded *) discriminate RP.
  - (* Reload: the map is untouched, borrowed connections stay borrowed *)
    apply retire_held in Hs. apply H; auto.
Qed.

Lemma ghost_off_step : cancel_drop_removes v = false ->
  forall st o, GhostOff st -> GhostOff (step E v st o).
Proof.
  intros CD st o H. split_step o; intros k'; cbn [gcancel]; try apply H.
  - unfold updg. destruct (ckey_eqb k' (key E c)); auto.
  - congruence.
Qed.

(* ------------------------------------------------------------------ schedules *)

Lemma fold_inv : forall (P : state -> Prop),
  (forall st o, P st -> P (step E v st o)) ->
  forall ops st, P st -> P (fold_left (step E v) ops st).
Proof. intros P HP. induction ops; cbn; intros; auto. Qed.

Lemma run_own : forall ops, Own (run E v ops).
Proof. intros. unfold run. apply (fold_inv Own); [apply own_step|apply own_init]. Qed.

Lemma run_own_safe : forall ops, Own (run E v ops) /\ Safe (run E v ops).
Proof.
  intros. unfold run. apply (fold_inv (fun st => Own st /\ Safe st)).
  - intros st o [A B]. split; [apply own_step|apply safe_step]; auto.
  - split; [apply own_init|apply safe_init].
Qed.

Lemma run_own_strong : exit_entry_first v = true -> forall ops, Own (run E v ops) /\ Strong (run E v ops).
Proof.
  intros EF ops. unfold run. apply (fold_inv (fun st => Own st /\ Strong st)).
  - intros st o [A B]. split; [apply own_step|apply strong_step]; auto.
  - split; [apply own_init|apply strong_init].
Qed.

Lemma run_own_compl : key_inj -> reload_prunes v = false -> claim_needs_positive_pid v = false ->
  forall ops, Own (run E v ops) /\ Compl (run E v ops).
Proof.
  intros INJ RP CP ops. unfold run. apply (fold_inv (fun st => Own st /\ Compl st)).
  - intros st o [A B]. split; [apply own_step|apply compl_step]; auto.
  - split; [apply own_init|apply compl_init].
Qed.

Lemma run_ghost_off : cancel_drop_removes v = false -> forall ops, GhostOff (run E v ops).
Proof.
  intros CD ops. unfold run. apply (fold_inv GhostOff); [apply ghost_off_step; auto|intros k; reflexivity].
Qed.

Lemma cancel_out_contact : forall st k t, cancel_out st k = Contact t <-> csm_lookup k (csm st) = Some t.
Proof.
  intros. unfold cancel_out. destruct (csm_lookup k (csm st)); split; intros X; inversion X; auto; discriminate.
Qed.

Lemma cancel_out_silent : forall st k, cancel_out st k = Silent <-> csm_lookup k (csm st) = None.
Proof.
  intros. unfold cancel_out. destruct (csm_lookup k (csm st)); split; intros X; auto; discriminate.
Qed.

(** A cancel reaches only a connection that the key's owner checked out, and that owner still
    borrows it or is in the exit window. *)
Lemma targets_holder : forall ops k t, cancel_out (run E v ops) k = Contact t ->
  exists c s, key E c = k /\ tgt E s = t /\ held (cl (run E v ops) c) = Some s /\
              (sv (run E v ops) s = HeldBy c \/ cphase (cl (run E v ops) c) = Exiting).
Proof. intros ops k t H. apply cancel_out_contact in H. apply (proj2 (run_own_safe ops)); auto. Qed.

Lemma targets_holder_no_exiting : forall ops k t,
  (forall c, cphase (cl (run E v ops) c) <> Exiting) ->
  cancel_out (run E v ops) k = Contact t ->
  exists c s, key E c = k /\ tgt E s = t /\ held (cl (run E v ops) c) = Some s /\
              cphase (cl (run E v ops) c) = Running /\ sv (run E v ops) s = HeldBy c.
Proof.
  intros ops k t NE H. destruct (targets_holder _ _ _ H) as (c & s & K & T & Hh & D).
  exists c, s. destruct D as [D|D]; [|exfalso; eapply NE; eauto].
  repeat split; auto. apply (run_own ops) in D. tauto.
Qed.

(* clients not named by the schedule never move *)
Lemma untouched_step : forall st o c, ~ In c (op_clients o) -> cl (step E v st o) c = cl st c.
Proof.
  intros st o c N. split_step o; cbn [cl]; cbn in N; rewrite updc_neq; auto.
Qed.

Lemma untouched : forall ops st c, ~ In c (mentioned ops) -> cl (fold_left (step E v) ops st) c = cl st c.
Proof.
  induction ops as [|o r IH]; cbn [fold_left mentioned flat_map]; intros; auto.
  rewrite IH by (intros X; apply H; apply in_or_app; auto).
  apply untouched_step. intros X; apply H; apply in_or_app; auto.
Qed.

Lemma exiting_mentioned : forall ops c, cphase (cl (run E v ops) c) = Exiting -> In c (mentioned ops).
Proof.
  intros ops c H. destruct (in_dec Nat.eq_dec c (mentioned ops)); auto.
  unfold run in H. rewrite untouched in H by auto. cbn in H. discriminate.
Qed.

Lemma known_exit_window_false : forall ops, known_exit_window E v ops = false ->
  forall c, cphase (cl (run E v ops) c) <> Exiting.
Proof.
  intros ops H c X. unfold known_exit_window in H.
  assert (existsb (fun c => is_exiting (cphase (cl (run E v ops) c))) (mentioned ops) = true).
  { apply existsb_exists. exists c. split; [apply exiting_mentioned; auto|rewrite X; reflexivity]. }
  congruence.
Qed.

Lemma targets_holder_guarded : forall ops k t, known_exit_window E v ops = false ->
  cancel_out (run E v ops) k = Contact t ->
  exists c s, key E c = k /\ tgt E s = t /\ held (cl (run E v ops) c) = Some s /\
              cphase (cl (run E v ops) c) = Running /\ sv (run E v ops) s = HeldBy c.
Proof. intros. apply targets_holder_no_exiting; auto. apply known_exit_window_false; auto. Qed.

Lemma repaired_order_strong : exit_entry_first v = true -> forall ops k t,
  cancel_out (run E v ops) k = Contact t ->
  exists c s, key E c = k /\ tgt E s = t /\ held (cl (run E v ops) c) = Some s /\
              cphase (cl (run E v ops) c) = Running /\ sv (run E v ops) s = HeldBy c.
Proof.
  intros EF ops k t H. apply cancel_out_contact in H.
  destruct (run_own_strong EF ops) as [O S]. destruct (S _ _ H) as (c & s & K & T & D).
  exists c, s. pose proof (proj1 (O c s) D). tauto.
Qed.

Lemma uses_server_key : forall ops k t, cancel_out (run E v ops) k = Contact t -> exists s, t = tgt E s.
Proof. intros ops k t H. destruct (targets_holder _ _ _ H) as (c & s & _ & T & _). eauto. Qed.

Lemma never_client_key : (forall c s, key E c <> (fst (fst (tgt E s)), snd (fst (tgt E s)))) ->
  forall ops k t, cancel_out (run E v ops) k = Contact t -> (fst (fst t), snd (fst t)) <> k.
Proof.
  intros D ops k t H. destruct (targets_holder _ _ _ H) as (c & s & K & T & _). subst. intros X.
  apply (D c s). auto.
Qed.

Lemma unknown_key_silent : forall ops k, (forall c, key E c <> k) -> cancel_out (run E v ops) k = Silent.
Proof.
  intros ops k U. destruct (cancel_out (run E v ops) k) eqn:X; auto.
  destruct (targets_holder _ _ _ X) as (c & _ & K & _). exfalso. eapply U; eauto.
Qed.

Lemma no_server_no_contact : key_inj -> forall ops c,
  held (cl (run E v ops) c) = None -> cancel_out (run E v ops) (key E c) = Silent.
Proof.
  intros INJ ops c Hn. destruct (cancel_out (run E v ops) (key E c)) eqn:X; auto.
  destruct (targets_holder _ _ _ X) as (c' & s & K & _ & Hh & _).
  apply INJ in K. subst. congruence.
Qed.

Lemma gone_holds_nothing : forall ops c, cphase (cl (run E v ops) c) = Gone -> held (cl (run E v ops) c) = None.
Proof.
  intros ops. unfold run. apply (fold_inv NoneUnlessHolding).
  - intros st o H. split_step o; intros c' G; cbn [cl] in *;
      (destruct (Nat.eq_dec c' c) as [->|N]; [rewrite updc_eq in *; cbn in *; try discriminate; auto
                                              |rewrite updc_neq in * by auto; auto]).
  - intros c; cbn; discriminate.
Qed.

(* ---- release *)

Lemma dead_stays_dead : forall k ops st, csm_lookup k (csm st) = None -> no_checkout_key E k ops = true ->
  csm_lookup k (csm (fold_left (step E v) ops st)) = None.
Proof.
  induction ops as [|o r IH]; cbn; intros st H N; auto.
  apply andb_prop in N. destruct N as [N1 N2]. apply IH; auto. clear IH N2.
  split_step o; cbn [csm]; try (apply lookup_remove_none; auto).
  - destruct (claim_cases E v c s (csm st)) as [CL|CL]; rewrite CL; auto.
    rewrite lookup_insert_neq; auto. intros X. rewrite X in N1.
    destruct (ckey_eqb_spec k k); [discriminate|congruence].
  - destruct (exit_entry_first v); auto. apply lookup_remove_none; auto.
  - apply lookup_remove_all_none; auto.
Qed.

Lemma release_kills : forall st c clean s, held (cl st c) = Some s -> cphase (cl st c) = Running ->
  csm_lookup (key E c) (csm (step E v st (ReleaseNormal c clean))) = None /\
  csm_lookup (key E c) (csm (step E v st (Terminate c clean))) = None.
Proof. intros st c clean s H1 H2. cbn. rewrite H1, H2. cbn. split; apply lookup_remove_eq. Qed.

Lemma after_release_dead : forall ops c clean ops' s,
  held (cl (run E v ops) c) = Some s -> cphase (cl (run E v ops) c) = Running ->
  no_checkout_key E (key E c) ops' = true ->
  cancel_out (run E v (ops ++ ReleaseNormal c clean :: ops')) (key E c) = Silent /\
  cancel_out (run E v (ops ++ Terminate c clean :: ops')) (key E c) = Silent.
Proof.
  intros ops c clean ops' s H1 H2 N.
  destruct (release_kills (run E v ops) c clean s H1 H2) as [A B].
  split; apply cancel_out_silent; unfold run; rewrite fold_left_app; cbn [fold_left];
    apply dead_stays_dead; auto.
Qed.

(** Same for the last access of an error exit: once the Client value is dropped the key is dead. *)
Lemma after_exit_dead : forall ops c ops',
  cphase (cl (run E v ops) c) = Exiting ->
  no_checkout_key E (key E c) ops' = true ->
  cancel_out (run E v (ops ++ ExitDropClient c :: ops')) (key E c) = Silent.
Proof.
  intros ops c ops' H N. apply cancel_out_silent. unfold run. rewrite fold_left_app. cbn [fold_left].
  apply dead_stays_dead; auto. cbn. fold (run E v ops). rewrite H.
  destruct (held (cl (run E v ops) c)); cbn; apply lookup_remove_eq.
Qed.

(* ---- completeness *)

Lemma reaches_holder_guarded : key_inj -> reload_prunes v = false -> claim_needs_positive_pid v = false ->
  forall ops c s,
  sv (run E v ops) s = HeldBy c -> known_cancel_once E v ops c = false ->
  cancel_out (run E v ops) (key E c) = Contact (tgt E s).
Proof.
  intros INJ RP CP ops c s H G. apply cancel_out_contact. apply (proj2 (run_own_compl INJ RP CP ops)); auto.
Qed.

Lemma reaches_holder : key_inj -> cancel_drop_removes v = false -> reload_prunes v = false ->
  claim_needs_positive_pid v = false -> forall ops c s,
  sv (run E v ops) s = HeldBy c -> cancel_out (run E v ops) (key E c) = Contact (tgt E s).
Proof.
  intros INJ CD RP CP ops c s H. apply reaches_holder_guarded; auto.
  unfold known_cancel_once. apply run_ghost_off; auto.
Qed.

(* ---- reload *)

Lemma reload_inert : reload_prunes v = false -> forall st l,
  csm (step E v st (Reload l)) = csm st /\ cl (step E v st (Reload l)) = cl st /\
  gcancel (step E v st (Reload l)) = gcancel st /\
  (forall s c, sv (step E v st (Reload l)) s = HeldBy c <-> sv st s = HeldBy c).
Proof.
  intros RP st l. cbn. rewrite RP. repeat split; try apply retire_held.
Qed.

Lemma reloads_inert : reload_prunes v = false -> forall ls st,
  csm (fold_left (step E v) (map Reload ls) st) = csm st /\
  (forall s c, sv (fold_left (step E v) (map Reload ls) st) s = HeldBy c <-> sv st s = HeldBy c).
Proof.
  intros RP. induction ls as [|l r IH]; intros st; cbn [map fold_left].
  - split; [reflexivity|tauto].
  - destruct (IH (step E v st (Reload l))) as [A B].
    destruct (reload_inert RP st l) as (C & _ & _ & D).
    split; [congruence|]. intros s c. rewrite B. apply D.
Qed.

(** The entry of a holder survives any number of reloads: what its key does, and who borrows
    what, is the same after them as before. *)
Lemma holder_survives_reloads : reload_prunes v = false -> forall ops ls,
  (forall k, cancel_out (run E v (ops ++ map Reload ls)) k = cancel_out (run E v ops) k) /\
  (forall s c, sv (run E v (ops ++ map Reload ls)) s = HeldBy c <-> sv (run E v ops) s = HeldBy c).
Proof.
  intros RP ops ls. unfold run. rewrite fold_left_app.
  destruct (reloads_inert RP ls (fold_left (step E v) ops init)) as [A B].
  split; auto. intros k. unfold cancel_out. rewrite A. reflexivity.
Qed.

(* ---- delivery *)

(** Lookup and the single delivery attempt are one step: a request whose connection cannot be
    established leaves no trace ... *)
Lemma single_attempt : cancel_retries v = false -> forall st k, step E v st (CancelRefused k) = st.
Proof. intros CR st k. cbn. rewrite CR. reflexivity. Qed.

(** ... so nothing is ever waiting to be delivered later. *)
Lemma no_pending : cancel_retries v = false -> forall ops, pending (run E v ops) = [].
Proof.
  intros CR ops. unfold run. apply (fold_inv (fun st => pending st = [])); [|reflexivity].
  intros st o H. split_step o; cbn [pending]; try congruence. rewrite H. reflexivity.
Qed.

Lemma no_late_delivery : cancel_retries v = false -> forall ops, late_out (run E v ops) = Silent.
Proof. intros CR ops. unfold late_out. rewrite no_pending; auto. Qed.

(** The map is read when [handle] runs, not when the connection is accepted: accepting leaves no
    trace and acting is a lookup in the state of that instant. *)
Lemma accept_inert : lookup_at_accept v = false -> forall st k, step E v st (CancelAccept k) = st.
Proof. intros LA st k. cbn. rewrite LA. reflexivity. Qed.

Lemma act_is_lookup : lookup_at_accept v = false -> forall st k, act_out v st k = cancel_out st k.
Proof. intros LA st k. unfold act_out. rewrite LA. reflexivity. Qed.

Lemma no_accepted : lookup_at_accept v = false -> forall ops, accepted (run E v ops) = [].
Proof.
  intros LA ops. unfold run. apply (fold_inv (fun st => accepted st = [])); [|reflexivity].
  intros st o H. split_step o; cbn [accepted]; try congruence. rewrite H. reflexivity.
Qed.

(** A graceful shutdown touches nothing that cancel handling reads. *)
Lemma shutdown_inert : forall st,
  csm (step E v st Shutdown) = csm st /\ cl (step E v st Shutdown) = cl st /\
  sv (step E v st Shutdown) = sv st /\ pending (step E v st Shutdown) = pending st /\
  accepted (step E v st Shutdown) = accepted st /\ admin_only (step E v st Shutdown) = true.
Proof. intros st. cbn. repeat split. Qed.

Lemma cancel_eff_plain : shutdown_refuses_cancel v = false -> forall st k, cancel_eff v st k = cancel_out st k.
Proof. intros SR st k. unfold cancel_eff. rewrite SR. reflexivity. Qed.

End Invariants.

(* ------------------------------------------------------------------ witnesses *)

Lemma ex_env_inj : key_inj ex_env.
Proof. intros c c' H. unfold ex_env in H. cbn [key] in H. apply (f_equal fst) in H. cbn [fst] in H. lia. Qed.

Lemma ex_env_disjoint : forall c s, key ex_env c <> (fst (fst (tgt ex_env s)), snd (fst (tgt ex_env s))).
Proof.
  intros c s. unfold ex_env. cbn [key tgt fst snd]. intros H.
  pose proof (f_equal fst H) as H1. pose proof (f_equal snd H) as H2. cbn [fst snd] in H1, H2. lia.
Qed.

(** The exit window of the order "put the connection back, then remove the entry" (the code
    before 1e593b9; kept as a mutant of the model): c0 checks out s0, its task ends on an error
    path (connection clean: back to the pool), c1 checks the same connection out, and a
    CancelRequest carrying c0's key is forwarded to the session now executing c1's work.
    Whatever the other switch is. *)
Definition window_ops : list op := [Checkout 0 0; ExitDropGuard 0 true; Checkout 1 0].

Lemma exit_window_refuted : forall cd rp cr la sr cp,
  exists ops c1 c2 s, c1 <> c2 /\ key ex_env c1 <> key ex_env c2 /\
    sv (run ex_env (mkVariant cd false rp cr la sr cp) ops) s = HeldBy c2 /\
    cphase (cl (run ex_env (mkVariant cd false rp cr la sr cp) ops) c1) = Exiting /\
    cancel_out (run ex_env (mkVariant cd false rp cr la sr cp) ops) (key ex_env c1) = Contact (tgt ex_env s).
Proof.
  intros cd rp cr la sr cp. exists window_ops, 0, 1, 0. destruct cd, rp, cr, la, sr, cp; vm_compute; repeat split; try discriminate; reflexivity.
Qed.

(** The cancel-once defect of "the drop of the value that served a CancelRequest removes the key
    it carried" (the code before 1e593b9; kept as a mutant): c0 holds s0; a first CancelRequest is
    served (and its Client value dropped); a second one is silently ignored although c0 still
    holds s0.  Whatever the other switch is. *)
Definition once_ops : list op := [Checkout 0 0; Cancel (key ex_env 0); CancelDrop (key ex_env 0)].

Lemma cancel_once_refuted : forall ef rp cr la sr cp,
  exists ops c s, sv (run ex_env (mkVariant true ef rp cr la sr cp) ops) s = HeldBy c /\
    outcomes ex_env (mkVariant true ef rp cr la sr cp) ops = [Contact (tgt ex_env s)] /\
    cancel_out (run ex_env (mkVariant true ef rp cr la sr cp) ops) (key ex_env c) = Silent.
Proof. intros ef rp cr la sr cp. exists once_ops, 0, 0. destruct ef, rp, cr, la, sr, cp; vm_compute; repeat split; reflexivity. Qed.

(** A reload that prunes the map by address (a mutant; the code does not do this): c0 runs a
    statement on s0, the configuration is reloaded so that s0's address leaves it, and a
    CancelRequest with c0's key is silently ignored although c0 still borrows s0 (the old pool's
    connection lives until the transaction ends).  Whatever the other switches are. *)
Definition reload_ops : list op := [Checkout 0 0; Reload [0]].

Lemma reload_prune_refuted : forall cd ef cr la sr cp,
  exists ops c s, sv (run ex_env (mkVariant cd ef true cr la sr cp) ops) s = HeldBy c /\
    cancel_out (run ex_env (mkVariant cd ef true cr la sr cp) ops) (key ex_env c) = Silent.
Proof. intros cd ef cr la sr cp. exists reload_ops, 0, 0. destruct cd, ef, cr, la, sr, cp; vm_compute; split; reflexivity. Qed.

(** Retrying the throw-away connection with the target copied at lookup time (a mutant; the code
    makes one attempt): c0 runs a statement on s0, the connection of its CancelRequest is refused,
    c0's statement ends, c1 borrows s0, and the retry then delivers c0's request to the session
    that now executes c1's work.  Whatever the other switches are. *)
Definition late_ops : list op :=
  [Checkout 0 0; CancelRefused (key ex_env 0); ReleaseNormal 0 true; Checkout 1 0].

Lemma late_delivery_refuted : forall cd ef rp la sr cp,
  exists ops c1 c2 s, c1 <> c2 /\ key ex_env c1 <> key ex_env c2 /\
    held (cl (run ex_env (mkVariant cd ef rp true la sr cp) ops) c1) = None /\
    cancel_out (run ex_env (mkVariant cd ef rp true la sr cp) ops) (key ex_env c1) = Silent /\
    sv (run ex_env (mkVariant cd ef rp true la sr cp) ops) s = HeldBy c2 /\
    late_out (run ex_env (mkVariant cd ef rp true la sr cp) ops) = Contact (tgt ex_env s).
Proof.
  intros cd ef rp la sr cp. exists late_ops, 0, 1, 0.
  destruct cd, ef, rp, la, sr, cp; vm_compute; repeat split; try discriminate; reflexivity.
Qed.

(** Looking the target up when the connection is accepted and using it when [handle] runs (a
    mutant; the code reads the map in [handle]): c0 runs a statement on s0, its CancelRequest is
    accepted and its task waits (for the accounting channel), c0's statement ends, c1 borrows s0,
    and the request then goes to the session that now executes c1's work. *)
Definition stale_ops : list op :=
  [Checkout 0 0; CancelAccept (key ex_env 0); ReleaseNormal 0 true; Checkout 1 0].

Lemma stale_lookup_refuted : forall cd ef rp cr sr cp,
  exists ops c1 c2 s, c1 <> c2 /\ key ex_env c1 <> key ex_env c2 /\
    held (cl (run ex_env (mkVariant cd ef rp cr true sr cp) ops) c1) = None /\
    cancel_out (run ex_env (mkVariant cd ef rp cr true sr cp) ops) (key ex_env c1) = Silent /\
    sv (run ex_env (mkVariant cd ef rp cr true sr cp) ops) s = HeldBy c2 /\
    act_out (mkVariant cd ef rp cr true sr cp) (run ex_env (mkVariant cd ef rp cr true sr cp) ops) (key ex_env c1)
      = Contact (tgt ex_env s).
Proof.
  intros cd ef rp cr sr cp. exists stale_ops, 0, 1, 0.
  destruct cd, ef, rp, cr, sr, cp; vm_compute; repeat split; try discriminate; reflexivity.
Qed.

(** Refusing CancelRequests once a graceful shutdown has begun (a mutant): c0 is in the middle of
    a statement when the shutdown starts (its transaction may finish); its CancelRequest would
    reach s0 by the map, and is dropped. *)
Definition shutdown_ops : list op := [Checkout 0 0; Shutdown].

Lemma shutdown_refuted : forall cd ef rp cr la cp,
  exists ops c s, sv (run ex_env (mkVariant cd ef rp cr la true cp) ops) s = HeldBy c /\
    cancel_out (run ex_env (mkVariant cd ef rp cr la true cp) ops) (key ex_env c) = Contact (tgt ex_env s) /\
    cancel_eff (mkVariant cd ef rp cr la true cp) (run ex_env (mkVariant cd ef rp cr la true cp) ops) (key ex_env c) = Silent.
Proof.
  intros cd ef rp cr la cp. exists shutdown_ops, 0, 0.
  destruct cd, ef, rp, cr, la, cp; vm_compute; repeat split; reflexivity.
Qed.

(** Claiming only servers with a positive process id (a mutant): behind another pooler the
    BackendKeyData carries arbitrary i32 values; such a server is never claimed and its borrower
    cannot cancel. *)
Lemma claim_refuted : forall cd ef rp cr la sr,
  exists ops c s, sv (run ex_env_neg (mkVariant cd ef rp cr la sr true) ops) s = HeldBy c /\
    cancel_out (run ex_env_neg (mkVariant cd ef rp cr la sr true) ops) (key ex_env_neg c) = Silent.
Proof.
  intros cd ef rp cr la sr. exists [Checkout 0 0], 0, 0.
  destruct cd, ef, rp, cr, la, sr; vm_compute; split; reflexivity.
Qed.

(* ------------------------------------------------------------------ the code as it is *)

Lemma code_no_late_delivery : forall E ops,
  pending (run E code_variant ops) = [] /\ late_out (run E code_variant ops) = Silent /\
  (forall st k, step E code_variant st (CancelRefused k) = st).
Proof.
  intros E ops. split; [apply no_pending; reflexivity|].
  split; [apply no_late_delivery; reflexivity|]. intros st k. apply single_attempt. reflexivity.
Qed.


Lemma code_targets_holder : forall E ops k t,
  cancel_out (run E code_variant ops) k = Contact t ->
  exists c s, key E c = k /\ tgt E s = t /\ held (cl (run E code_variant ops) c) = Some s /\
              cphase (cl (run E code_variant ops) c) = Running /\ sv (run E code_variant ops) s = HeldBy c.
Proof. intros E. apply repaired_order_strong. reflexivity. Qed.

Lemma code_reaches_holder : forall E, key_inj E -> forall ops c s,
  sv (run E code_variant ops) s = HeldBy c ->
  cancel_out (run E code_variant ops) (key E c) = Contact (tgt E s).
Proof. intros E INJ. apply reaches_holder; auto. Qed.

(** Both directions in one equation: what a CancelRequest with c's key does is a function of
    what c holds right now. *)
Lemma code_cancel_exact : forall E, key_inj E -> forall ops c,
  cancel_out (run E code_variant ops) (key E c) =
  match held (cl (run E code_variant ops) c), cphase (cl (run E code_variant ops) c) with
  | Some s, Running => Contact (tgt E s)
  | _, _ => Silent
  end.
Proof.
  intros E INJ ops c.
  destruct (held (cl (run E code_variant ops) c)) as [s|] eqn:Hh;
    destruct (cphase (cl (run E code_variant ops) c)) eqn:Hp;
    try (apply code_reaches_holder; auto; apply run_own; auto);
    (destruct (cancel_out (run E code_variant ops) (key E c)) eqn:X; auto;
     destruct (code_targets_holder _ _ _ _ X) as (c' & s' & K & _ & H1 & H2 & _);
     apply INJ in K; subst; congruence).
Qed.

Lemma code_act_targets_holder : forall E ops k,
  step E code_variant (run E code_variant ops) (CancelAccept k) = run E code_variant ops /\
  act_out code_variant (run E code_variant ops) k = cancel_out (run E code_variant ops) k /\
  (forall t, act_out code_variant (run E code_variant ops) k = Contact t ->
     exists c s, key E c = k /\ tgt E s = t /\ held (cl (run E code_variant ops) c) = Some s /\
                 cphase (cl (run E code_variant ops) c) = Running /\ sv (run E code_variant ops) s = HeldBy c).
Proof.
  intros E ops k. split; [apply accept_inert; reflexivity|].
  split; [apply act_is_lookup; reflexivity|].
  intros t H. rewrite act_is_lookup in H by reflexivity. apply code_targets_holder; auto.
Qed.


Lemma code_shutdown_irrelevant : forall E ops k,
  cancel_eff code_variant (run E code_variant ops) k = cancel_out (run E code_variant ops) k /\
  cancel_out (step E code_variant (run E code_variant ops) Shutdown) k = cancel_out (run E code_variant ops) k /\
  sv (step E code_variant (run E code_variant ops) Shutdown) = sv (run E code_variant ops).
Proof.
  intros E ops k. split; [apply cancel_eff_plain; reflexivity|]. split; reflexivity.
Qed.
