(** C10 — property theorems only.  Each is closed by [exact <lemma>] and audited with
    [Print Assumptions]; [Example]s pin the model's behaviour on the schedules the property text
    talks about and show that hypotheses and guards are not vacuous.

    Reading guide.  [E : env] gives every client its key and every server connection its
    (pid, secret, address).  [ops] is ANY schedule: a list of any length of the atomic accesses
    (checkout+claim, release, 'X', the two accesses of an error exit, idle close, the lookup of
    a CancelRequest and the drop of the value that served it) of any number of clients, in any
    interleaving.  [run E v ops] is the state after the schedule under code variant [v];
    [code_variant] is the code as it is (entry removed before the connection is put back on
    every exit; serving a CancelRequest does not touch the target's entry).
    [cancel_out st k] is what a CancelRequest carrying [k] does in state [st]. *)
From Coq Require Import ZArith NArith List Bool Arith.
From PV Require Import Cancel.Model Cancel.Proofs.
Import ListNotations.

(* ================================================================ the code as it is *)

(** A CancelRequest is forwarded only to the server connection that the owner of the key is
    borrowing at that instant (running, checked out, not yet released), with that connection's
    own (pid, secret, address).  No exit-window guard: on every exit the entry goes first. *)
Theorem c10_cancel_targets_holder : forall E ops k t,
  cancel_out (run E code_variant ops) k = Contact t ->
  exists c s, key E c = k /\ tgt E s = t /\ held (cl (run E code_variant ops) c) = Some s /\
              cphase (cl (run E code_variant ops) c) = Running /\ sv (run E code_variant ops) s = HeldBy c.
Proof. exact code_targets_holder. Qed.
Print Assumptions c10_cancel_targets_holder.

(** Positive half: the borrower's key does reach the borrowed session, however many cancel
    requests were served before.  Distinct client keys are an explicit hypothesis (keys are
    random i32 pairs). *)
Theorem c10_cancel_reaches_holder : forall E, key_inj E -> forall ops c s,
  sv (run E code_variant ops) s = HeldBy c ->
  cancel_out (run E code_variant ops) (key E c) = Contact (tgt E s).
Proof. exact code_reaches_holder. Qed.
Print Assumptions c10_cancel_reaches_holder.

(** Both halves as one equation: the effect of a CancelRequest with c's key is a function of what
    c holds at that instant — its own session while it runs with a server checked out, nothing
    in every other situation (never checked out, waiting for the pool, between transactions,
    after 'X', in or after an error exit). *)
Theorem c10_cancel_exact : forall E, key_inj E -> forall ops c,
  cancel_out (run E code_variant ops) (key E c) =
  match held (cl (run E code_variant ops) c), cphase (cl (run E code_variant ops) c) with
  | Some s, Running => Contact (tgt E s)
  | _, _ => Silent
  end.
Proof. exact code_cancel_exact. Qed.
Print Assumptions c10_cancel_exact.

(** Lookup and delivery are ONE step in the code as it is (server.rs:856-880 [Server::cancel]: one
    [TcpStream::connect]; on error the request is dropped — [CancelRefused] changes nothing): no
    request is ever waiting to be delivered later, so the only packets that ever reach a backend
    are those of [c10_cancel_targets_holder], sent while the owner borrows the session. *)
Theorem c10_no_late_delivery : forall E ops,
  pending (run E code_variant ops) = [] /\ late_out (run E code_variant ops) = Silent /\
  (forall st k, step E code_variant st (CancelRefused k) = st).
Proof. exact code_no_late_delivery. Qed.
Print Assumptions c10_no_late_delivery.

(** The map is read when the request's [handle] runs — after [client_entrypoint]'s
    [drain.send(1).await], where the task may have waited — not when its connection was accepted
    ([Client::cancel] only copies the key out of the packet): accepting leaves no trace, acting
    is a lookup in the state of THAT instant, so it reaches the session the key's owner borrows
    then, or nobody. *)
Theorem c10_lookup_when_handled : forall E ops k,
  step E code_variant (run E code_variant ops) (CancelAccept k) = run E code_variant ops /\
  act_out code_variant (run E code_variant ops) k = cancel_out (run E code_variant ops) k /\
  (forall t, act_out code_variant (run E code_variant ops) k = Contact t ->
     exists c s, key E c = k /\ tgt E s = t /\ held (cl (run E code_variant ops) c) = Some s /\
                 cphase (cl (run E code_variant ops) c) = Running /\ sv (run E code_variant ops) s = HeldBy c).
Proof. exact code_act_targets_holder. Qed.
Print Assumptions c10_lookup_when_handled.

(** Cancel handling does not depend on a graceful shutdown being in progress ([client_entrypoint]
    passes [admin_only] to [Client::startup] only; the CancelQuery arm does not look at it): what a
    CancelRequest does is [cancel_out] whether or not [Shutdown] happened, and [Shutdown] changes
    neither the map nor who borrows what — a client whose transaction is allowed to finish can
    cancel it exactly as before ([c10_cancel_exact] holds in every state, [Shutdown] is one of the
    ops of its schedules). *)
Theorem c10_shutdown_irrelevant : forall E ops k,
  cancel_eff code_variant (run E code_variant ops) k = cancel_out (run E code_variant ops) k /\
  cancel_out (step E code_variant (run E code_variant ops) Shutdown) k = cancel_out (run E code_variant ops) k /\
  sv (step E code_variant (run E code_variant ops) Shutdown) = sv (run E code_variant ops).
Proof. exact code_shutdown_irrelevant. Qed.
Print Assumptions c10_shutdown_irrelevant.

(* ================================================================ every order / variant *)

(** What is sent to the server is a server connection's own key ... *)
Theorem c10_uses_server_key : forall E v ops k t,
  cancel_out (run E v ops) k = Contact t -> exists s, t = tgt E s.
Proof. exact uses_server_key. Qed.
Print Assumptions c10_uses_server_key.

(** ... and never the client's (when no client key equals a server key). *)
Theorem c10_never_client_key : forall E v,
  (forall c s, key E c <> (fst (fst (tgt E s)), snd (fst (tgt E s)))) ->
  forall ops k t, cancel_out (run E v ops) k = Contact t -> (fst (fst t), snd (fst t)) <> k.
Proof. exact never_client_key. Qed.
Print Assumptions c10_never_client_key.

(** A key nobody was issued contacts no server. *)
Theorem c10_unknown_key_silent : forall E v ops k,
  (forall c, key E c <> k) -> cancel_out (run E v ops) k = Silent.
Proof. exact unknown_key_silent. Qed.
Print Assumptions c10_unknown_key_silent.

(** A client that holds no server connection cannot make the pooler contact any server. *)
Theorem c10_no_server_no_contact : forall E v, key_inj E -> forall ops c,
  held (cl (run E v ops) c) = None -> cancel_out (run E v ops) (key E c) = Silent.
Proof. exact no_server_no_contact. Qed.
Print Assumptions c10_no_server_no_contact.

Theorem c10_gone_holds_nothing : forall E v ops c,
  cphase (cl (run E v ops) c) = Gone -> held (cl (run E v ops) c) = None.
Proof. exact gone_holds_nothing. Qed.
Print Assumptions c10_gone_holds_nothing.

(** After the transaction ends (normal release) or after 'X', the key is dead, and stays dead
    whatever anybody does, until a client with that key checks a server out again. *)
Theorem c10_after_release_dead : forall E v ops c clean ops' s,
  held (cl (run E v ops) c) = Some s -> cphase (cl (run E v ops) c) = Running ->
  no_checkout_key E (key E c) ops' = true ->
  cancel_out (run E v (ops ++ ReleaseNormal c clean :: ops')) (key E c) = Silent /\
  cancel_out (run E v (ops ++ Terminate c clean :: ops')) (key E c) = Silent.
Proof. exact after_release_dead. Qed.
Print Assumptions c10_after_release_dead.

(** The same once the last access of an error exit (the drop of the Client value) has run. *)
Theorem c10_after_exit_dead : forall E v ops c ops',
  cphase (cl (run E v ops) c) = Exiting ->
  no_checkout_key E (key E c) ops' = true ->
  cancel_out (run E v (ops ++ ExitDropClient c :: ops')) (key E c) = Silent.
Proof. exact after_exit_dead. Qed.
Print Assumptions c10_after_exit_dead.

(** Exclusive ownership (how "the session currently borrowed by X" is read). *)
Theorem c10_ownership : forall E v ops c s,
  sv (run E v ops) s = HeldBy c <->
  (held (cl (run E v ops) c) = Some s /\ cphase (cl (run E v ops) c) = Running).
Proof. exact run_own. Qed.
Print Assumptions c10_ownership.

(** Whatever the order on exits: a contacted connection is one the key's owner checked out, and
    the owner still borrows it — or is inside the exit window (phase [Exiting]). *)
Theorem c10_cancel_targets_holder_any_order : forall E v ops k t,
  cancel_out (run E v ops) k = Contact t ->
  exists c s, key E c = k /\ tgt E s = t /\ held (cl (run E v ops) c) = Some s /\
              (sv (run E v ops) s = HeldBy c \/ cphase (cl (run E v ops) c) = Exiting).
Proof. exact targets_holder. Qed.
Print Assumptions c10_cancel_targets_holder_any_order.

(** ... so outside the class "some client is in the exit window" (computable guard) the strong
    statement holds for every order. *)
Theorem c10_cancel_targets_holder_guarded : forall E v ops k t,
  known_exit_window E v ops = false ->
  cancel_out (run E v ops) k = Contact t ->
  exists c s, key E c = k /\ tgt E s = t /\ held (cl (run E v ops) c) = Some s /\
              cphase (cl (run E v ops) c) = Running /\ sv (run E v ops) s = HeldBy c.
Proof. exact targets_holder_guarded. Qed.
Print Assumptions c10_cancel_targets_holder_guarded.

(** What the repair rests on: the order "remove the entry, then drop the guard" gives the strong
    statement for every schedule, whatever the other switch is. *)
Theorem c10_entry_first_strong : forall E v, exit_entry_first v = true -> forall ops k t,
  cancel_out (run E v ops) k = Contact t ->
  exists c s, key E c = k /\ tgt E s = t /\ held (cl (run E v ops) c) = Some s /\
              cphase (cl (run E v ops) c) = Running /\ sv (run E v ops) s = HeldBy c.
Proof. exact repaired_order_strong. Qed.
Print Assumptions c10_entry_first_strong.

(** Completeness outside the class "a CancelRequest with this key was already served since the
    checkout" (computable guard), for every variant ... *)
Theorem c10_cancel_reaches_holder_guarded : forall E v, key_inj E -> reload_prunes v = false ->
  claim_needs_positive_pid v = false -> forall ops c s,
  sv (run E v ops) s = HeldBy c -> known_cancel_once E v ops c = false ->
  cancel_out (run E v ops) (key E c) = Contact (tgt E s).
Proof. exact reaches_holder_guarded. Qed.
Print Assumptions c10_cancel_reaches_holder_guarded.

(** ... and unguarded as soon as serving a CancelRequest leaves the map alone. *)
Theorem c10_cancel_drop_inert_complete : forall E v, key_inj E -> cancel_drop_removes v = false ->
  reload_prunes v = false -> claim_needs_positive_pid v = false -> forall ops c s, sv (run E v ops) s = HeldBy c ->
  cancel_out (run E v ops) (key E c) = Contact (tgt E s).
Proof. exact reaches_holder. Qed.
Print Assumptions c10_cancel_drop_inert_complete.

(** A configuration reload touches neither the map nor who borrows what ... *)
Theorem c10_reload_inert : forall E v, reload_prunes v = false -> forall st l,
  csm (step E v st (Reload l)) = csm st /\ cl (step E v st (Reload l)) = cl st /\
  gcancel (step E v st (Reload l)) = gcancel st /\
  (forall s c, sv (step E v st (Reload l)) s = HeldBy c <-> sv st s = HeldBy c).
Proof. exact reload_inert. Qed.
Print Assumptions c10_reload_inert.

(** ... so the entry of a holder survives any number of reloads until it releases: every key does
    after the reloads exactly what it did before, and the same clients borrow the same sessions.
    (With [c10_cancel_exact]/[c10_cancel_reaches_holder], whose schedules include [Reload] at any
    position: the holder's key still reaches the holder's own session, nobody else's.) *)
Theorem c10_holder_survives_reloads : forall E v, reload_prunes v = false -> forall ops ls,
  (forall k, cancel_out (run E v (ops ++ map Reload ls)) k = cancel_out (run E v ops) k) /\
  (forall s c, sv (run E v (ops ++ map Reload ls)) s = HeldBy c <-> sv (run E v ops) s = HeldBy c).
Proof. exact holder_survives_reloads. Qed.
Print Assumptions c10_holder_survives_reloads.

(* ================================================================ the mutants (code before 1e593b9) *)

(** F13, the exit window: with the order "connection back to the pool, then entry removed"
    another client borrows the connection and a CancelRequest with the FIRST client's key is
    forwarded to it. *)
Theorem c10_exit_window_refuted : forall cd rp cr la sr cp,
  exists ops c1 c2 s, c1 <> c2 /\ key ex_env c1 <> key ex_env c2 /\
    sv (run ex_env (mkVariant cd false rp cr la sr cp) ops) s = HeldBy c2 /\
    cphase (cl (run ex_env (mkVariant cd false rp cr la sr cp) ops) c1) = Exiting /\
    cancel_out (run ex_env (mkVariant cd false rp cr la sr cp) ops) (key ex_env c1) = Contact (tgt ex_env s).
Proof. exact exit_window_refuted. Qed.
Print Assumptions c10_exit_window_refuted.

(** F28, cancel once: when the drop of the value that served a CancelRequest removes the key it
    carried, a second CancelRequest during the same checkout is silently ignored. *)
Theorem c10_cancel_once_refuted : forall ef rp cr la sr cp,
  exists ops c s, sv (run ex_env (mkVariant true ef rp cr la sr cp) ops) s = HeldBy c /\
    outcomes ex_env (mkVariant true ef rp cr la sr cp) ops = [Contact (tgt ex_env s)] /\
    cancel_out (run ex_env (mkVariant true ef rp cr la sr cp) ops) (key ex_env c) = Silent.
Proof. exact cancel_once_refuted. Qed.
Print Assumptions c10_cancel_once_refuted.

(** Reload pruning (not in the code; the mutant the check must notice): if a configuration
    reload dropped the entries that point to an address which left the configuration, a client
    still running a statement on the old pool's connection could no longer cancel it. *)
Theorem c10_reload_prune_refuted : forall cd ef cr la sr cp,
  exists ops c s, sv (run ex_env (mkVariant cd ef true cr la sr cp) ops) s = HeldBy c /\
    cancel_out (run ex_env (mkVariant cd ef true cr la sr cp) ops) (key ex_env c) = Silent.
Proof. exact reload_prune_refuted. Qed.
Print Assumptions c10_reload_prune_refuted.

(** Late delivery (not in the code; the mutant the check must notice): if a request whose
    connection was refused were retried with the target copied at lookup time, it would reach the
    session after it changed hands — c1 holds nothing any more, its key is dead in the map, and
    the packet arrives at the session now borrowed by c2. *)
Theorem c10_late_delivery_refuted : forall cd ef rp la sr cp,
  exists ops c1 c2 s, c1 <> c2 /\ key ex_env c1 <> key ex_env c2 /\
    held (cl (run ex_env (mkVariant cd ef rp true la sr cp) ops) c1) = None /\
    cancel_out (run ex_env (mkVariant cd ef rp true la sr cp) ops) (key ex_env c1) = Silent /\
    sv (run ex_env (mkVariant cd ef rp true la sr cp) ops) s = HeldBy c2 /\
    late_out (run ex_env (mkVariant cd ef rp true la sr cp) ops) = Contact (tgt ex_env s).
Proof. exact late_delivery_refuted. Qed.
Print Assumptions c10_late_delivery_refuted.

(** Stale lookup (not in the code; the mutant the check must notice): if the target were looked up
    when the connection is accepted and used when [handle] finally runs, a request that waited in
    between would reach the session after it changed hands. *)
Theorem c10_stale_lookup_refuted : forall cd ef rp cr sr cp,
  exists ops c1 c2 s, c1 <> c2 /\ key ex_env c1 <> key ex_env c2 /\
    held (cl (run ex_env (mkVariant cd ef rp cr true sr cp) ops) c1) = None /\
    cancel_out (run ex_env (mkVariant cd ef rp cr true sr cp) ops) (key ex_env c1) = Silent /\
    sv (run ex_env (mkVariant cd ef rp cr true sr cp) ops) s = HeldBy c2 /\
    act_out (mkVariant cd ef rp cr true sr cp) (run ex_env (mkVariant cd ef rp cr true sr cp) ops) (key ex_env c1)
      = Contact (tgt ex_env s).
Proof. exact stale_lookup_refuted. Qed.
Print Assumptions c10_stale_lookup_refuted.

(** Shutdown refusal (not in the code; mutant): a holder's CancelRequest is dropped once the
    graceful shutdown has begun although the map still leads to its session. *)
Theorem c10_shutdown_refusal_refuted : forall cd ef rp cr la cp,
  exists ops c s, sv (run ex_env (mkVariant cd ef rp cr la true cp) ops) s = HeldBy c /\
    cancel_out (run ex_env (mkVariant cd ef rp cr la true cp) ops) (key ex_env c) = Contact (tgt ex_env s) /\
    cancel_eff (mkVariant cd ef rp cr la true cp) (run ex_env (mkVariant cd ef rp cr la true cp) ops) (key ex_env c) = Silent.
Proof. exact shutdown_refuted. Qed.
Print Assumptions c10_shutdown_refusal_refuted.

(** Claim only for positive pids (not in the code; mutant): with servers whose BackendKeyData pid
    is negative the borrower's key reaches nothing.  ([c10_cancel_reaches_holder] and
    [c10_cancel_exact] are for EVERY [E]: any i32 pid / secret, equal across backends or not.) *)
Theorem c10_claim_positive_only_refuted : forall cd ef rp cr la sr,
  exists ops c s, sv (run ex_env_neg (mkVariant cd ef rp cr la sr true) ops) s = HeldBy c /\
    cancel_out (run ex_env_neg (mkVariant cd ef rp cr la sr true) ops) (key ex_env_neg c) = Silent.
Proof. exact claim_refuted. Qed.
Print Assumptions c10_claim_positive_only_refuted.

(** For every variant that reads the map in [handle]: nothing is remembered from accept time. *)
Theorem c10_lookup_in_handle_no_memory : forall E v, lookup_at_accept v = false -> forall ops k,
  accepted (run E v ops) = [] /\ act_out v (run E v ops) k = cancel_out (run E v ops) k.
Proof. intros E v LA ops k. split; [exact (no_accepted E v LA ops)|exact (act_is_lookup v LA (run E v ops) k)]. Qed.
Print Assumptions c10_lookup_in_handle_no_memory.

(** For every variant that does not retry: nothing is ever pending. *)
Theorem c10_single_attempt_no_pending : forall E v, cancel_retries v = false -> forall ops,
  pending (run E v ops) = [] /\ late_out (run E v ops) = Silent.
Proof. intros E v CR ops. split; [exact (no_pending E v CR ops)|exact (no_late_delivery E v CR ops)]. Qed.
Print Assumptions c10_single_attempt_no_pending.

(* ================================================================ spec validation *)

Notation k0 := (key ex_env 0).
Notation k1 := (key ex_env 1).
Notation t0 := (tgt ex_env 0).
Notation t1 := (tgt ex_env 1).

(** The hypotheses used above are satisfiable. *)
Example ex_keys_distinct : key_inj ex_env.
Proof. exact ex_env_inj. Qed.
Example ex_keys_disjoint : forall c s, key ex_env c <> (fst (fst (tgt ex_env s)), snd (fst (tgt ex_env s))).
Proof. exact ex_env_disjoint. Qed.

(** before checkout / during / twice during / between transactions / random key / next checkout *)
Example ex_timing : outcomes ex_env code_variant
  [Cancel k0; Checkout 0 0; Cancel k0; CancelDrop k0; Cancel k0; CancelDrop k0; ReleaseNormal 0 true;
   Cancel k0; Cancel (5, 5)%Z; Checkout 0 1; Cancel k0]
  = [Silent; Contact t0; Contact t0; Silent; Silent; Contact t1].
Proof. vm_compute. reflexivity. Qed.

(** one connection changing hands: each key reaches it only while its owner borrows it *)
Example ex_hand_over : outcomes ex_env code_variant
  [Checkout 0 0; Cancel k1; Cancel k0; CancelDrop k0; ReleaseNormal 0 true;
   Checkout 1 0; Cancel k0; Cancel k1; CancelDrop k1; Terminate 1 true; Cancel k1]
  = [Silent; Contact t0; Silent; Contact t0; Silent].
Proof. vm_compute. reflexivity. Qed.

(** error exit, the other client takes the connection between the two accesses of the exit *)
Example ex_window_code : outcomes ex_env code_variant
  (window_ops ++ [Cancel k0; Cancel k1; ExitDropClient 0; Cancel k0; Cancel k1])
  = [Silent; Contact t0; Silent; Contact t0].
Proof. vm_compute. reflexivity. Qed.
Example ex_window_mutant : outcomes ex_env v_orig (window_ops ++ [Cancel k0]) = [Contact t0].
Proof. vm_compute. reflexivity. Qed.
Example ex_window_unclean_closed :
  sv (run ex_env code_variant [Checkout 0 0; ExitDropGuard 0 false; Checkout 1 0]) 0 = Closed.
Proof. vm_compute. reflexivity. Qed.

(** cancel twice during one checkout *)
Example ex_twice_code : outcomes ex_env code_variant [Checkout 0 0; Cancel k0; CancelDrop k0; Cancel k0] = [Contact t0; Contact t0].
Proof. vm_compute. reflexivity. Qed.
Example ex_twice_mutant : outcomes ex_env v_orig [Checkout 0 0; Cancel k0; CancelDrop k0; Cancel k0] = [Contact t0; Silent].
Proof. vm_compute. reflexivity. Qed.

(** reload while a statement runs: the pool moves away from s0's address, c0 keeps s0 until it
    releases; its key reaches s0 before and after the reload, and its next checkout is elsewhere *)
Example ex_reload_code : outcomes ex_env code_variant
  [Checkout 0 0; Cancel k0; CancelDrop k0; Reload [0]; Cancel k0; CancelDrop k0; Cancel k1; Reload [0];
   Cancel k0; ReleaseNormal 0 true; Cancel k0; Checkout 0 1; Cancel k0]
  = [Contact t0; Contact t0; Silent; Contact t0; Silent; Contact t1].
Proof. vm_compute. reflexivity. Qed.
Example ex_reload_idle_retired :
  sv (run ex_env code_variant [Checkout 0 0; ReleaseNormal 0 true; Reload [0; 1]; Checkout 1 0]) 0 = Closed.
Proof. vm_compute. reflexivity. Qed.
Example ex_reload_mutant : outcomes ex_env (mkVariant false true true false false false false)
  [Checkout 0 0; Cancel k0; Reload [0]; Cancel k0] = [Contact t0; Silent].
Proof. vm_compute. reflexivity. Qed.

(** the connection of a CancelRequest is refused, the server changes hands, the listener is back *)
Example ex_refused_code : outcomes ex_env code_variant
  (late_ops ++ [DeliverLate; Cancel k0; Cancel k1]) = [Silent; Silent; Silent; Contact t0].
Proof. vm_compute. reflexivity. Qed.
Example ex_refused_mutant : outcomes ex_env (mkVariant false true false true false false false)
  (late_ops ++ [DeliverLate; Cancel k0; Cancel k1]) = [Silent; Contact t0; Silent; Contact t0].
Proof. vm_compute. reflexivity. Qed.

(** the request's task waits between accept and handle while the server changes hands *)
Example ex_stale_code : outcomes ex_env code_variant
  (stale_ops ++ [CancelAct k0; Cancel k1; CancelAccept k1; CancelAct k1]) = [Silent; Contact t0; Contact t0].
Proof. vm_compute. reflexivity. Qed.
Example ex_stale_mutant : outcomes ex_env (mkVariant false true false false true false false)
  (stale_ops ++ [CancelAct k0; Cancel k1; CancelAccept k1; CancelAct k1]) = [Contact t0; Contact t0; Contact t0].
Proof. vm_compute. reflexivity. Qed.

(** shutdown while a statement runs; servers with negative BackendKeyData *)
Example ex_shutdown_code : outcomes ex_env code_variant
  [Checkout 0 0; Cancel k0; Shutdown; Cancel k0; Cancel k1; ReleaseNormal 0 true; Cancel k0] = [Contact t0; Contact t0; Silent; Silent].
Proof. vm_compute. reflexivity. Qed.
Example ex_shutdown_mutant : outcomes ex_env (mkVariant false true false false false true false)
  [Checkout 0 0; Cancel k0; Shutdown; Cancel k0] = [Contact t0; Silent].
Proof. vm_compute. reflexivity. Qed.
Example ex_negative_pid_code : outcomes ex_env_neg code_variant
  [Checkout 0 0; Cancel k0; ReleaseNormal 0 true; Cancel k0] = [Contact (tgt ex_env_neg 0); Silent].
Proof. vm_compute. reflexivity. Qed.
Example ex_negative_pid_mutant : outcomes ex_env_neg (mkVariant false true false false false false true)
  [Checkout 0 0; Cancel k0] = [Silent].
Proof. vm_compute. reflexivity. Qed.

(** the guards separate exactly these schedules *)
Example ex_guard_window : known_exit_window ex_env v_orig window_ops = true
  /\ known_exit_window ex_env v_orig [Checkout 0 0; ExitDropGuard 0 true; ExitDropClient 0; Checkout 1 0] = false
  /\ known_exit_window ex_env v_orig [Checkout 0 0; ReleaseNormal 0 true; Checkout 1 0] = false.
Proof. vm_compute. repeat split; reflexivity. Qed.
Example ex_guard_once : known_cancel_once ex_env v_orig once_ops 0 = true
  /\ known_cancel_once ex_env v_orig [Checkout 0 0; Cancel k0; CancelDrop k0; ReleaseNormal 0 true; Checkout 0 0] 0 = false
  /\ known_cancel_once ex_env code_variant once_ops 0 = false.
Proof. vm_compute. repeat split; reflexivity. Qed.
