(** C10 — query cancellation: who can be reached with which key.

    Executable model of the accesses to pgcat's [client_server_map] (a
    [HashMap<(client pid, client secret), (server pid, server secret, host, port)>] behind one
    mutex, src/pool.rs [ClientServerMap]) and of the ownership of server connections, refined
    to the individual shared-state accesses on the exit path of a client task.

    Code this was written from (line numbers of /repo/src, tree with commit 1e593b9):
    - client.rs:495-496   a client's key is [(rand i32, rand i32)], issued once at startup.
    - client.rs:1089-1168 checkout: [pool.get] hands out a [PooledConnection] (the guard,
                          local [reference] of the outer loop body, 1154), then the
                          [CancelEntry] guard [_cancel_entry] is declared (1161-1164), then
                          [server.claim(self.process_id, self.secret_key)] (1168).
    - server.rs:1304-1315 [claim]: [map.insert((cpid, ckey), (self.process_id, self.secret_key,
                          host, port))] — the SERVER's pid/secret/host/port are the value.
    - client.rs:1672-1681 normal release: [checkin_cleanup().await?], [self.release()]
                          (client.rs:2039-2042: [map.remove(&(pid, key))]); then the loop body
                          ends: [_cancel_entry] dropped (removes again: no-op), then
                          [reference] dropped (bb8 [put_back]): ENTRY REMOVED FIRST,
                          CONNECTION PUT BACK SECOND.
    - client.rs:1326-1331 'X' while holding: [checkin_cleanup], [release()], [return Ok(())]:
                          same order.
    - every other exit of [handle] while holding ([?], [return Err], panic; e.g.
                          client.rs:1213-1219 "client disconnected inside a transaction":
                          [checkin_cleanup().await?; return Err(err)]): locals are dropped in
                          reverse declaration order, so [_cancel_entry] (client.rs:118-128
                          [Drop for CancelEntry]: [map.remove(&key)]) goes BEFORE [reference]
                          (bb8 [put_back]; pool.rs:1244-1254 [has_broken] closes a bad or
                          unclean connection, otherwise it is idle again and may be handed to
                          anyone): ENTRY REMOVED FIRST here too ([exit_entry_first = true]).
                          [Drop for Client] (client.rs:2157-2164) removes the key once more,
                          after [drain.send(-1).await] in [client_entrypoint] (281-296): no-op.
                          BEFORE commit 1e593b9 there was no [CancelEntry]: the connection went
                          back to the pool when [handle] returned and the entry lived until
                          [Drop for Client] — CONNECTION PUT BACK FIRST, ENTRY REMOVED SECOND
                          ([exit_entry_first = false], kept as a mutant: theorem
                          [c10_exit_window_refuted]).
    - client.rs:844-868   cancel request: look [(pid, key)] up; absent => [return Ok(())]
                          silently; present => [Server::cancel(host, port, server pid, server
                          secret)] (server.rs:854-878: throw-away TCP connection, CancelRequest
                          carrying the SERVER's key).
    - client.rs:804-839 + 2157-2164  the cancel request itself is served by a [Client] value
                          built by [Client::cancel] whose [process_id]/[secret_key] fields ARE
                          the key carried by the request.  [Drop for Client] leaves the map
                          alone when [cancel_mode] is set ([cancel_drop_removes = false]).
                          BEFORE commit 1e593b9 it removed that key, i.e. the TARGET's entry
                          ([cancel_drop_removes = true], kept as a mutant: theorem
                          [c10_cancel_once_refuted]).

    The two orders/guards are switches of a [variant], so that the theorems say exactly which
    one gives what, and so that the correspondence check can be pointed at either. *)
From Coq Require Import ZArith NArith List Bool Arith.
Import ListNotations.

Definition cid := nat.            (* client tasks *)
Definition sid := nat.            (* server connections (backend sessions) ever opened by the pools *)
Definition ckey := (Z * Z)%type.  (* (process_id, secret_key) given to a client in BackendKeyData *)
Definition target := (Z * Z * (N * Z))%type. (* server pid, server secret, (host, port) *)

Definition ckey_eqb (a b : ckey) : bool := Z.eqb (fst a) (fst b) && Z.eqb (snd a) (snd b).

(** [client_server_map]: association list with HashMap semantics (insert overwrites). *)
Definition csm_t := list (ckey * target).

Fixpoint csm_lookup (k : ckey) (m : csm_t) : option target :=
  match m with
  | [] => None
  | (k', t) :: r => if ckey_eqb k' k then Some t else csm_lookup k r
  end.

Definition csm_remove (k : ckey) (m : csm_t) : csm_t :=
  filter (fun e => negb (ckey_eqb (fst e) k)) m.

Definition csm_insert (k : ckey) (t : target) (m : csm_t) : csm_t := (k, t) :: csm_remove k m.

Definition csm_remove_all (ks : list ckey) (m : csm_t) : csm_t :=
  fold_left (fun acc k => csm_remove k acc) ks m.

Definition addr_eqb (a b : N * Z) : bool := N.eqb (fst a) (fst b) && Z.eqb (snd a) (snd b).

(** Keys of the entries whose server address is one of [gone]. *)
Definition keys_at (gone : list (N * Z)) (m : csm_t) : list ckey :=
  map fst (filter (fun e => existsb (addr_eqb (snd (snd e))) gone) m).

Inductive phase :=
| Running   (* inside [handle] *)
| Exiting   (* [handle] returned on an error path while holding: guard already dropped,
               [Client] value (hence the map entry) not yet dropped *)
| Gone.

Inductive loc := Idle | HeldBy (c : cid) | Closed.

(** [held]: the server connection the client checked out.  For a client in phase [Exiting] it
    still names the connection it HAD (that is what its stale map entry points to); the
    connection itself is [Idle]/[Closed]/[HeldBy] someone else by then. *)
Record client := mkClient { held : option sid; cphase : phase }.

(** Static data: the key issued to each client and the (pid, secret, address) of each server
    connection.  Both are fixed for the life of the client / connection. *)
Record env := mkEnv { key : cid -> ckey; tgt : sid -> target }.

(** Which code is modelled.
    [cancel_drop_removes]: dropping the [Client] value that served a CancelRequest removes the
      entry of the key it carried (false for the code as it is; true before 1e593b9).
    [exit_entry_first]: on an error exit the entry is removed before the guard is dropped
      (true for the code as it is; false before 1e593b9).
    [reload_prunes]: a configuration reload drops the map entries that point to an address
      which left the configuration (false for the code as it is: [ConnectionPool::from_config],
      pool.rs:312, only hands the map to the new [ServerPool]s; a mutant used to show that the
      check notices such pruning).
    [cancel_retries]: when the throw-away connection of [Server::cancel] cannot be established the
      request is kept and delivered later to the (pid, secret, host, port) copied from the map at
      lookup time (false for the code as it is: server.rs:856-880 [Server::cancel] makes ONE
      [TcpStream::connect]; on error it logs and returns [Err], nothing is retried and nothing is
      remembered — lookup and the single delivery attempt are one step; a mutant used to show that
      the check notices late deliveries).
    [lookup_at_accept]: the target of a CancelRequest is looked up when its connection is accepted
      ([Client::cancel]) and used later in [handle] (false for the code as it is:
      client.rs [Client::cancel] only copies the key out of the packet; the map is read inside
      [handle], client.rs cancel_mode branch — AFTER [client_entrypoint]'s [drain.send(1).await]
      (client.rs:314-318), where the task may wait for the accounting channel; a mutant used to
      show that the check notices a lookup that is older than the delivery).
    [shutdown_refuses_cancel]: once a graceful shutdown has begun ([admin_only]: SIGINT / admin
      SHUTDOWN) CancelRequests are refused like new client connections (false for the code as it
      is: [client_entrypoint]'s CancelQuery arm, client.rs:306-333, calls [Client::cancel], which
      does not take [admin_only]; only [Client::startup] refuses, client.rs:488.  A client whose
      transaction is allowed to finish can still cancel it; a mutant).
    [claim_needs_positive_pid]: [Server::claim] skips servers whose BackendKeyData process id is
      <= 0 (false for the code as it is: server.rs claim inserts unconditionally; poolers in front of
      PostgreSQL hand out arbitrary i32 pids; a mutant). *)
Record variant := mkVariant { cancel_drop_removes : bool; exit_entry_first : bool; reload_prunes : bool;
                              cancel_retries : bool; lookup_at_accept : bool;
                              shutdown_refuses_cancel : bool; claim_needs_positive_pid : bool }.

Definition v_repaired : variant := mkVariant false true false false false false false. (* the code as it is (since 1e593b9) *)
Definition v_orig : variant := mkVariant true false false false false false false.     (* the code before 1e593b9: both defects *)

(** The variant the correspondence check runs the implementation against, and the one the
    main theorems of Props.v are stated for.  Change this one definition when /repo changes
    behaviour; the theorems that then fail name the guarantee that was lost. *)
Definition code_variant : variant := v_repaired.

Record state := mkState {
  csm : csm_t;
  cl : cid -> client;
  sv : sid -> loc;
  (* ghost: a CancelDrop removed (or would have removed) this key since the key's owner last
     checked a server out.  Only used to state the guard of the completeness theorem. *)
  gcancel : ckey -> bool;
  (* CancelRequests whose connection could not be established and that are still being retried
     (only with [cancel_retries]; always empty for the code as it is) *)
  pending : list target;
  (* CancelRequests whose connection was accepted and whose [handle] has not run yet, with what the
     map said at accept time (only with [lookup_at_accept]; always empty for the code as it is) *)
  accepted : list (ckey * option target);
  (* a graceful shutdown has begun (main.rs: SIGINT sets admin_only for every connection accepted
     from then on) *)
  admin_only : bool
}.

Definition init : state :=
  mkState [] (fun _ => mkClient None Running) (fun _ => Idle) (fun _ => false) [] [] false.

Definition updc (f : cid -> client) (c : cid) (x : client) : cid -> client :=
  fun c' => if Nat.eqb c' c then x else f c'.
Definition upds (f : sid -> loc) (s : sid) (x : loc) : sid -> loc :=
  fun s' => if Nat.eqb s' s then x else f s'.
Definition updg (f : ckey -> bool) (k : ckey) (x : bool) : ckey -> bool :=
  fun k' => if ckey_eqb k' k then x else f k'.

Definition back (clean : bool) : loc := if clean then Idle else Closed.

(** Accepted-but-not-yet-handled cancel requests (mutant bookkeeping). *)
Fixpoint acc_find (k : ckey) (l : list (ckey * option target)) : option (option target) :=
  match l with
  | [] => None
  | (k', o) :: r => if ckey_eqb k' k then Some o else acc_find k r
  end.
Fixpoint acc_remove (k : ckey) (l : list (ckey * option target)) : list (ckey * option target) :=
  match l with
  | [] => []
  | (k', o) :: r => if ckey_eqb k' k then r else (k', o) :: acc_remove k r
  end.

(** The idle connections among [l] are gone; borrowed ones stay borrowed. *)
Definition retire_sv (f : sid -> loc) (l : list sid) : sid -> loc :=
  fun s => match f s with
           | Idle => if existsb (Nat.eqb s) l then Closed else Idle
           | x => x
           end.

Inductive op :=
| Checkout (c : cid) (s : sid)          (* pool.get returned s to c; claim *)
| ReleaseNormal (c : cid) (clean : bool) (* end of transaction: release(), then guard drop *)
| Terminate (c : cid) (clean : bool)     (* 'X' while holding: release(), return, guard drop, Client drop *)
| ExitDropGuard (c : cid) (clean : bool) (* error/panic exit while holding, 1st access: put_back *)
| ExitDropClient (c : cid)               (* Drop for Client: 2nd access of an error exit; also the
                                            whole exit of a client that holds nothing *)
| SrvClose (s : sid)                     (* an idle connection is closed (lifetime, idle timeout, ban) *)
| Cancel (k : ckey)                      (* CancelRequest with key k: lookup (+ contact) *)
| CancelDrop (k : ckey)                  (* the Client value that served that request is dropped *)
| CancelRefused (k : ckey)               (* CancelRequest with key k whose throw-away connection to the
                                            looked-up address cannot be established (server.rs:862-868:
                                            the one connect fails -> Err): the request is dropped.  With
                                            the mutant [cancel_retries] the looked-up target is kept. *)
| DeliverLate                            (* a kept request finally gets through (mutant only) *)
| CancelAccept (k : ckey)                (* the connection of a CancelRequest with key k is accepted:
                                            [Client::cancel] builds the value; [client_entrypoint] then
                                            does [drain.send(1).await] (client.rs:314-316) where the task
                                            may wait.  The map is not read (mutant: it is, and the answer
                                            is kept). *)
| CancelAct (k : ckey)                   (* [handle] of that request runs: lookup NOW + contact (mutant:
                                            the answer kept at accept time is used) *)
| Shutdown                               (* a graceful shutdown begins (SIGINT / admin SHUTDOWN): new
                                            client connections are refused, idle clients are told to go
                                            (their exits are ops of their own), transactions in progress
                                            finish; cancel handling is not touched *)
| Reload (retired : list sid).           (* configuration reload (config.rs:1665 reload_config ->
                                            pool.rs:312 from_config): the pools are rebuilt; the
                                            connections in [retired] belong to a pool that was
                                            replaced: the idle ones are never handed out again, the
                                            borrowed ones stay with their borrower until it releases
                                            them (the client keeps its clone of the old pool and the
                                            guard); the map is not touched. *)

Definition is_running (p : phase) : bool := match p with Running => true | _ => false end.
Definition is_exiting (p : phase) : bool := match p with Exiting => true | _ => false end.
Definition is_idle (l : loc) : bool := match l with Idle => true | _ => false end.

(** [Server::claim]: insert (client key |-> this server's pid, secret, address). *)
Definition claim (E : env) (v : variant) (c : cid) (s : sid) (m : csm_t) : csm_t :=
  if claim_needs_positive_pid v && Z.leb (fst (fst (tgt E s))) 0
  then m
  else csm_insert (key E c) (tgt E s) m.

Definition step (E : env) (v : variant) (st : state) (o : op) : state :=
  match o with
  | Checkout c s =>
      match held (cl st c), cphase (cl st c), sv st s with
      | None, Running, Idle =>
          mkState (claim E v c s (csm st))
                  (updc (cl st) c (mkClient (Some s) Running))
                  (upds (sv st) s (HeldBy c))
                  (updg (gcancel st) (key E c) false)
                  (pending st)
                  (accepted st) (admin_only st)
      | _, _, _ => st
      end
  | ReleaseNormal c clean =>
      match held (cl st c), cphase (cl st c) with
      | Some s, Running =>
          mkState (csm_remove (key E c) (csm st))
                  (updc (cl st) c (mkClient None Running))
                  (upds (sv st) s (back clean))
                  (gcancel st)
                  (pending st)
                  (accepted st) (admin_only st)
      | _, _ => st
      end
  | Terminate c clean =>
      match held (cl st c), cphase (cl st c) with
      | Some s, Running =>
          mkState (csm_remove (key E c) (csm st))
                  (updc (cl st) c (mkClient None Gone))
                  (upds (sv st) s (back clean))
                  (gcancel st)
                  (pending st)
                  (accepted st) (admin_only st)
      | _, _ => st
      end
  | ExitDropGuard c clean =>
      match held (cl st c), cphase (cl st c) with
      | Some s, Running =>
          mkState (if exit_entry_first v then csm_remove (key E c) (csm st) else csm st)
                  (updc (cl st) c (mkClient (Some s) Exiting))
                  (upds (sv st) s (back clean))
                  (gcancel st)
                  (pending st)
                  (accepted st) (admin_only st)
      | _, _ => st
      end
  | ExitDropClient c =>
      match held (cl st c), cphase (cl st c) with
      | _, Exiting | None, Running =>
          mkState (csm_remove (key E c) (csm st))
                  (updc (cl st) c (mkClient None Gone))
                  (sv st)
                  (gcancel st)
                  (pending st)
                  (accepted st) (admin_only st)
      | _, _ => st
      end
  | SrvClose s =>
      match sv st s with
      | Idle => mkState (csm st) (cl st) (upds (sv st) s Closed) (gcancel st) (pending st) (accepted st) (admin_only st)
      | _ => st
      end
  | Cancel _ => st
  | CancelDrop k =>
      if cancel_drop_removes v
      then mkState (csm_remove k (csm st)) (cl st) (sv st) (updg (gcancel st) k true) (pending st) (accepted st) (admin_only st)
      else st
  | CancelRefused k =>
      if cancel_retries v
      then match csm_lookup k (csm st) with
           | Some t => mkState (csm st) (cl st) (sv st) (gcancel st) (pending st ++ [t]) (accepted st) (admin_only st)
           | None => st
           end
      else st
  | DeliverLate =>
      mkState (csm st) (cl st) (sv st) (gcancel st) (tl (pending st)) (accepted st) (admin_only st)
  | Reload retired =>
      mkState (if reload_prunes v
               then csm_remove_all (keys_at (map (fun s => snd (tgt E s)) retired) (csm st)) (csm st)
               else csm st)
              (cl st)
              (retire_sv (sv st) retired)
              (gcancel st)
              (pending st)
              (accepted st) (admin_only st)
  | CancelAccept k =>
      if lookup_at_accept v
      then mkState (csm st) (cl st) (sv st) (gcancel st) (pending st)
                   (accepted st ++ [(k, csm_lookup k (csm st))]) (admin_only st)
      else st
  | CancelAct k =>
      mkState (csm st) (cl st) (sv st) (gcancel st) (pending st) (acc_remove k (accepted st)) (admin_only st)
  | Shutdown =>
      mkState (csm st) (cl st) (sv st) (gcancel st) (pending st) (accepted st) true
  end.

Definition run (E : env) (v : variant) (ops : list op) : state := fold_left (step E v) ops init.

(** What a CancelRequest with key [k] does in state [st]. *)
Inductive outcome := Silent | Contact (t : target).

Definition cancel_out (st : state) (k : ckey) : outcome :=
  match csm_lookup k (csm st) with Some t => Contact t | None => Silent end.

(** What a CancelRequest with key [k] does, shutdown taken into account (the code: nothing changes). *)
Definition cancel_eff (v : variant) (st : state) (k : ckey) : outcome :=
  if shutdown_refuses_cancel v && admin_only st then Silent else cancel_out st k.

(** What arrives at a backend when a kept request finally gets through. *)
Definition late_out (st : state) : outcome :=
  match pending st with t :: _ => Contact t | [] => Silent end.

(** What the [handle] of an accepted CancelRequest does: the code looks the key up now; the mutant
    uses what the map said when the connection was accepted. *)
Definition act_out (v : variant) (st : state) (k : ckey) : outcome :=
  if lookup_at_accept v
  then match acc_find k (accepted st) with
       | Some (Some t) => Contact t
       | Some None => Silent
       | None => cancel_out st k
       end
  else cancel_out st k.

(** Observable trace of a schedule: what reaches a backend for every [Cancel] (at once), every
    [CancelRefused] (nothing) and every [DeliverLate], in order. *)
Fixpoint outcomes_from (E : env) (v : variant) (st : state) (ops : list op) : list outcome :=
  match ops with
  | [] => []
  | Cancel k :: r => cancel_eff v st k :: outcomes_from E v (step E v st (Cancel k)) r
  | CancelRefused k :: r => Silent :: outcomes_from E v (step E v st (CancelRefused k)) r
  | DeliverLate :: r => late_out st :: outcomes_from E v (step E v st DeliverLate) r
  | CancelAct k :: r => act_out v st k :: outcomes_from E v (step E v st (CancelAct k)) r
  | o :: r => outcomes_from E v (step E v st o) r
  end.
Definition outcomes (E : env) (v : variant) (ops : list op) : list outcome := outcomes_from E v init ops.

(** Number of entries of the map after each op (compared with the implementation's
    [client_server_map.lock().len()] at the snapshots). *)
Fixpoint sizes_from (E : env) (v : variant) (st : state) (ops : list op) : list nat :=
  match ops with
  | [] => []
  | o :: r => let st' := step E v st o in length (csm st') :: sizes_from E v st' r
  end.
Definition sizes (E : env) (v : variant) (ops : list op) : list nat := sizes_from E v init ops.

(** Clients named by a schedule (all others stay in their initial state). *)
Definition op_clients (o : op) : list cid :=
  match o with
  | Checkout c _ | ReleaseNormal c _ | Terminate c _ | ExitDropGuard c _ | ExitDropClient c => [c]
  | _ => []
  end.
Definition mentioned (ops : list op) : list cid := flat_map op_clients ops.

(** Known-finding classes (computable guards of the main theorems). *)

(** F-exit-window: some client is between "guard dropped" and "Client dropped". *)
Definition known_exit_window (E : env) (v : variant) (ops : list op) : bool :=
  existsb (fun c => is_exiting (cphase (cl (run E v ops) c))) (mentioned ops).

(** F-cancel-once: a CancelRequest with c's key was served since c's last checkout (its drop
    removed c's entry). *)
Definition known_cancel_once (E : env) (v : variant) (ops : list op) (c : cid) : bool :=
  gcancel (run E v ops) (key E c).

(** No op of the schedule checks a server out for a client whose key is [k]. *)
Definition no_checkout_key (E : env) (k : ckey) (ops : list op) : bool :=
  forallb (fun o => match o with Checkout c _ => negb (ckey_eqb (key E c) k) | _ => true end) ops.

(** Concrete environment for examples / witnesses and for the correspondence: client [c] has key
    [(100+c, 7000+c)]; server connection [s] is described by the list the harness read from the
    mock backends' [ready] events. *)
Definition ex_env : env :=
  mkEnv (fun c => (100 + Z.of_nat c, 7000 + Z.of_nat c)%Z)
        (fun s => (1000 + Z.of_nat s, (1000 + Z.of_nat s) * 7 + 13, (0%N, 5432))%Z).

(** Servers whose BackendKeyData is unusual: negative pid and secret (another pooler in front). *)
Definition ex_env_neg : env :=
  mkEnv (fun c => (100 + Z.of_nat c, 7000 + Z.of_nat c)%Z)
        (fun s => (- (1000 + Z.of_nat s), - ((1000 + Z.of_nat s) * 7 + 13), (0%N, 5432))%Z).

Definition env_of (tgts : list target) : env :=
  mkEnv (fun c => (100 + Z.of_nat c, 7000 + Z.of_nat c)%Z)
        (fun s => nth s tgts ((-1), (-1), (0%N, (-1)))%Z).
