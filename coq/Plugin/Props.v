(** C19 — property theorems only.  Each is closed by [exact <lemma>] (or, for the
    refutation witnesses, by computation) and audited with [Print Assumptions]. *)
From Coq Require Import ZArith NArith List Bool Lia.
From PV Require Import Plugin.Model Plugin.Spec Plugin.Proofs.
Import ListNotations.

(* ------------------------------------------------------------------ names *)

(** Completeness of table_access on names: every spelling (case, quoting, schema /
    catalog qualification, any script, any length) that PostgreSQL (UTF8 database) resolves
    to a listed table is matched.  [utf8] is not a restriction of the code's domain: a Rust
    String always satisfies it, PostgreSQL rejects anything else in a UTF8 database. *)
Theorem c19_name_complete : forall blocked nm i,
  last_ident nm = Some i -> utf8 (text i) ->
  In (pg_resolve i) blocked -> matches blocked nm = true.
Proof. exact name_complete. Qed.
Print Assumptions c19_name_complete.

(** No over-blocking: a matched name does resolve to a listed table. *)
Theorem c19_name_sound : forall blocked nm, matches blocked nm = true ->
  exists i, last_ident nm = Some i /\ (utf8 (text i) -> In (pg_resolve i) blocked).
Proof. exact name_sound. Qed.
Print Assumptions c19_name_sound.

(** pgcat's clipping (back off from byte 63 to a character boundary) is PostgreSQL's
    pg_mbcliplen (walk whole characters while they fit). *)
Theorem c19_clip_is_truncate : forall s, utf8 s -> pg_truncate s = clip63 s.
Proof. exact clip_is_truncate. Qed.
Print Assumptions c19_clip_is_truncate.

Definition secrEt : bytes := [115; 101; 99; 114; 195; 137; 116]%N.   (* s e c r U+00C9 t *)

(** Regressions for the two repaired name defects (3943b22): a listed table with a capital
    E-acute spelled unquoted exactly as listed; a 63-byte listed name spelled with one more
    character; a 64-byte spelling whose 63rd/64th bytes are one 2-byte character (both sides
    keep 62 bytes). *)
Example c19_nonascii_fixed :
  utf8b 7 secrEt = true /\ pg_resolve (mkIdent secrEt false) = secrEt /\ matches [secrEt] [mkIdent secrEt false] = true.
Proof. vm_compute. repeat split. Qed.

Example c19_truncation_fixed :
  pg_resolve (mkIdent (repeat 97%N 64) false) = repeat 97%N 63 /\
  matches [repeat 97%N 63] [mkIdent (repeat 97%N 64) false] = true /\
  matches [repeat 97%N 63] [mkIdent (repeat 65%N 70) false] = true /\
  pg_resolve (mkIdent (repeat 97%N 62 ++ [195; 137]%N) true) = repeat 97%N 62 /\
  matches [repeat 97%N 62] [mkIdent (repeat 97%N 62 ++ [195; 137]%N) true] = true.
Proof. vm_compute. repeat split. Qed.

(** Message level: if ANY relation the plugin is shown (by sqlparser's visitor, or the
    COPY/DROP names it extracts itself) in ANY statement of the message matches, the
    verdict is not Allow.  That the visitor shows every relation a statement mentions is
    the assumption on sqlparser that the correspondence tests shape by shape. *)
Theorem c19_message_blocked : forall pc user db ast nm,
  ta_present pc = true -> ta_enabled pc = true ->
  In nm (flat_map st_explicit ast ++ flat_map st_visited ast) ->
  matches (ta_tables pc) nm = true ->
  execute_plugins (Some pc) user db ast <> PAllow.
Proof. exact exec_blocks. Qed.
Print Assumptions c19_message_blocked.

Theorem c19_deny_sound : forall pc user db ast msg,
  execute_plugins pc user db ast = PDeny msg ->
  exists pc' nm t, pc = Some pc' /\ In nm (flat_map st_explicit ast ++ flat_map st_visited ast) /\
                   matches (ta_tables pc') nm = true /\ table_name nm = Some t /\ msg = deny_message t.
Proof. exact exec_deny_sound. Qed.
Print Assumptions c19_deny_sound.

(* ------------------------------------------------------------ enforcement *)

(** For EVERY sequence of client messages (any mix of Q, custom commands and P/B/D/E/C/S/H,
    any position, inside or outside transactions, transaction or session pooling,
    prepared-statement caching on or off, failing checkouts, any session parser override):
    a message that pgcat parsed and the plugins rejected is never written to a server -
    neither the client's own Q/P message nor a Parse that pgcat itself re-sends for a
    Bind/Describe from the client's prepared-statement map.  (A Q/P in the trace carries
    [parsed] = the session parses messages AND sqlparser accepts the text.) *)
Theorem c19_enforced : forall c ops it, In it (forwarded (trace c ops)) -> bad_item c it = false.
Proof. exact enforced. Qed.
Print Assumptions c19_enforced.

(** Which messages are parsed (QueryRouter::parses_messages, 2a7a370).  With the pool's
    parser on and plugins configured: every message, whatever SET SERVER ROLE did to the
    session's override - the verdict does not depend on the override ... *)
Theorem c19_override_cannot_disable_plugins : forall c s m,
  parser_on c = true -> plugins_on c = true -> arrive_with parses c s m = m.
Proof. exact arrive_pool. Qed.
Print Assumptions c19_override_cannot_disable_plugins.

(** ... and with the pool's parser off, SET SERVER ROLE TO 'auto' turns the session's parser
    on: messages are parsed, and the plugins the pool inherited run, from then on. *)
Theorem c19_auto_enables_plugins : forall c s m, ov s = Some true -> arrive_with parses c s m = m.
Proof. exact arrive_auto. Qed.
Print Assumptions c19_auto_enables_plugins.

(** Regression for F35 (repaired by 2a7a370): the old gate (the session's parser only) as a
    mutant of the model.  After SET SERVER ROLE TO 'primary' the denied query is forwarded by
    the mutant and answered with the permission error by the model; same for a batch, for
    'replica' (there the checkout fails first) and 'any'; 'auto' and 'default' were fine. *)
Definition c_std : cfg := mkCfg true true false true.
Example c19_set_server_role_old_refuted :
  snd (run_with parses_old c_std init [MCmd 1 (CRole RPrimary true) true false; MQ 2 true (Deny 2) true false]) =
    [EvCmd; EvCheckout; EvFwd [FMsg (MQ 2 false (Deny 2) true false)]; EvRelease] /\
  trace c_std [MCmd 1 (CRole RPrimary true) true false; MQ 2 true (Deny 2) true false] = [EvCmd; EvErr (EPlugin 2)] /\
  snd (run_with parses_old c_std init [MCmd 1 (CRole RAny true) true false; MP 2 0 7 true (Intercept 2); MB 3 0; ME 4; MS 5 true false]) =
    [EvCmd; EvCheckout; EvFwd [FMsg (MP 2 0 7 false (Intercept 2)); FMsg (MB 3 0); FMsg (ME 4); FMsg (MS 5 true false)]; EvRelease] /\
  trace c_std [MCmd 1 (CRole RAny true) true false; MP 2 0 7 true (Intercept 2); MB 3 0; ME 4; MS 5 true false] = [EvCmd; EvIntercept 2] /\
  trace c_std [MCmd 1 (CRole RReplica false) true false; MQ 2 true (Deny 2) true false; MQ 3 true Allow true false] =
    [EvCmd; EvErr (EPlugin 2); EvErr EPool].
Proof. repeat split. Qed.

(** pool parser off + plugins inherited from the global section: inert until the session says
    SET SERVER ROLE TO 'auto', enforced from then on, inert again after 'default' *)
Example c19_auto_with_pool_parser_off :
  trace (mkCfg false true false true)
        [MQ 1 true (Deny 1) true false; MCmd 2 (CRole RAuto true) true false; MQ 3 true (Deny 3) true false;
         MCmd 4 (CRole RDefault true) true false; MQ 5 true (Deny 5) true false] =
  [EvCheckout; EvFwd [FMsg (MQ 1 false (Deny 1) true false)]; EvRelease; EvCmd; EvErr (EPlugin 3); EvCmd;
   EvCheckout; EvFwd [FMsg (MQ 5 false (Deny 5) true false)]; EvRelease].
Proof. reflexivity. Qed.

(** When a pending verdict is consumed, no rejected Parse is left in the client's map
    (0acefb2): a later Bind/Describe of such a name finds nothing. *)
Theorem c19_rejected_names_forgotten : forall c ops n p,
  In (n, p) (ps (consume (fst (run c init ops)))) -> bad_msg c p = false.
Proof. exact names_forgotten. Qed.
Print Assumptions c19_rejected_names_forgotten.

Definition c_ps : cfg := mkCfg true true true true.
Definition denied_parse : msg := MP 1 1 7 true (Deny 1).
(** Regression for the repaired replay: Parse(s1, denied) Sync, then Bind(s1) Execute Sync.
    The Bind is answered "does not exist" and the task ends; nothing is forwarded. *)
Example c19_ps_cache_fixed :
  trace c_ps [denied_parse; MS 2 true false; MB 3 1; ME 4; MS 5 true false] =
  [EvErr (EPlugin 1); EvErr EUnknownStmt; EvEnd].
Proof. reflexivity. Qed.

(** ... and a name that meant an allowed statement before is forgotten too when a rejected
    Parse re-used it (the client has to prepare it again). *)
Example c19_reused_name_forgotten :
  trace c_ps [MP 1 1 7 true Allow; MS 2 true false; MP 3 1 8 true (Deny 3); MS 4 true false; MB 5 1] =
  [EvCheckout; EvFwd [FMsg (MP 1 1 7 true Allow); FMsg (MS 2 true false)]; EvRelease;
   EvErr (EPlugin 3); EvErr EUnknownStmt; EvEnd].
Proof. reflexivity. Qed.

(** A batch with a pending Deny/Intercept is dropped as a whole: no message buffered so
    far is forwarded later, whatever the client sends next (fresh message ids). *)
Theorem c19_batch_dropped : forall c s ops m,
  is_allow (pout s) = false ->
  (forall x, In x ops -> ~ In (msg_id x) (ids (bmsgs s))) ->
  In (FMsg m) (forwarded (snd (run c s ops))) -> ~ In (msg_id m) (ids (bmsgs s)).
Proof. exact batch_dropped. Qed.
Print Assumptions c19_batch_dropped.

(** A rejected simple query is answered at once (error or rows), in either loop, and
    nothing else happens. *)
Theorem c19_q_answered : forall c s id parsed v po tx,
  dead s = false -> eff c (parsed && parses c s) v <> Allow ->
  step c s (MQ id parsed v po tx) =
    (s, [match eff c (parsed && parses c s) v with Deny t => EvErr (EPlugin t) | Intercept t => EvIntercept t | Allow => EvEnd end]).
Proof. exact q_answered. Qed.
Print Assumptions c19_q_answered.

Theorem c19_sync_answers_deny : forall c s id po tx t,
  dead s = false -> pout s = Deny t -> step c s (MS id po tx) = (consume s, [EvErr (EPlugin t)]).
Proof. exact sync_answers_deny. Qed.
Print Assumptions c19_sync_answers_deny.

Theorem c19_sync_answers_intercept : forall c s id po tx t,
  dead s = false -> pout s = Intercept t -> step c s (MS id po tx) = (consume s, [EvIntercept t]).
Proof. exact sync_answers_intercept. Qed.
Print Assumptions c19_sync_answers_intercept.

(** No stale verdict: a non-Allow verdict is pending only while the batch that earned it is
    still buffered - also across failed checkouts (before a7d476c a failed checkout at Sync
    kept an Intercept verdict and the next, unrelated batch was answered with the old
    rows; the wire check saw exactly that). *)
Theorem c19_no_stale_verdict : forall c ops, fresh (fst (run c init ops)).
Proof. exact no_stale. Qed.
Print Assumptions c19_no_stale_verdict.

(** ... concretely: intercepted batch, Sync while the pool is exhausted, then an unrelated
    batch: rows for the first, server reply for the second. *)
Example c19_stale_intercept_fixed :
  trace (mkCfg true true false true)
        [MP 1 0 7 true (Intercept 1); MS 2 false false; MP 3 0 8 true Allow; MB 4 0; ME 5; MS 6 true false] =
  [EvIntercept 1; EvCheckout;
   EvFwd [FMsg (MP 3 0 8 true Allow); FMsg (MB 4 0); FMsg (ME 5); FMsg (MS 6 true false)]; EvRelease].
Proof. reflexivity. Qed.

(** "answered with a permission error" is NOT always what a denied Parse gets: behind an
    intercepted Parse of the same batch the client receives the rows instead (nothing is
    forwarded either way). *)
Theorem c19_deny_masked_by_intercept : exists c ops,
  existsb (bad_msg c) ops = true /\ forwarded (trace c ops) = [] /\
  forallb (fun e => match e with EvErr _ => false | _ => true end) (trace c ops) = true.
Proof.
  exists (mkCfg true true false true), [MP 1 0 7 true (Intercept 1); MP 2 0 8 true (Deny 2); MB 3 0; ME 4; MS 5 true false].
  vm_compute. repeat split.
Qed.
Print Assumptions c19_deny_masked_by_intercept.

(* --------------------------------------------------------------- intercept *)

(** The reply to an intercepted message, read the way a frontend reads it, is exactly:
    for every (statement, matching rule) pair in order, RowDescription of the configured
    columns, one DataRow per configured row (empty string = NULL, placeholders
    substituted), CommandComplete SELECT; then ReadyForQuery(idle).  At least one rule
    matched. *)
Theorem c19_intercept_exact : forall enabled user db rules stmts reply,
  intercept_run enabled user db rules stmts = IReply reply ->
  Forall (wf_rule user db) (matched_rules rules stmts) ->
  matched_rules rules stmts <> [] /\
  read_reply reply = Some (flat_map (expected_of user db) (matched_rules rules stmts) ++ [ReadyForQuery 73%N]).
Proof. exact intercept_exact. Qed.
Print Assumptions c19_intercept_exact.

(** Intercept is consulted before table_access (execute_plugins): a statement that matches
    an intercept rule gets its rows even when it names a listed table - the shipped example
    intercepts queries on the very catalogs it lists. *)
Theorem c19_intercept_before_table_access : forall pc user db ast b,
  ic_present pc = true -> intercept_run (ic_enabled pc) user db (ic_rules pc) (map st_norm ast) = IReply b ->
  execute_plugins (Some pc) user db ast = PIntercept b.
Proof. exact intercept_first. Qed.
Print Assumptions c19_intercept_before_table_access.

Theorem c19_intercept_only_matching : forall enabled user db rules stmts,
  matched_rules rules stmts = [] -> intercept_run enabled user db rules stmts = IAllow.
Proof. exact intercept_none. Qed.
Print Assumptions c19_intercept_only_matching.

(* ---------------------------------------------------------------- disabled *)

(** No [plugins] section => execute_plugins allows everything; without an effective plugins
    section the machine never answers on a plugin's behalf, no message counts as
    rejected, and a simple query goes to the server. *)
Theorem c19_plugins_none_allow : forall user db ast, execute_plugins None user db ast = PAllow.
Proof. exact exec_disabled. Qed.
Print Assumptions c19_plugins_none_allow.

(** Per pool: the pool's own plugins section replaces the global one (pool.rs from_config);
    a pool that switches the plugins off in its own section is not filtered by the global
    lists; a pool without a section inherits the global one. *)
Theorem c19_pool_section_wins : forall g pc, effective_plugins g (Some pc) = Some pc.
Proof. exact pool_section_wins. Qed.
Print Assumptions c19_pool_section_wins.

Theorem c19_pool_inherits_global : forall g, effective_plugins g None = g.
Proof. exact pool_inherits. Qed.
Print Assumptions c19_pool_inherits_global.

Theorem c19_pool_disabled_noop : forall g pc user db ast,
  ta_present pc && ta_enabled pc = false -> ic_present pc && ic_enabled pc = false ->
  execute_plugins (effective_plugins g (Some pc)) user db ast = PAllow.
Proof. exact pool_disabled_allows. Qed.
Print Assumptions c19_pool_disabled_noop.

Theorem c19_disabled_noop : forall c ops, disabled c ->
  forallb (fun e => negb (plugin_event e)) (trace c ops) = true /\
  (forall m, bad_msg c m = false) /\
  (forall s id p v tx, dead s = false -> pout s = Allow -> role_ok s = true ->
     In (EvFwd [FMsg (MQ id (p && parses c s) v true tx)]) (snd (step c s (MQ id p v true tx)))).
Proof. exact disabled_noop. Qed.
Print Assumptions c19_disabled_noop.

(** The pool's parser off and no SET SERVER ROLE TO 'auto' in the session: nothing is parsed,
    nothing is ever answered by a plugin. *)
Theorem c19_parser_off_noop : forall c ops, parser_on c = false ->
  forallb (fun m => negb (is_auto m)) ops = true ->
  forallb (fun e => negb (plugin_event e)) (trace c ops) = true.
Proof. exact parser_off_noop. Qed.
Print Assumptions c19_parser_off_noop.

(* ------------------------------------------------ non-vacuity / validation *)

Definition s_secret : bytes := [115; 101; 99; 114; 101; 116]%N.
Definition S_SECRET : bytes := [83; 69; 67; 82; 69; 84]%N.
Definition s_public : bytes := [112; 117; 98; 108; 105; 99]%N.

(** spellings: SECRET, "secret", public.SECRET are blocked, "SECRET" is another table *)
Example c19_spellings :
  matches [s_secret] [mkIdent S_SECRET false] = true /\
  matches [s_secret] [mkIdent s_secret true] = true /\
  matches [s_secret] [mkIdent s_public false; mkIdent S_SECRET false] = true /\
  matches [s_secret] [mkIdent S_SECRET true] = false /\
  pg_resolve (mkIdent S_SECRET true) = S_SECRET /\ pg_resolve (mkIdent S_SECRET false) = s_secret.
Proof. vm_compute. repeat split. Qed.

(** the repaired overwrite: P(denied) P(allowed) B E S — nothing forwarded, error sent *)
Example c19_overwrite_fixed :
  trace c_std [MP 1 0 7 true (Deny 1); MP 2 0 8 true Allow; MB 3 0; ME 4; MS 5 true false] = [EvErr (EPlugin 1)].
Proof. reflexivity. Qed.

(** an allowed batch IS forwarded (the theorem is not vacuous), in a transaction too *)
Example c19_allowed_forwarded :
  forwarded (trace c_std [MQ 1 true Allow true true; MP 2 0 8 true Allow; MB 3 0; ME 4; MS 5 true true;
                          MQ 6 true (Deny 6) true true; MQ 7 true Allow true false]) =
  [FMsg (MQ 1 true Allow true true); FMsg (MP 2 0 8 true Allow); FMsg (MB 3 0); FMsg (ME 4); FMsg (MS 5 true true);
   FMsg (MQ 7 true Allow true false)].
Proof. reflexivity. Qed.

(** the reply for the second example rule of pgcat.toml is readable *)
Definition ex_rule : rule :=
  mkRule [115;101;108;101;99;116;32;49]%N                       (* select 1 *)
         [[ [97]%N; s_text ]; [ [98]%N; s_int4 ]]
         [[ s_user; [] ]; [ [120]%N; [52;50]%N ]].
Example c19_example_reply :
  match intercept_run true [117]%N [100]%N [ex_rule] [[83;69;76;69;67;84;32;49]%N] with
  | IReply b => read_reply b =
      Some [RowDescription [mkCol [97]%N 0 0 25 (-1) (-1) 0; mkCol [98]%N 0 0 23 4 (-1) 0];
            DataRow [Some [117]%N; None]; DataRow [Some [120]%N; Some [52;50]%N];
            CommandComplete s_select; ReadyForQuery 73%N]
  | _ => False
  end.
Proof. vm_compute. reflexivity. Qed.

(** a schema entry without a type (b98e532): no panic, the column has type Any (oid 2276) *)
Example c19_short_schema_reply :
  match intercept_run true [117]%N [100]%N [mkRule [115]%N [[ [97]%N ]; []] [[ [49]%N; [50]%N ]]] [[83]%N] with
  | IReply b => read_reply b =
      Some [RowDescription [mkCol [97]%N 0 0 2276 (-1) (-1) 0; mkCol [] 0 0 2276 (-1) (-1) 0];
            DataRow [Some [49]%N; Some [50]%N]; CommandComplete s_select; ReadyForQuery 73%N]
  | _ => False
  end.
Proof. vm_compute. reflexivity. Qed.

(* pg_database, and "select datname from pg_database" as sqlparser renders it *)
Definition s_pg_database : bytes := [112;103;95;100;97;116;97;98;97;115;101]%N.
Definition q_datname : bytes :=
  [83;69;76;69;67;84;32;100;97;116;110;97;109;101;32;70;82;79;77;32;112;103;95;100;97;116;97;98;97;115;101]%N.
Example c19_intercepted_listed_table :
  let pc := mkPcfg true true [mkRule q_datname [[ [100]%N; s_text ]] [[ [120]%N ]]] true true [s_pg_database] in
  let st := mkStmt q_datname [] [[mkIdent s_pg_database false]] in
  (match execute_plugins (Some pc) [117]%N [100]%N [st] with PIntercept _ => true | _ => false end) = true /\
  execute_plugins (Some (mkPcfg false false [] true true [s_pg_database])) [117]%N [100]%N [st] = PDeny (deny_message s_pg_database).
Proof. vm_compute. split; reflexivity. Qed.

(* ------------------------------------------------------------------ reload *)

(** Across a RELOAD (c3cef0c): every statement a connected session sends afterwards is judged
    by the new file's plugins section - whatever settings the session held before, simple or
    extended, first statement or later. *)
Theorem c19_reload_follows_new : forall ops f, rrun f ops = map rnew ops.
Proof. exact reload_follows_new. Qed.
Print Assumptions c19_reload_follows_new.

Theorem c19_reload_fresh_follows_new : forall ops,
  forallb (fun o => match o with RReload => false | _ => true end) ops = true -> rrun true ops = map rnew ops.
Proof. exact no_reload_follows_new. Qed.
Print Assumptions c19_reload_fresh_follows_new.

Theorem c19_reload_checkout_refreshes : forall f o f', rstep f o = (f', OFwd) -> f' = true.
Proof. exact forwarded_refreshes. Qed.
Print Assumptions c19_reload_checkout_refreshes.

(** Regression for C19-reload-stale-settings: the old refresh point (only at a checkout) as a
    mutant.  It forwarded the first extended batch on a table the reload had just listed and
    kept denying what the new file allows; the model answers by the new file at once. *)
Example c19_reload_stale_old_refuted :
  rrun_with rstep_old true [RReload; RBatch Allow (Deny 1); RBatch Allow (Deny 1)] = [ONone; OFwd; ODeny 1] /\
  rrun true [RReload; RBatch Allow (Deny 1); RBatch Allow (Deny 1)] = [ONone; ODeny 1; ODeny 1] /\
  rrun_with rstep_old true [RReload; RQ (Deny 1) Allow; RBatch (Deny 1) Allow] = [ONone; ODeny 1; ODeny 1] /\
  rrun true [RReload; RQ (Deny 1) Allow; RBatch (Deny 1) Allow] = [ONone; OFwd; OFwd].
Proof. repeat split. Qed.
