(** C19 — property theorems only.  Each is closed by [exact <lemma>] (or, for the
    refutation witnesses, by computation) and audited with [Print Assumptions]. *)
From Coq Require Import ZArith NArith List Bool Lia.
From PV Require Import Plugin.Model Plugin.Spec Plugin.Proofs.
Import ListNotations.

(* ------------------------------------------------------------------ names *)

(** Completeness of table_access on names: every spelling (case, quoting, schema /
    catalog qualification) that PostgreSQL resolves to a listed table is matched.
    Guards: the identifier is ASCII (Rust's to_lowercase is full Unicode, PostgreSQL
    folds only A-Z in a UTF8 database) and at most 63 bytes (PostgreSQL truncates
    longer identifiers, pgcat does not). *)
Theorem c19_name_complete : forall blocked nm i,
  last_ident nm = Some i -> ascii_ident i = true -> short_ident i = true ->
  In (pg_resolve i) blocked -> matches blocked nm = true.
Proof. exact name_complete. Qed.
Print Assumptions c19_name_complete.

(** No over-blocking: a matched name does resolve to a listed table. *)
Theorem c19_name_sound : forall blocked nm, matches blocked nm = true ->
  exists i, last_ident nm = Some i /\
            (ascii_ident i = true -> short_ident i = true -> In (pg_resolve i) blocked).
Proof. exact name_sound. Qed.
Print Assumptions c19_name_sound.

Definition secrEt : bytes := [115; 101; 99; 114; 195; 137; 116]%N.   (* s e c r U+00C9 t *)

(** Outside the ASCII guard completeness FAILS: the listed table is spelled exactly as
    listed, unquoted; PostgreSQL (UTF8) keeps the capital E-acute, Rust lower-cases it. *)
Theorem c19_name_nonascii_refuted : exists blocked nm i,
  last_ident nm = Some i /\ short_ident i = true /\ In (pg_resolve i) blocked /\ matches blocked nm = false.
Proof.
  exists [secrEt], [mkIdent secrEt false], (mkIdent secrEt false).
  split; [vm_compute; reflexivity|]. split; [vm_compute; reflexivity|].
  split; [left; vm_compute; reflexivity|vm_compute; reflexivity].
Qed.
Print Assumptions c19_name_nonascii_refuted.

(** Outside the length guard completeness FAILS: a 63-byte listed name spelled with one
    more character is truncated by PostgreSQL to the listed table. *)
Theorem c19_name_truncation_refuted : exists blocked nm i,
  last_ident nm = Some i /\ ascii_ident i = true /\ In (pg_resolve i) blocked /\ matches blocked nm = false.
Proof.
  exists [repeat 97%N 63], [mkIdent (repeat 97%N 64) false], (mkIdent (repeat 97%N 64) false).
  split; [vm_compute; reflexivity|]. split; [vm_compute; reflexivity|].
  split; [left; vm_compute; reflexivity|vm_compute; reflexivity].
Qed.
Print Assumptions c19_name_truncation_refuted.

(** Message level: if ANY relation the plugin is shown (by sqlparser's visitor, or the
    COPY/DROP names it extracts itself) in ANY statement of the message matches, the
    verdict is not Allow.  That the visitor shows every relation a statement mentions is
    the assumption on sqlparser that the correspondence tests shape by shape. *)
Theorem c19_message_blocked : forall pc user db ast nm,
  ta_present pc = true -> ta_enabled pc = true ->
  In nm (flat_map st_explicit ast ++ flat_map st_visited ast) ->
  matches (ta_tables pc) nm = true ->
  execute_plugins (Some pc) user db ast <> PAllow.
Proof. exact exec_blocks. Qed.
Print Assumptions c19_message_blocked.

Theorem c19_deny_sound : forall pc user db ast msg,
  execute_plugins pc user db ast = PDeny msg ->
  exists pc' nm t, pc = Some pc' /\ In nm (flat_map st_explicit ast ++ flat_map st_visited ast) /\
                   matches (ta_tables pc') nm = true /\ table_name nm = Some t /\ msg = deny_message t.
Proof. exact exec_deny_sound. Qed.
Print Assumptions c19_deny_sound.

(* ------------------------------------------------------------ enforcement *)

(** For EVERY sequence of client messages (any mix of Q and P/B/D/E/C/S/H, any position,
    inside or outside transactions, parser on or off, transaction or session pooling,
    failing checkouts): a client message the plugins rejected is never written to a
    server; the rejected text can reach a server only as a Parse that pgcat re-sends
    from the client's prepared-statement map, which needs prepared-statement caching. *)
Theorem c19_enforced_messages : forall c ops it, In it (forwarded (trace c ops)) ->
  match it with FMsg m => bad_msg c m = false | FParse _ => ps_on c = true end.
Proof. exact enforced. Qed.
Print Assumptions c19_enforced_messages.

(** Guarded main theorem: without prepared-statement caching nothing rejected reaches a
    server in any form. *)
Definition known_ps_cache (c : cfg) : bool := ps_on c.
Theorem c19_enforced : forall c ops it, known_ps_cache c = false ->
  In it (forwarded (trace c ops)) -> bad_item c it = false.
Proof. exact enforced_no_ps. Qed.
Print Assumptions c19_enforced.

Definition c_ps : cfg := mkCfg true true true true.
Definition denied_parse : msg := MP 1 1 7 true (Deny 1).
(** With caching on it FAILS: Parse(s1, denied) Sync is answered with the error, but
    buffer_parse had already put s1 into the client's map; Bind(s1) Execute Sync then
    makes pgcat send that Parse itself. *)
Theorem c19_ps_cache_refuted : exists c ops it,
  known_ps_cache c = true /\ In it (forwarded (trace c ops)) /\ bad_item c it = true.
Proof.
  exists c_ps, [denied_parse; MS 2 true false; MB 3 1; ME 4; MS 5 true false], (FParse denied_parse).
  split; [reflexivity|]. split; [vm_compute; tauto|reflexivity].
Qed.
Print Assumptions c19_ps_cache_refuted.

(** A batch with a pending Deny/Intercept is dropped as a whole: no message buffered so
    far is forwarded later, whatever the client sends next (fresh message ids). *)
Theorem c19_batch_dropped : forall c s ops m,
  is_allow (pout s) = false ->
  (forall x, In x ops -> ~ In (msg_id x) (ids (ebuf s))) ->
  In (FMsg m) (forwarded (snd (run c s ops))) -> ~ In (msg_id m) (ids (ebuf s)).
Proof. exact batch_dropped. Qed.
Print Assumptions c19_batch_dropped.

(** A rejected simple query is answered at once (error or rows), in either loop, and
    nothing else happens. *)
Theorem c19_q_answered : forall c s id parsed v po tx,
  dead s = false -> eff c parsed v <> Allow ->
  step c s (MQ id parsed v po tx) =
    (s, [match eff c parsed v with Deny t => EvErr (EPlugin t) | Intercept t => EvIntercept t | Allow => EvEnd end]).
Proof. exact q_answered. Qed.
Print Assumptions c19_q_answered.

Theorem c19_sync_answers_deny : forall c s id po tx t,
  dead s = false -> pout s = Deny t -> step c s (MS id po tx) = (consume s, [EvErr (EPlugin t)]).
Proof. exact sync_answers_deny. Qed.
Print Assumptions c19_sync_answers_deny.

Theorem c19_sync_answers_intercept : forall c s id po tx t,
  dead s = false -> pout s = Intercept t -> step c s (MS id po tx) = (consume s, [EvIntercept t]).
Proof. exact sync_answers_intercept. Qed.
Print Assumptions c19_sync_answers_intercept.

(** No stale verdict: a non-Allow verdict is pending only while the batch that earned it is
    still buffered - also across failed checkouts (before a7d476c a failed checkout at Sync
    kept an Intercept verdict and the next, unrelated batch was answered with the old
    rows; the wire check saw exactly that). *)
Theorem c19_no_stale_verdict : forall c ops, fresh (fst (run c init ops)).
Proof. exact no_stale. Qed.
Print Assumptions c19_no_stale_verdict.

(** ... concretely: intercepted batch, Sync while the pool is exhausted, then an unrelated
    batch: rows for the first, server reply for the second. *)
Example c19_stale_intercept_fixed :
  trace (mkCfg true true false true)
        [MP 1 0 7 true (Intercept 1); MS 2 false false; MP 3 0 8 true Allow; MB 4 0; ME 5; MS 6 true false] =
  [EvIntercept 1; EvCheckout;
   EvFwd [FMsg (MP 3 0 8 true Allow); FMsg (MB 4 0); FMsg (ME 5); FMsg (MS 6 true false)]; EvRelease].
Proof. reflexivity. Qed.

(** "answered with a permission error" is NOT always what a denied Parse gets: behind an
    intercepted Parse of the same batch the client receives the rows instead (nothing is
    forwarded either way). *)
Theorem c19_deny_masked_by_intercept : exists c ops,
  existsb (bad_msg c) ops = true /\ forwarded (trace c ops) = [] /\
  forallb (fun e => match e with EvErr _ => false | _ => true end) (trace c ops) = true.
Proof.
  exists (mkCfg true true false true), [MP 1 0 7 true (Intercept 1); MP 2 0 8 true (Deny 2); MB 3 0; ME 4; MS 5 true false].
  vm_compute. repeat split.
Qed.
Print Assumptions c19_deny_masked_by_intercept.

(* --------------------------------------------------------------- intercept *)

(** The reply to an intercepted message, read the way a frontend reads it, is exactly:
    for every (statement, matching rule) pair in order, RowDescription of the configured
    columns, one DataRow per configured row (empty string = NULL, placeholders
    substituted), CommandComplete SELECT; then ReadyForQuery(idle).  At least one rule
    matched. *)
Theorem c19_intercept_exact : forall enabled user db rules stmts reply,
  intercept_run enabled user db rules stmts = IReply reply ->
  Forall (wf_rule user db) (matched_rules rules stmts) ->
  matched_rules rules stmts <> [] /\
  read_reply reply = Some (flat_map (expected_of user db) (matched_rules rules stmts) ++ [ReadyForQuery 73%N]).
Proof. exact intercept_exact. Qed.
Print Assumptions c19_intercept_exact.

Theorem c19_intercept_only_matching : forall enabled user db rules stmts,
  matched_rules rules stmts = [] -> intercept_run enabled user db rules stmts = IAllow.
Proof. exact intercept_none. Qed.
Print Assumptions c19_intercept_only_matching.

(* ---------------------------------------------------------------- disabled *)

(** No [plugins] section => execute_plugins allows everything; with plugins or the
    parser off the machine never answers on a plugin's behalf, no message counts as
    rejected, and a simple query goes to the server. *)
Theorem c19_plugins_none_allow : forall user db ast, execute_plugins None user db ast = PAllow.
Proof. exact exec_disabled. Qed.
Print Assumptions c19_plugins_none_allow.

Theorem c19_disabled_noop : forall c ops, disabled c ->
  forallb (fun e => negb (plugin_event e)) (trace c ops) = true /\
  (forall m, bad_msg c m = false) /\
  (forall s id p v tx, dead s = false -> pout s = Allow ->
     In (EvFwd [FMsg (MQ id p v true tx)]) (snd (step c s (MQ id p v true tx)))).
Proof. exact disabled_noop. Qed.
Print Assumptions c19_disabled_noop.

(* ------------------------------------------------ non-vacuity / validation *)

Definition c_std : cfg := mkCfg true true false true.
Definition s_secret : bytes := [115; 101; 99; 114; 101; 116]%N.
Definition S_SECRET : bytes := [83; 69; 67; 82; 69; 84]%N.
Definition s_public : bytes := [112; 117; 98; 108; 105; 99]%N.

(** spellings: SECRET, "secret", public.SECRET are blocked, "SECRET" is another table *)
Example c19_spellings :
  matches [s_secret] [mkIdent S_SECRET false] = true /\
  matches [s_secret] [mkIdent s_secret true] = true /\
  matches [s_secret] [mkIdent s_public false; mkIdent S_SECRET false] = true /\
  matches [s_secret] [mkIdent S_SECRET true] = false /\
  pg_resolve (mkIdent S_SECRET true) = S_SECRET /\ pg_resolve (mkIdent S_SECRET false) = s_secret.
Proof. vm_compute. repeat split. Qed.

(** the repaired overwrite: P(denied) P(allowed) B E S — nothing forwarded, error sent *)
Example c19_overwrite_fixed :
  trace c_std [MP 1 0 7 true (Deny 1); MP 2 0 8 true Allow; MB 3 0; ME 4; MS 5 true false] = [EvErr (EPlugin 1)].
Proof. reflexivity. Qed.

(** an allowed batch IS forwarded (the theorem is not vacuous), in a transaction too *)
Example c19_allowed_forwarded :
  forwarded (trace c_std [MQ 1 true Allow true true; MP 2 0 8 true Allow; MB 3 0; ME 4; MS 5 true true;
                          MQ 6 true (Deny 6) true true; MQ 7 true Allow true false]) =
  [FMsg (MQ 1 true Allow true true); FMsg (MP 2 0 8 true Allow); FMsg (MB 3 0); FMsg (ME 4); FMsg (MS 5 true true);
   FMsg (MQ 7 true Allow true false)].
Proof. reflexivity. Qed.

(** the reply for the second example rule of pgcat.toml is readable *)
Definition ex_rule : rule :=
  mkRule [115;101;108;101;99;116;32;49]%N                       (* select 1 *)
         [[ [97]%N; s_text ]; [ [98]%N; s_int4 ]]
         [[ s_user; [] ]; [ [120]%N; [52;50]%N ]].
Example c19_example_reply :
  match intercept_run true [117]%N [100]%N [ex_rule] [[83;69;76;69;67;84;32;49]%N] with
  | IReply b => read_reply b =
      Some [RowDescription [mkCol [97]%N 0 0 25 (-1) (-1) 0; mkCol [98]%N 0 0 23 4 (-1) 0];
            DataRow [Some [117]%N; None]; DataRow [Some [120]%N; Some [52;50]%N];
            CommandComplete s_select; ReadyForQuery 73%N]
  | _ => False
  end.
Proof. vm_compute. reflexivity. Qed.
