(** C19 — plugin verdicts are enforced before anything reaches a server.

    Executable model (definitions only) of
      (A) src/plugins/table_access.rs        — which relation names are blocked,
      (B) src/plugins/intercept.rs + the reply encoders of src/messages.rs
          (row_description, data_row_nullable, command_complete) at byte level,
      (C) QueryRouter::execute_plugins (src/query_router.rs) — the verdict of one
          client message,
      (D) the enforcement state machine of Client::handle (src/client.rs) at message
          granularity: outer loop (no server held) and transaction loop (server
          held), the [plugin_output] variable, the extended-protocol buffer and the
          client's prepared-statement map.
    The code modelled is the tree AFTER the repairs e792aa5 / bd15113 / 32c91f8 / a7d476c / 0acefb2 / f56a2eb / 80b6794 / 3943b22 / b98e532.
    Proofs are in Proofs.v, the PostgreSQL-side specification in Spec.v. *)
From Coq Require Import ZArith NArith List Bool Lia.
Import ListNotations.

Definition byte := N.
Definition bytes := list byte.

Fixpoint bytes_eqb (a b : bytes) : bool :=
  match a, b with
  | [], [] => true
  | x :: a', y :: b' => N.eqb x y && bytes_eqb a' b'
  | _, _ => false
  end.

(* ------------------------------------------------------------------------- *)
(** * A. identifiers and table_access                                          *)

(** sqlparser's [Ident { value, quote_style }]; an [ObjectName] is a [Vec<Ident>]
    (catalog.schema.table, schema.table or table). *)
Record ident := mkIdent { text : bytes; quoted : bool }.
Definition objname := list ident.

Definition is_upper (b : byte) : bool := (65 <=? b)%N && (b <=? 90)%N.
Definition lower_ascii (b : byte) : byte := if is_upper b then (b + 32)%N else b.
Definition is_ascii (b : byte) : bool := (b <? 128)%N.
Definition ascii_bytes (s : bytes) : bool := forallb is_ascii s.

(** Rust [str::to_ascii_lowercase] on the UTF-8 bytes of the identifier (3943b22): only
    A-Z change; exact for every string. *)
Definition rust_lower (s : bytes) : bytes := map lower_ascii s.

(** [str::is_char_boundary(i)] for 0 < i < len: the byte at i is not a UTF-8 continuation
    byte (10xxxxxx); index 0 and len are boundaries ([nth] default 0 is not one). *)
Definition is_cont (b : byte) : bool := (128 <=? b)%N && (b <? 192)%N.
Fixpoint backoff (k : nat) (s : bytes) : nat :=
  match k with
  | O => O
  | S k' => if is_cont (nth k s 0%N) then backoff k' s else k
  end.
(** table_access.rs truncate_identifier: [end = min(len, 63); while !is_char_boundary(end)
    { end -= 1 }; name[..end]] *)
Definition clip63 (s : bytes) : bytes := firstn (backoff (Nat.min (length s) 63) s) s.

(** table_access.rs [check]: last identifier of the object name; quoted => verbatim,
    otherwise [to_ascii_lowercase()]; either way clipped to 63 bytes; [None] for an empty
    object name. *)
Definition table_name (nm : objname) : option bytes :=
  match rev nm with
  | [] => None
  | i :: _ => Some (clip63 (if quoted i then text i else rust_lower (text i)))
  end.

Definition mem (t : bytes) (l : list bytes) : bool := existsb (bytes_eqb t) l.

(** [self.tables.contains(&table_name)] *)
Definition matches (blocked : list bytes) (nm : objname) : bool :=
  match table_name nm with Some t => mem t blocked | None => false end.

Fixpoint first_match (blocked : list bytes) (names : list objname) : option bytes :=
  match names with
  | [] => None
  | nm :: r => if matches blocked nm
               then table_name nm
               else first_match blocked r
  end.

(** TableAccess::run.  [explicit] = the names the plugin looks at itself, statement by
    statement (table of [COPY <table>], objects of [DROP]); [visited] = what sqlparser's
    [visit_relations] reports over the whole message, in visiting order.  [found] is
    first set by the explicit loop (which stops at the first hit) and then overwritten
    by the first hit of the visitor, if any.  [Some t] = Deny(permission for table t denied). *)
Definition ta_verdict (enabled : bool) (blocked : list bytes)
           (explicit visited : list objname) : option bytes :=
  if negb enabled then None else
  match first_match blocked visited with
  | Some t => Some t
  | None => first_match blocked explicit
  end.

(* the text: permission for table + quote *)
Definition deny_prefix : bytes :=
  [112;101;114;109;105;115;115;105;111;110;32;102;111;114;32;116;97;98;108;101;32;34]%N.
(* the text: quote + denied *)
Definition deny_suffix : bytes := [34;32;100;101;110;105;101;100]%N.
Definition deny_message (t : bytes) : bytes := deny_prefix ++ t ++ deny_suffix.

(* ------------------------------------------------------------------------- *)
(** * B. intercept: reply encoders of messages.rs at byte level                *)

Open Scope Z_scope.

Definition zlen {A} (l : list A) : Z := Z.of_nat (length l).

(** [put_i32(x as i32)] / [put_i16(x as i16)]: big-endian two's complement, the cast
    wraps. *)
Definition i32be (z : Z) : bytes :=
  let u := z mod 4294967296 in
  [Z.to_N (u / 16777216); Z.to_N (u / 65536 mod 256); Z.to_N (u / 256 mod 256); Z.to_N (u mod 256)].
Definition i16be (z : Z) : bytes :=
  let u := z mod 65536 in [Z.to_N (u / 256); Z.to_N (u mod 256)].

(** [res.put_u8(tag); res.put_i32(body.len() as i32 + 4); res.put(body)] *)
Definition frame (tag : byte) (body : bytes) : bytes := tag :: i32be (zlen body + 4) ++ body.

Definition s_text : bytes := [116;101;120;116]%N.
Definition s_anyarray : bytes := [97;110;121;97;114;114;97;121]%N.
Definition s_oid : bytes := [111;105;100]%N.
Definition s_bool : bytes := [98;111;111;108]%N.
Definition s_int4 : bytes := [105;110;116;52]%N.
Definition s_select : bytes := [83;69;76;69;67;84]%N.          (* SELECT *)
Definition s_user : bytes := [36;123;85;83;69;82;125]%N.        (* dollar-brace USER brace *)
Definition s_database : bytes := [36;123;68;65;84;65;66;65;83;69;125]%N.  (* dollar-brace DATABASE brace *)

(** intercept.rs: data_type string -> DataType; messages.rs: DataType -> (type oid,
    type size).  Unknown strings are [DataType::Any]. *)
Definition dtype (s : bytes) : Z * Z :=
  if bytes_eqb s s_text then (25, -1)
  else if bytes_eqb s s_anyarray then (2277, -1)
  else if bytes_eqb s s_oid then (26, 4)
  else if bytes_eqb s s_bool then (16, 1)
  else if bytes_eqb s s_int4 then (23, 4)
  else (2276, -1).

(** one column of row_description: name NUL, table oid 0, attnum 0, type oid, type
    size, type modifier -1, format 0 (text) *)
Definition col_desc (c : bytes * bytes) : bytes :=
  let '(oid, size) := dtype (snd c) in
  fst c ++ [0%N] ++ i32be 0 ++ i16be 0 ++ i32be oid ++ i16be size ++ i32be (-1) ++ i16be 0.

Definition row_description (cols : list (bytes * bytes)) : bytes :=
  frame 84%N (i16be (zlen cols) ++ concat (map col_desc cols)).

Definition cell_enc (c : option bytes) : bytes :=
  match c with Some b => i32be (zlen b) ++ b | None => i32be (-1) end.

Definition data_row_nullable (row : list (option bytes)) : bytes :=
  frame 68%N (i16be (zlen row) ++ concat (map cell_enc row)).

Definition command_complete (cmd : bytes) : bytes := frame 67%N (cmd ++ [0%N]).

(** [result.put_u8(b'Z'); result.put_i32(5); result.put_u8(b'I')] *)
Definition rfq_idle : bytes := [90; 0; 0; 0; 5; 73]%N.

(** Rust [str::replace(pat, rep)]: non-overlapping matches, left to right. *)
Fixpoint strip_prefix (p s : bytes) : option bytes :=
  match p, s with
  | [], _ => Some s
  | x :: p', y :: s' => if N.eqb x y then strip_prefix p' s' else None
  | _ :: _, [] => None
  end.

Fixpoint replace_fuel (fuel : nat) (pat rep s : bytes) : bytes :=
  match fuel with
  | O => s
  | S f =>
      match s with
      | [] => []
      | c :: r =>
          match strip_prefix pat s with
          | Some rest => rep ++ replace_fuel f pat rep rest
          | None => c :: replace_fuel f pat rep r
          end
      end
  end.
Definition replace (pat rep s : bytes) : bytes := replace_fuel (S (length s)) pat rep s.

(** config.rs Query::substitute: replace USER placeholder by user, then DATABASE placeholder by db *)
Definition subst (user db c : bytes) : bytes := replace s_database db (replace s_user user c).

(** One entry of [plugins.intercept.queries] (a BTreeMap: iteration in key order; the
    list is given in that order). *)
Record rule := mkRule { r_query : bytes; r_schema : list (list bytes); r_result : list (list bytes) }.

(** [row.first()] / [row.get(1)] with empty-string defaults (b98e532): a schema entry with
    fewer than two strings gives an empty name / the type Any; nothing panics. *)
Definition schema_col (row : list bytes) : bytes * bytes :=
  match row with
  | n :: t :: _ => (n, t)
  | [n] => (n, [])
  | [] => ([], [])
  end.

Fixpoint map_opt {A B} (f : A -> option B) (l : list A) : option (list B) :=
  match l with
  | [] => Some []
  | x :: r => match f x, map_opt f r with Some y, Some ys => Some (y :: ys) | _, _ => None end
  end.

(** a result cell: substituted, and the empty string becomes NULL *)
Definition cell_of (user db c : bytes) : option bytes :=
  match subst user db c with [] => None | c' => Some c' end.

Definition rule_rows (user db : bytes) (r : rule) : list (list (option bytes)) :=
  map (map (cell_of user db)) (r_result r).

(** reply for ONE matching rule: RowDescription, one DataRow per configured row,
    CommandComplete SELECT. *)
Definition rule_reply (user db : bytes) (r : rule) : bytes :=
  row_description (map schema_col (r_schema r)) ++ concat (map data_row_nullable (rule_rows user db r))
  ++ command_complete s_select.

Definition ascii_lower (s : bytes) : bytes := map lower_ascii s.   (* to_ascii_lowercase *)

(** [target.query == q] with both sides lower-cased ([substitute] lower-cases the
    configured query, the statement is [to_string().to_ascii_lowercase()]) *)
Definition rule_matches (q : bytes) (r : rule) : bool :=
  bytes_eqb (ascii_lower (r_query r)) (ascii_lower q).

(** for q in ast { for (_, target) in queries { if target.query == q { ... } } } *)
Definition intercept_body (user db : bytes) (rules : list rule) (stmts : list bytes) : bytes :=
  concat (flat_map (fun q => map (rule_reply user db) (filter (rule_matches q) rules)) stmts).

Inductive iresult := IAllow | IReply (b : bytes).

(** Intercept::run.  [stmts] = sqlparser's re-rendering ([to_string()]) of every
    statement of the message. *)
Definition intercept_run (enabled : bool) (user db : bytes) (rules : list rule) (stmts : list bytes) : iresult :=
  if negb enabled then IAllow else
  match stmts with
  | [] => IAllow
  | _ => match intercept_body user db rules stmts with
         | [] => IAllow
         | b => IReply (b ++ rfq_idle)
         end
  end.

(* ------------------------------------------------------------------------- *)
(** * C. execute_plugins: the verdict of one message                           *)

(** What the plugins see of one parsed statement. *)
Record stmt := mkStmt { st_norm : bytes;                 (* Statement::to_string() *)
                        st_explicit : list objname;      (* COPY <table> / DROP names *)
                        st_visited : list objname }.     (* visit_relations, this statement *)

Record plugin_cfg := mkPcfg { ic_present : bool; ic_enabled : bool; ic_rules : list rule;
                              ta_present : bool; ta_enabled : bool; ta_tables : list bytes }.

Inductive pverdict := PAllow | PDeny (msg : bytes) | PIntercept (reply : bytes).

(** QueryRouter::execute_plugins: no [plugins] section => Allow; query_logger has no
    verdict; intercept first (only an Intercept result returns early), then
    table_access. *)
Definition execute_plugins (pc : option plugin_cfg) (user db : bytes) (ast : list stmt) : pverdict :=
  match pc with
  | None => PAllow
  | Some pc =>
      match (if ic_present pc then intercept_run (ic_enabled pc) user db (ic_rules pc) (map st_norm ast) else IAllow) with
      | IReply b => PIntercept b
      | IAllow =>
          if ta_present pc then
            match ta_verdict (ta_enabled pc) (ta_tables pc)
                             (flat_map st_explicit ast) (flat_map st_visited ast) with
            | Some t => PDeny (deny_message t)
            | None => PAllow
            end
          else PAllow
      end
  end.

(** ConnectionPool::from_config (pool.rs, both where the server pools are built and where
    PoolSettings is filled): [match pool_config.plugins { Some(p) => Some(p), None =>
    config.plugins }].  A pool's own [pools.<name>.plugins] section, when present, REPLACES
    the global [plugins] section as a whole for that pool (no per-plugin merge: pgcat.toml
    says all plugins have to be configured there again); a pool without one inherits the
    global section. *)
Definition effective_plugins (global pool : option plugin_cfg) : option plugin_cfg :=
  match pool with Some p => Some p | None => global end.

(** what the wire check needs to know of the effective section *)
Definition plugins_summary (pc : option plugin_cfg) : option (bool * list bytes * bool * list bytes) :=
  match pc with
  | None => None
  | Some pc => Some (ta_present pc && ta_enabled pc, ta_tables pc,
                     ic_present pc && ic_enabled pc, map r_query (ic_rules pc))
  end.

Close Scope Z_scope.

(* ------------------------------------------------------------------------- *)
(** * D. enforcement state machine (client.rs Client::handle)                  *)

(** Abstract verdict of one message; [t] identifies the reply (error text / rows). *)
Inductive verdict := Allow | Deny (t : nat) | Intercept (t : nat).
Definition is_allow (v : verdict) : bool := match v with Allow => true | _ => false end.

(** Pool settings that matter: [query_parser_enabled], [plugins.is_some()],
    prepared-statement caching ([prepared_statements_enabled]), transaction vs session
    pooling. *)
Record cfg := mkCfg { parser_on : bool; plugins_on : bool; ps_on : bool; txn_mode : bool }.

(** Client messages.  [parsed]: sqlparser accepts the text.  [v]: what the plugins
    return for this text when they run (an oracle; section C computes it).  [pool_ok]:
    whether [pool.get] succeeds if this message needs a checkout.  [tx_after]: the
    server's transaction status after it processed the message/batch, if forwarded
    (environment).  Statement names: 0 is the unnamed statement.  [key]: identity of
    the statement text (Parse::get_hash). *)
(** pgcat's custom commands as far as C19 is concerned.  SET SERVER ROLE TO 'primary' |
    'replica' | 'any' | 'auto' | 'default' changes the session's query-parser override
    (query_router.rs try_execute_command); [servers_ok]: whether the pool has a server of the
    role the command selects (environment: later checkouts fail otherwise).  Everything else
    (SET PRIMARY READS, SET SHARD, SET SHARDING KEY, SHOW ...) changes nothing here. *)
Inductive role_arg := RPrimary | RReplica | RAny | RAuto | RDefault.
Inductive command := CRole (r : role_arg) (servers_ok : bool) | COther.

Inductive msg :=
| MQ (id : nat) (parsed : bool) (v : verdict) (pool_ok tx_after : bool)
| MP (id : nat) (name key : nat) (parsed : bool) (v : verdict)
| MB (id : nat) (name : nat)
| MD (id : nat) (is_stmt : bool) (name : nat)
| ME (id : nat)
| MC (id : nat) (is_stmt : bool) (name : nat)
| MS (id : nat) (pool_ok tx_after : bool)
| MH (id : nat) (pool_ok : bool)    (* Flush, or any code the loops neither buffer nor forward *)
| MCmd (id : nat) (cmd : command) (pool_ok tx_after : bool).
    (* a simple Query whose text is one of pgcat's custom commands (CUSTOM_SQL_REGEXES) *)

Definition msg_id (m : msg) : nat :=
  match m with
  | MQ i _ _ _ _ | MP i _ _ _ _ | MB i _ | MD i _ _ | ME i | MC i _ _ | MS i _ _ | MH i _ | MCmd i _ _ _ => i
  end.

(** what the plugins contribute for a text, given the settings *)
Definition plug (c : cfg) (v : verdict) : verdict := if plugins_on c then v else Allow.
(** verdict that is acted on: the plugins run on a message that pgcat parsed.  From here on
    [parsed] means: the session parses messages ([parses], below) AND sqlparser accepts the
    text - [arrive] folds the first part in when the message arrives. *)
Definition eff (c : cfg) (parsed : bool) (v : verdict) : verdict :=
  if parsed then plug c v else Allow.

(** A message whose text the plugins reject (Deny) or answer themselves (Intercept). *)
Definition bad_msg (c : cfg) (m : msg) : bool :=
  match m with
  | MQ _ p v _ _ | MP _ _ _ p v => negb (is_allow (eff c p v))
  | _ => false
  end.

(** What is written to the server: a client message (possibly renamed), or a Parse that
    pgcat itself re-sends from the client's prepared-statement map
    (ensure_prepared_statement_is_on_server -> register_prepared_statement(.., true)). *)
Inductive fitem := FMsg (m : msg) | FParse (m : msg).
Definition bad_item (c : cfg) (it : fitem) : bool :=
  match it with FMsg m | FParse m => bad_msg c m end.

Inductive errkind := EPlugin (t : nat) | EPool | EUnknownStmt.
Inductive event :=
| EvFwd (items : list fitem)        (* one write to the server *)
| EvErr (k : errkind)               (* ErrorResponse + ReadyForQuery to the client *)
| EvIntercept (t : nat)             (* the intercept rows to the client *)
| EvCheckout | EvRelease            (* server taken from / returned to the pool *)
| EvCmd                             (* a custom command answered by pgcat itself *)
| EvEnd.                            (* handle() returned Err: the client task ends *)

(** A buffered message; for a Bind / Describe(statement) under caching also the Parse its
    statement name meant WHEN IT ARRIVED (f56a2eb: ExtendedProtocolData metadata). *)
Definition bitem := (msg * option msg)%type.

Record state := mkState {
  dead : bool;                      (* task ended *)
  held : bool;                      (* inside the transaction loop: a server is checked out *)
  stx : bool;                       (* server.in_transaction() *)
  pout : verdict;                   (* plugin_output (None and Some(Allow) coincide) *)
  ebuf : list bitem;                (* extended_protocol_data_buffer *)
  ps : list (nat * msg);            (* client prepared_statements: name -> Parse, newest first *)
  rej : list nat;                   (* rejected_statements: names of Parses of this batch a plugin rejected *)
  srv : list nat;                   (* statements the (single) server connection has *)
  sess : option bool * bool         (* QueryRouter.query_parser_enabled (the session's override: None = pool setting),
                                       and whether the pool has a server of the role the session selected *)
}.
Definition ov (s : state) : option bool := fst (sess s).
Definition role_ok (s : state) : bool := snd (sess s).

Definition init : state := mkState false false false Allow [] [] [] [] (None, true).
Definition bmsgs (s : state) : list msg := map fst (ebuf s).

Definition set_pout (s : state) (v : verdict) := mkState (dead s) (held s) (stx s) v (ebuf s) (ps s) (rej s) (srv s) (sess s).
Definition push (s : state) (b : bitem) := mkState (dead s) (held s) (stx s) (pout s) (ebuf s ++ [b]) (ps s) (rej s) (srv s) (sess s).
Definition set_ps (s : state) (p : list (nat * msg)) := mkState (dead s) (held s) (stx s) (pout s) (ebuf s) p (rej s) (srv s) (sess s).
Definition set_rej (s : state) (r : list nat) := mkState (dead s) (held s) (stx s) (pout s) (ebuf s) (ps s) r (srv s) (sess s).
Definition set_held (s : state) (h tx : bool) := mkState (dead s) h tx (pout s) (ebuf s) (ps s) (rej s) (srv s) (sess s).
Definition kill (s : state) := mkState true (held s) (stx s) (pout s) (ebuf s) (ps s) (rej s) (srv s) (sess s).
(** after the batch went to the server: the buffer is empty, the server cache updated *)
Definition drained (s : state) (sv : list nat) := mkState (dead s) (held s) (stx s) (pout s) [] (ps s) (rej s) sv (sess s).

Fixpoint lookup (n : nat) (l : list (nat * msg)) : option msg :=
  match l with
  | [] => None
  | (k, m) :: r => if Nat.eqb k n then Some m else lookup n r
  end.
Definition remove_name (n : nat) (l : list (nat * msg)) : list (nat * msg) :=
  filter (fun e => negb (Nat.eqb (fst e) n)) l.
Definition key_of (m : msg) : nat := match m with MP _ _ k _ _ => k | _ => 0 end.
Definition has (k : nat) (l : list nat) : bool := existsb (Nat.eqb k) l.
Definition forget (names : list nat) (l : list (nat * msg)) : list (nat * msg) :=
  filter (fun e => negb (has (fst e) names)) l.

(** reset_buffered_state (0acefb2): every name a rejected Parse of this batch gave is taken
    out of the client's map; the buffers are cleared. *)
Definition reset (s : state) :=
  mkState (dead s) (held s) (stx s) (pout s) [] (forget (rej s) (ps s)) [] (srv s) (sess s).
(** reset_buffered_state + plugin_output = None *)
Definition consume (s : state) := set_pout (reset s) Allow.

(** buffer_parse / buffer_bind / buffer_describe / Execute / Close: shared by both
    loops (client.rs 'P' 'B' 'D' 'E' 'C' arms).  A Parse runs the plugins when the
    parser is on and accepts the text; the verdict is stored only if no Deny/Intercept
    of this batch is pending (a verdict on an earlier Parse of this batch stands); under
    caching a rejected Parse's name is noted (note_rejected_parse) and every Parse's name
    is put into the client's map (buffer_parse).  Bind / Describe(statement) under caching
    resolve the name now.  A named-statement Close under caching forgets the name now
    (80b6794). *)
Definition buffer_msg (c : cfg) (s : state) (m : msg) : state * list event :=
  match m with
  | MP _ name _ parsed v =>
      let s1 := if parsed
                then (if is_allow (pout s) then set_pout s (plug c v) else s)
                else s in
      let s2 := if ps_on c
                then set_ps (if bad_msg c m then set_rej s1 (name :: rej s1) else s1) ((name, m) :: ps s1)
                else s1 in
      (push s2 (m, None), [])
  | MB _ name =>
      if ps_on c then
        match lookup name (ps s) with
        | Some p => (push s (m, Some p), [])
        | None => (kill s, [EvErr EUnknownStmt; EvEnd])
        end
      else (push s (m, None), [])
  | MD _ is_stmt name =>
      if ps_on c && is_stmt then
        match lookup name (ps s) with
        | Some p => (push s (m, Some p), [])
        | None => (kill s, [EvErr EUnknownStmt; EvEnd])
        end
      else (push s (m, None), [])
  | ME _ => (push s (m, None), [])
  | MC _ is_stmt name =>
      if ps_on c && is_stmt && negb (Nat.eqb name 0)
      then (push (set_ps s (remove_name name (ps s))) (m, None), [])
      else (push s (m, None), [])
  | _ => (s, [])
  end.

(** After a round trip to the server: release it in transaction mode when the server is
    not in a transaction (copy mode not modelled). *)
Definition after_server (c : cfg) (s : state) (tx : bool) : state * list event :=
  if negb tx && txn_mode c then (set_held s false false, [EvRelease])
  else (set_held s true tx, []).

(** The 'S' arm's walk over the buffered messages (plugin_output already checked).
    Returns the separate early writes (pgcat-initiated Parse + Sync for a Bind/Describe
    whose statement the server lacks), the batch to send and the updated server cache. *)
Fixpoint drain (c : cfg) (buf : list bitem) (sv : list nat) (early : list event) (acc : list fitem)
  : list event * list fitem * list nat :=
  match buf with
  | [] => (early, acc, sv)
  | (m, meta) :: r =>
      match m with
      | MP _ _ key _ _ =>
          if ps_on c then
            (if has key sv then drain c r sv early acc              (* ParseComplete is synthesised *)
             else drain c r (key :: sv) early (acc ++ [FMsg m]))
          else drain c r sv early (acc ++ [FMsg m])
      | MB _ _ | MD _ _ _ =>
          match meta with
          | Some p =>
              if has (key_of p) sv then drain c r sv early (acc ++ [FMsg m])
              else drain c r (key_of p :: sv) (early ++ [EvFwd [FParse p]]) (acc ++ [FMsg m])
          | None => drain c r sv early (acc ++ [FMsg m])
          end
      | MC _ is_stmt name =>
          if ps_on c && is_stmt && negb (Nat.eqb name 0)
          then drain c r sv early acc                                (* CloseComplete is synthesised *)
          else drain c r sv early (acc ++ [FMsg m])
      | _ => drain c r sv early (acc ++ [FMsg m])
      end
  end.

(** Transaction loop (a server is held): client.rs inner match. *)
Definition step_inner (c : cfg) (s : state) (m : msg) : state * list event :=
  match m with
  | MQ _ parsed v _ tx =>
      match eff c parsed v with
      | Deny t => (s, [EvErr (EPlugin t)])                         (* error_response; continue *)
      | Intercept t => (s, [EvIntercept t])                        (* write_all(result); continue *)
      | Allow => let '(s', ev) := after_server c s tx in (s', EvFwd [FMsg m] :: ev)
      end
  | MP _ _ _ _ _ | MB _ _ | MD _ _ _ | ME _ | MC _ _ _ => buffer_msg c s m
  | MS _ _ tx =>
      match pout s with
      | Deny t => (consume s, [EvErr (EPlugin t)])
      | Intercept t => (consume s, [EvIntercept t])
      | Allow =>
          let '(early, acc, sv) := drain c (ebuf s) (srv s) [] [] in
          let s1 := drained s sv in
          match acc with
          | [] => let '(s2, ev) := after_server c s1 (stx s1) in (s2, early ++ ev)   (* only Sync left: not sent *)
          | _ => let '(s2, ev) := after_server c s1 tx in (s2, early ++ EvFwd (acc ++ [FMsg m]) :: ev)
          end
      end
  | MH _ _ => (s, [])                                               (* Unexpected code *)
  | MCmd _ _ _ tx =>                                                (* custom commands are only recognised by the outer loop:
                                                                       here the text is an ordinary query that no plugin rejects *)
      let '(s', ev) := after_server c s tx in (s', EvFwd [FMsg m] :: ev)
  end.

Definition is_sync (m : msg) : bool := match m with MS _ _ _ => true | _ => false end.
Definition pool_ok_of (m : msg) : bool :=
  match m with MQ _ _ _ p _ | MS _ p _ | MH _ p | MCmd _ _ p _ => p | _ => true end.

(** Outer loop after the match: the check on plugin results acts on Deny for every
    message and (since a7d476c) on Intercept for a Sync, both BEFORE the checkout; then
    the checkout (a failed one at a Sync calls reset_buffered_state); then the message is
    handled by the transaction loop. *)
Definition outer_checkout (c : cfg) (s : state) (m : msg) : state * list event :=
  if pool_ok_of m && role_ok s then
    let '(s', ev) := step_inner c (set_held s true false) m in (s', EvCheckout :: ev)
  else ((if is_sync m then reset s else s), [EvErr EPool]).

Definition outer_rest (c : cfg) (s : state) (m : msg) : state * list event :=
  match pout s with
  | Deny t => (consume s, [EvErr (EPlugin t)])
  | Intercept t => if is_sync m then (consume s, [EvIntercept t]) else outer_checkout c s m
  | Allow => outer_checkout c s m
  end.

(** handle_custom_protocol: the command is executed and answered, nothing else happens (a
    pending verdict and the buffered batch stay as they are). *)
Definition apply_cmd (s : state) (cmd : command) : state :=
  match cmd with
  | CRole r ok =>
      let o := match r with RPrimary | RReplica | RAny => Some false | RAuto => Some true | RDefault => None end in
      mkState (dead s) (held s) (stx s) (pout s) (ebuf s) (ps s) (rej s) (srv s) (o, ok)
  | COther => s
  end.

(** Outer loop (no server held). *)
Definition step_outer (c : cfg) (s : state) (m : msg) : state * list event :=
  match m with
  | MCmd _ cmd _ _ => (apply_cmd s cmd, [EvCmd])
  | MQ _ parsed v _ _ =>
      match eff c parsed v with
      | Deny t => (s, [EvErr (EPlugin t)])
      | Intercept t => (s, [EvIntercept t])
      | Allow => outer_rest c s m
      end
  | MP _ _ _ _ _ | MB _ _ | MD _ _ _ | ME _ | MC _ _ _ => buffer_msg c s m
  | MS _ _ _ | MH _ _ => outer_rest c s m
  end.

Definition step_core (c : cfg) (s : state) (m : msg) : state * list event :=
  if dead s then (s, []) else if held s then step_inner c s m else step_outer c s m.

(** QueryRouter::query_parser_enabled(): the session's override, else the pool's setting. *)
Definition qpe (c : cfg) (s : state) : bool :=
  match ov s with None => parser_on c | Some b => b end.
(** QueryRouter::parses_messages() (2a7a370): messages are parsed when the session's parser
    is on, and also whenever the pool's parser is on and the pool runs plugins - SET SERVER
    ROLE switches the session's role inference off, not the pool's plugins. *)
Definition parses (c : cfg) (s : state) : bool := qpe c s || (parser_on c && plugins_on c).
(** the gate before 2a7a370 (kept as a mutant: F35) *)
Definition parses_old (c : cfg) (s : state) : bool := qpe c s.

(** A Q / P arrives: it is parsed iff the session parses messages and sqlparser accepts it. *)
Definition arrive_with (P : cfg -> state -> bool) (c : cfg) (s : state) (m : msg) : msg :=
  match m with
  | MQ i p v po tx => MQ i (p && P c s) v po tx
  | MP i n k p v => MP i n k (p && P c s) v
  | _ => m
  end.

Definition step_with (P : cfg -> state -> bool) (c : cfg) (s : state) (m : msg) : state * list event :=
  step_core c s (arrive_with P c s m).

Fixpoint run_with (P : cfg -> state -> bool) (c : cfg) (s : state) (ops : list msg) : state * list event :=
  match ops with
  | [] => (s, [])
  | m :: r => let '(s1, e1) := step_with P c s m in let '(s2, e2) := run_with P c s1 r in (s2, e1 ++ e2)
  end.

Definition step := step_with parses.
Definition run := run_with parses.
Definition trace (c : cfg) (ops : list msg) : list event := snd (run c init ops).

(* ------------------------------------------------------------------------- *)
(** * E. which settings a connected session uses across a RELOAD                *)

(** Since c3cef0c Client::handle refreshes [pool] and [query_router.update_pool_settings]
    when a message ARRIVES in the outer loop (before handle_custom_protocol / parse /
    plugins): every statement an idle session sends after a RELOAD is judged by the
    registered (new) plugins section.  (Inside a transaction - server held - nothing is
    refreshed until the transaction ends; the reload family reloads between transactions.)
    [vold] / [vnew]: the statement's verdict under the settings the router held before /
    under the registered ones.  [fresh]: the router holds the registered settings. *)
Inductive rop := RReload | RQ (vold vnew : verdict) | RBatch (vold vnew : verdict).
Inductive rout := ONone | OFwd | ODeny (t : nat) | OIcpt (t : nat).
Definition act (v : verdict) : rout :=
  match v with Allow => OFwd | Deny t => ODeny t | Intercept t => OIcpt t end.

Definition rstep (fresh : bool) (o : rop) : bool * rout :=
  match o with
  | RReload => (false, ONone)
  | RQ _ vnew | RBatch _ vnew => (true, act vnew)     (* refreshed on arrival, then judged *)
  end.

(** the behaviour before c3cef0c, kept as a mutant: settings were refreshed only at a
    checkout; a simple Query that passed the outer loop was judged again, after the refresh,
    by the transaction loop *)
Definition rstep_old (fresh : bool) (o : rop) : bool * rout :=
  match o with
  | RReload => (false, ONone)
  | RQ vold vnew =>
      if fresh then (true, act vnew)
      else match vold with
           | Allow => (true, act vnew)
           | _ => (false, act vold)
           end
  | RBatch vold vnew =>
      let v := if fresh then vnew else vold in
      (match v with Allow => true | _ => fresh end, act v)
  end.

Fixpoint rrun_with (step : bool -> rop -> bool * rout) (fresh : bool) (ops : list rop) : list rout :=
  match ops with
  | [] => []
  | o :: r => let '(f, out) := step fresh o in out :: rrun_with step f r
  end.
Definition rrun := rrun_with rstep.
