(** C19 — lemmas.  Property theorems are re-exported from Props.v. *)
From Coq Require Import ZArith NArith List Bool Lia.
From PV Require Import Plugin.Model Plugin.Spec.
Import ListNotations.
Ltac Zify.zify_post_hook ::= Z.div_mod_to_equations.

(* ------------------------------------------------------------------------- *)
(** * 1. names                                                                 *)

Lemma bytes_eqb_eq a b : bytes_eqb a b = true <-> a = b.
Proof.
  revert b. induction a as [|x a IH]; intros [|y b]; cbn [bytes_eqb]; split; intros H;
    try reflexivity; try discriminate.
  - apply andb_true_iff in H. destruct H as [H1 H2]. apply N.eqb_eq in H1. apply IH in H2. congruence.
  - injection H as -> ->. rewrite N.eqb_refl. cbn [andb]. apply IH. reflexivity.
Qed.

Lemma mem_In t l : mem t l = true <-> In t l.
Proof.
  unfold mem. rewrite existsb_exists. split.
  - intros (x & Hx & E). apply bytes_eqb_eq in E. subst. exact Hx.
  - intros H. exists t. split; [exact H|]. apply bytes_eqb_eq. reflexivity.
Qed.

Lemma table_name_last nm : table_name nm =
  match last_ident nm with
  | Some i => Some (clip63 (if quoted i then text i else rust_lower (text i)))
  | None => None
  end.
Proof. unfold table_name, last_ident. destruct (rev nm); reflexivity. Qed.

(** ** pgcat's back-off to a character boundary = PostgreSQL's character walk *)

Lemma clen_pos c : 1 <= clen c.
Proof. unfold clen. repeat match goal with |- context [if ?b then _ else _] => destruct b end; lia. Qed.

Lemma is_cont_0 : is_cont 0%N = false.
Proof. reflexivity. Qed.

Lemma backoff_all_cont n s : (forall k, 1 <= k <= n -> is_cont (@nth byte k s 0%N) = true) -> backoff n s = 0.
Proof.
  induction n as [|n IH]; intros H; [reflexivity|].
  cbn [backoff]. rewrite (H (S n)) by lia. apply IH. intros k Hk. apply H. lia.
Qed.

Lemma backoff_shift pre rest j :
  match rest with [] => True | h :: _ => is_cont h = false end ->
  backoff (length pre + j) (pre ++ rest) = length pre + backoff j rest.
Proof.
  intros Hh. induction j as [|j IH].
  - rewrite Nat.add_0_r. cbn [backoff]. rewrite Nat.add_0_r.
    destruct (length pre) as [|k] eqn:E; [reflexivity|].
    cbn [backoff]. rewrite <- E. rewrite app_nth2 by lia. rewrite Nat.sub_diag.
    destruct rest as [|h r]; cbn [nth]; [rewrite is_cont_0; reflexivity|rewrite Hh; reflexivity].
  - rewrite Nat.add_succ_r. cbn [backoff]. rewrite <- Nat.add_succ_r.
    rewrite app_nth2 by lia. replace (length pre + S j - length pre) with (S j) by lia.
    destruct (is_cont (@nth byte (S j) rest 0%N)); [exact IH|reflexivity].
Qed.

Lemma utf8_head s : utf8 s -> match s with [] => True | h :: _ => is_cont h = false end.
Proof. destruct 1; [exact I|assumption]. Qed.

Lemma walk_backoff s : utf8 s -> forall fuel n, n < fuel -> n < length s -> walk fuel n s = backoff n s.
Proof.
  induction 1 as [|c conts rest Hc Hl Hconts Hrest IH]; intros fuel n Hf Hn; [cbn in Hn; lia|].
  destruct fuel as [|f]; [lia|]. cbn [walk].
  pose proof (clen_pos c) as Hp.
  assert (Hlen: length (c :: conts) = clen c) by (cbn [length]; lia).
  change (c :: conts ++ rest) with ((c :: conts) ++ rest) in *.
  destruct (Nat.ltb_spec n (clen c)) as [Hlt|Hge].
  - symmetry. apply backoff_all_cont. intros k Hk.
    rewrite app_nth1 by lia. destruct k as [|k]; [lia|]. cbn [nth].
    rewrite Forall_forall in Hconts. apply Hconts. apply nth_In. lia.
  - rewrite app_length, Hlen in Hn.
    assert (Hh: match rest with [] => True | h :: _ => is_cont h = false end) by (apply utf8_head; exact Hrest).
    destruct (Nat.eqb_spec n (clen c)) as [->|Hne].
    + rewrite <- Hlen at 2. rewrite <- (Nat.add_0_r (length (c :: conts))).
      rewrite backoff_shift by exact Hh. cbn [backoff]. lia.
    + assert (E: skipn (clen c) ((c :: conts) ++ rest) = rest).
      { rewrite <- Hlen. rewrite skipn_app, Nat.sub_diag, skipn_all. reflexivity. }
      rewrite E. rewrite IH by lia.
      replace n with (length (c :: conts) + (n - clen c)) at 2 by lia.
      rewrite backoff_shift by exact Hh. lia.
Qed.

Lemma backoff_len s : backoff (length s) s = length s.
Proof.
  destruct (length s) as [|k] eqn:E; [reflexivity|]. cbn [backoff].
  rewrite nth_overflow by lia. rewrite is_cont_0. reflexivity.
Qed.

Lemma clip_is_truncate s : utf8 s -> pg_truncate s = clip63 s.
Proof.
  intros H. unfold pg_truncate, clip63. destruct (Nat.leb_spec (length s) 63) as [Hle|Hgt].
  - rewrite Nat.min_l by exact Hle. rewrite backoff_len, firstn_all. reflexivity.
  - rewrite Nat.min_r by lia. rewrite (walk_backoff s H 64 63) by lia. reflexivity.
Qed.

Lemma lower_cont c : is_cont (lower_ascii c) = is_cont c.
Proof.
  unfold lower_ascii, is_upper, is_cont.
  destruct (N.leb_spec 65 c), (N.leb_spec c 90); cbn [andb]; try reflexivity.
  destruct (N.leb_spec 128 (c + 32)), (N.leb_spec 128 c); cbn [andb]; try reflexivity; try lia.
Qed.

Lemma lower_clen c : clen (lower_ascii c) = clen c.
Proof.
  unfold lower_ascii, is_upper.
  destruct (N.leb_spec 65 c), (N.leb_spec c 90); cbn [andb]; try reflexivity.
  unfold clen. destruct (N.ltb_spec (c + 32) 128), (N.ltb_spec c 128); try reflexivity; lia.
Qed.

Lemma utf8_fold s : utf8 s -> utf8 (map lower_ascii s).
Proof.
  induction 1 as [|c conts rest Hc Hl Hconts Hrest IH]; [constructor|].
  cbn [map]. rewrite map_app. constructor.
  - rewrite lower_cont. exact Hc.
  - rewrite map_length, lower_clen. exact Hl.
  - rewrite Forall_forall in *. intros b Hb. apply in_map_iff in Hb. destruct Hb as (x & <- & Hx).
    rewrite lower_cont. apply Hconts. exact Hx.
  - exact IH.
Qed.

Lemma utf8b_sound fuel : forall s, utf8b fuel s = true -> utf8 s.
Proof.
  induction fuel as [|f IH]; intros [|c r] H; try constructor; [discriminate|].
  cbn [utf8b] in H. repeat (apply andb_true_iff in H; destruct H as [H ?]).
  rewrite <- (firstn_skipn (clen c - 1) r). constructor.
  - apply negb_true_iff. exact H.
  - apply firstn_length_le. apply Nat.leb_le. assumption.
  - apply Forall_forall. intros b Hb. match goal with Hf: forallb _ _ = true |- _ => rewrite forallb_forall in Hf; apply Hf; exact Hb end.
  - apply IH. assumption.
Qed.

(** what pgcat compares with the list is what PostgreSQL resolves the identifier to *)
Lemma resolve_is_table_name i : utf8 (text i) ->
  pg_resolve i = clip63 (if quoted i then text i else rust_lower (text i)).
Proof.
  intros H. unfold pg_resolve, pg_fold, rust_lower. apply clip_is_truncate.
  destruct (quoted i); [exact H|apply utf8_fold; exact H].
Qed.

Lemma name_complete blocked nm i :
  last_ident nm = Some i -> utf8 (text i) ->
  In (pg_resolve i) blocked -> matches blocked nm = true.
Proof.
  intros Hl Hu Hin. unfold matches. rewrite table_name_last, Hl.
  apply mem_In. rewrite <- resolve_is_table_name by assumption. exact Hin.
Qed.

Lemma name_sound blocked nm : matches blocked nm = true ->
  exists i, last_ident nm = Some i /\ (utf8 (text i) -> In (pg_resolve i) blocked).
Proof.
  unfold matches. rewrite table_name_last. destruct (last_ident nm) as [i|]; [|discriminate].
  intros H. exists i. split; [reflexivity|]. intros Hu.
  rewrite resolve_is_table_name by assumption. apply mem_In. exact H.
Qed.

Lemma first_match_none blocked names :
  first_match blocked names = None -> forall nm, In nm names -> matches blocked nm = false.
Proof.
  induction names as [|n r IH]; intros H nm Hin; [destruct Hin|].
  cbn [first_match] in H. destruct (matches blocked n) eqn:E.
  - unfold matches in E. destruct (table_name n); discriminate.
  - destruct Hin as [<-|Hin]; [exact E|]. apply IH; assumption.
Qed.

Lemma first_match_some blocked names t :
  first_match blocked names = Some t ->
  exists nm, In nm names /\ matches blocked nm = true /\ table_name nm = Some t.
Proof.
  induction names as [|n r IH]; intros H; [discriminate|].
  cbn [first_match] in H. destruct (matches blocked n) eqn:E.
  - exists n. split; [left; reflexivity|]. split; assumption.
  - destruct (IH H) as (nm & Hin & Hm & Ht). exists nm. split; [right; exact Hin|]. split; assumption.
Qed.

(** a message one of whose reported relations is a listed table is never Allowed *)
Lemma exec_blocks pc user db ast nm :
  ta_present pc = true -> ta_enabled pc = true ->
  In nm (flat_map st_explicit ast ++ flat_map st_visited ast) ->
  matches (ta_tables pc) nm = true ->
  execute_plugins (Some pc) user db ast <> PAllow.
Proof.
  intros Hp He Hin Hm. unfold execute_plugins. rewrite Hp.
  destruct (if ic_present pc then _ else _); try discriminate.
  unfold ta_verdict. rewrite He. cbn [negb].
  destruct (first_match (ta_tables pc) (flat_map st_visited ast)) eqn:E1; [discriminate|].
  destruct (first_match (ta_tables pc) (flat_map st_explicit ast)) eqn:E2; [discriminate|].
  exfalso. apply in_app_or in Hin. destruct Hin as [Hin|Hin].
  - rewrite (first_match_none _ _ E2 nm Hin) in Hm. discriminate.
  - rewrite (first_match_none _ _ E1 nm Hin) in Hm. discriminate.
Qed.

(** ... and a Deny names a listed table that the message mentions *)
Lemma exec_deny_sound pc user db ast msg :
  execute_plugins pc user db ast = PDeny msg ->
  exists pc' nm t, pc = Some pc' /\ In nm (flat_map st_explicit ast ++ flat_map st_visited ast) /\
                   matches (ta_tables pc') nm = true /\ table_name nm = Some t /\ msg = deny_message t.
Proof.
  unfold execute_plugins. destruct pc as [pc|]; [|discriminate].
  destruct (if ic_present pc then _ else _); try discriminate.
  destruct (ta_present pc); [|discriminate].
  destruct (ta_verdict _ _ _ _) as [t|] eqn:E; [|discriminate].
  intros H. injection H as <-. exists pc. unfold ta_verdict in E.
  destruct (negb (ta_enabled pc)); [discriminate|].
  destruct (first_match (ta_tables pc) (flat_map st_visited ast)) eqn:E1.
  - injection E as ->. destruct (first_match_some _ _ _ E1) as (nm & Hin & Hm & Ht).
    exists nm, t. repeat split; try assumption. apply in_or_app. right. exact Hin.
  - destruct (first_match_some _ _ _ E) as (nm & Hin & Hm & Ht).
    exists nm, t. repeat split; try assumption. apply in_or_app. left. exact Hin.
Qed.

(** intercept comes first: a statement that matches an intercept rule is answered with the
    configured rows even if it names a listed table *)
Lemma intercept_first pc user db ast b :
  ic_present pc = true -> intercept_run (ic_enabled pc) user db (ic_rules pc) (map st_norm ast) = IReply b ->
  execute_plugins (Some pc) user db ast = PIntercept b.
Proof. intros Hp Hi. unfold execute_plugins. rewrite Hp, Hi. reflexivity. Qed.

Lemma exec_disabled user db ast : execute_plugins None user db ast = PAllow.
Proof. reflexivity. Qed.

Lemma pool_section_wins g pc : effective_plugins g (Some pc) = Some pc.
Proof. reflexivity. Qed.

Lemma pool_inherits g : effective_plugins g None = g.
Proof. reflexivity. Qed.

(** a pool whose own section switches both plugins off is not filtered by the global one *)
Lemma pool_disabled_allows g pc user db ast :
  ta_present pc && ta_enabled pc = false -> ic_present pc && ic_enabled pc = false ->
  execute_plugins (effective_plugins g (Some pc)) user db ast = PAllow.
Proof.
  intros Ht Hi. cbn [effective_plugins]. unfold execute_plugins, intercept_run, ta_verdict.
  destruct (ic_present pc); cbn [andb] in Hi; [rewrite Hi; cbn [negb]|];
    (destruct (ta_present pc); cbn [andb] in Ht; [rewrite Ht; reflexivity|reflexivity]).
Qed.

(* ------------------------------------------------------------------------- *)
(** * 2. the intercept reply is readable and says what the rule says           *)

Open Scope Z_scope.

Lemma zlen_app {A} (a b : list A) : zlen (a ++ b) = zlen a + zlen b.
Proof. unfold zlen. rewrite app_length. lia. Qed.
Lemma zlen_cons {A} (x : A) l : zlen (x :: l) = 1 + zlen l.
Proof. unfold zlen. cbn [length]. lia. Qed.
Lemma zlen_nonneg {A} (l : list A) : 0 <= zlen l.
Proof. unfold zlen. lia. Qed.

Lemma rd_i32_i32be z : -2147483648 <= z < 2147483648 ->
  exists a b c d, i32be z = [a; b; c; d] /\ rd_i32 a b c d = z.
Proof.
  intros H. unfold i32be. do 4 eexists. split; [reflexivity|].
  unfold rd_i32, be_val, signed. cbn [fold_left].
  set (u := z mod 4294967296).
  assert (Hu: 0 <= u < 4294967296) by (apply Z.mod_pos_bound; lia).
  rewrite !Z2N.id by (subst u; first [apply Z.div_pos; lia | apply Z.mod_pos_bound; lia | lia]).
  change (2 ^ (32 - 1)) with 2147483648. change (2 ^ 32) with 4294967296.
  assert (E: ((0 * 256 + u / 16777216) * 256 + u / 65536 mod 256) * 256 + u / 256 mod 256 = u / 256) by lia.
  assert (E2: (((0 * 256 + u / 16777216) * 256 + u / 65536 mod 256) * 256 + u / 256 mod 256) * 256 + u mod 256 = u) by lia.
  rewrite E2. destruct (Z.ltb_spec u 2147483648); subst u; lia.
Qed.

Lemma rd_i16_i16be z : -32768 <= z < 32768 ->
  exists a b, i16be z = [a; b] /\ rd_i16 a b = z.
Proof.
  intros H. unfold i16be. do 2 eexists. split; [reflexivity|].
  unfold rd_i16, be_val, signed. cbn [fold_left].
  set (u := z mod 65536).
  assert (Hu: 0 <= u < 65536) by (apply Z.mod_pos_bound; lia).
  rewrite !Z2N.id by (subst u; first [apply Z.div_pos; lia | apply Z.mod_pos_bound; lia | lia]).
  change (2 ^ (16 - 1)) with 32768. change (2 ^ 16) with 65536.
  assert (E2: (0 * 256 + u / 256) * 256 + u mod 256 = u) by lia.
  rewrite E2. destruct (Z.ltb_spec u 32768); subst u; lia.
Qed.

Lemma firstn_zlen {A} (a b : list A) : firstn (Z.to_nat (zlen a)) (a ++ b) = a.
Proof.
  unfold zlen. rewrite Nat2Z.id. rewrite firstn_app, Nat.sub_diag, firstn_all. cbn [firstn]. apply app_nil_r.
Qed.
Lemma skipn_zlen {A} (a b : list A) : skipn (Z.to_nat (zlen a)) (a ++ b) = b.
Proof.
  unfold zlen. rewrite Nat2Z.id. rewrite skipn_app, Nat.sub_diag, skipn_all. reflexivity.
Qed.

Lemma take_frame_frame tag body rest : zlen body + 4 < 2147483648 ->
  take_frame (frame tag body ++ rest) = Some (tag, body, rest).
Proof.
  intros H. pose proof (zlen_nonneg body) as Hb.
  destruct (rd_i32_i32be (zlen body + 4) ltac:(lia)) as (a & b & c & d & E & R).
  unfold frame. rewrite E. cbn [app take_frame]. rewrite R.
  replace (zlen body + 4 - 4) with (zlen body) by lia.
  rewrite zlen_app. pose proof (zlen_nonneg rest).
  destruct (Z.leb_spec 4 (zlen body + 4)); [|lia].
  destruct (Z.leb_spec (zlen body) (zlen body + zlen rest)); [|lia].
  cbn [andb]. rewrite firstn_zlen, skipn_zlen. reflexivity.
Qed.

Definition enc (fs : list (byte * bytes)) : bytes := concat (map (fun f => frame (fst f) (snd f)) fs).
Definition fits (f : byte * bytes) : Prop := zlen (snd f) + 4 < 2147483648.

Lemma enc_length fs : (length fs <= length (enc fs))%nat.
Proof.
  induction fs as [|f fs IH]; [cbn; lia|].
  unfold enc in *. cbn [map concat]. rewrite app_length. unfold frame at 1. cbn [length]. lia.
Qed.

Lemma frames_enc fs : Forall fits fs -> forall fuel, (length fs <= fuel)%nat -> frames fuel (enc fs) = Some fs.
Proof.
  induction 1 as [|f fs Hf Hfs IH]; intros fuel Hl.
  - destruct fuel; reflexivity.
  - destruct fuel as [|fuel]; [cbn in Hl; lia|].
    unfold enc. cbn [map concat]. fold (enc fs).
    assert (E: exists x r, frame (fst f) (snd f) ++ enc fs = x :: r) by (unfold frame; cbn [app]; eauto).
    destruct E as (x & r & E). cbn [frames]. rewrite E. rewrite <- E.
    rewrite take_frame_frame by exact Hf.
    rewrite IH by (cbn in Hl; lia). destruct f. reflexivity.
Qed.

Lemma read_reply_enc fs ms : Forall fits fs -> map_opt rd_msg fs = Some ms -> read_reply (enc fs) = Some ms.
Proof.
  intros Hf Hm. unfold read_reply. rewrite frames_enc by (try exact Hf; apply enc_length). exact Hm.
Qed.

Lemma map_opt_app {A B} (f : A -> option B) l1 l2 r1 r2 :
  map_opt f l1 = Some r1 -> map_opt f l2 = Some r2 -> map_opt f (l1 ++ l2) = Some (r1 ++ r2).
Proof.
  revert r1. induction l1 as [|x l1 IH]; intros r1 H1 H2.
  - injection H1 as <-. exact H2.
  - cbn [map_opt app] in *. destruct (f x); [|discriminate].
    destruct (map_opt f l1) eqn:E; [|discriminate]. injection H1 as <-.
    rewrite (IH l eq_refl H2). reflexivity.
Qed.

Lemma cstr_app name rest : no_nul name = true -> cstr (name ++ 0%N :: rest) = Some (name, rest).
Proof.
  induction name as [|c r IH]; intros H; [reflexivity|].
  cbn [no_nul forallb] in H. apply andb_true_iff in H. destruct H as [Hc Hr].
  cbn [app cstr]. destruct (N.eqb c 0); [discriminate|]. fold (no_nul r) in Hr. rewrite (IH Hr). reflexivity.
Qed.

Lemma dtype_cases s : In (dtype s) [(25, -1); (2277, -1); (26, 4); (16, 1); (23, 4); (2276, -1)].
Proof.
  unfold dtype. repeat match goal with |- context [if ?b then _ else _] => destruct b end; cbn; tauto.
Qed.

Definition col_tail (oid size : Z) : bytes :=
  i32be 0 ++ i16be 0 ++ i32be oid ++ i16be size ++ i32be (-1) ++ i16be 0.

Lemma col_tail_rt oid size :
  In (oid, size) [(25, -1); (2277, -1); (26, 4); (16, 1); (23, 4); (2276, -1)] ->
  exists t1 t2 t3 t4 a1 a2 o1 o2 o3 o4 z1 z2 m1 m2 m3 m4 f1 f2,
    col_tail oid size = [t1; t2; t3; t4; a1; a2; o1; o2; o3; o4; z1; z2; m1; m2; m3; m4; f1; f2] /\
    rd_i32 t1 t2 t3 t4 = 0 /\ rd_i16 a1 a2 = 0 /\ rd_i32 o1 o2 o3 o4 = oid /\ rd_i16 z1 z2 = size /\
    rd_i32 m1 m2 m3 m4 = -1 /\ rd_i16 f1 f2 = 0.
Proof.
  cbn [In]. intros H.
  repeat (destruct H as [H|H]; [injection H as <- <-; do 18 eexists; split; [vm_compute; reflexivity|];
                                repeat split; vm_compute; reflexivity|]).
  destruct H.
Qed.

Lemma col_desc_shape c : col_desc c = fst c ++ 0%N :: col_tail (fst (dtype (snd c))) (snd (dtype (snd c))).
Proof. unfold col_desc, col_tail. destruct (dtype (snd c)). reflexivity. Qed.

Lemma rd_cols_enc cols : Forall (fun c => no_nul (fst c) = true) cols ->
  rd_cols (length cols) (concat (map col_desc cols)) = Some (map expected_col cols).
Proof.
  induction 1 as [|c cols Hc Hcs IH]; [reflexivity|].
  cbn [length map concat rd_cols]. rewrite col_desc_shape. unfold expected_col at 1.
  pose proof (dtype_cases (snd c)) as Hd. destruct (dtype (snd c)) as [oid size]. cbn [fst snd].
  destruct (col_tail_rt oid size Hd) as (t1&t2&t3&t4&a1&a2&o1&o2&o3&o4&z1&z2&m1&m2&m3&m4&f1&f2&E&R1&R2&R3&R4&R5&R6).
  rewrite E. rewrite <- app_assoc. cbn [app]. rewrite cstr_app by exact Hc.
  rewrite IH, R1, R2, R3, R4, R5, R6. reflexivity.
Qed.

Lemma i32be_m1 : i32be (-1) = [255; 255; 255; 255]%N.
Proof. vm_compute. reflexivity. Qed.
Lemma rd_m1 : rd_i32 255%N 255%N 255%N 255%N = -1.
Proof. vm_compute. reflexivity. Qed.

Lemma cell_le (c : option bytes) row : In c row -> zlen (cell_enc c) <= zlen (concat (map cell_enc row)).
Proof.
  induction row as [|x r IH]; intros H; [destruct H|].
  cbn [map concat]. rewrite zlen_app. pose proof (zlen_nonneg (cell_enc x)). pose proof (zlen_nonneg (concat (map cell_enc r))).
  destruct H as [->|H]; [lia|]. specialize (IH H). lia.
Qed.

Lemma rd_cells_enc row : Forall (fun c => match c with Some b => zlen b < 2147483648 | None => True end) row ->
  rd_cells (length row) (concat (map cell_enc row)) = Some row.
Proof.
  induction 1 as [|c row Hc Hr IH]; [reflexivity|].
  cbn [length map concat rd_cells]. destruct c as [b|]; unfold cell_enc at 1.
  - pose proof (zlen_nonneg b) as Hb.
    destruct (rd_i32_i32be (zlen b) ltac:(lia)) as (a1 & a2 & a3 & a4 & E & R).
    rewrite E. rewrite <- app_assoc. cbn [app]. rewrite R.
    destruct (Z.eqb_spec (zlen b) (-1)); [lia|].
    rewrite zlen_app. pose proof (zlen_nonneg (concat (map cell_enc row))).
    destruct (Z.leb_spec 0 (zlen b)); [|lia].
    destruct (Z.leb_spec (zlen b) (zlen b + zlen (concat (map cell_enc row)))); [|lia].
    cbn [andb]. rewrite firstn_zlen, skipn_zlen, IH. reflexivity.
  - rewrite i32be_m1. cbn [app]. rewrite rd_m1. cbn [Z.eqb Pos.eqb]. rewrite IH. reflexivity.
Qed.

Lemma rd_msg_rowdesc cols : zlen cols < 32768 -> Forall (fun c => no_nul (fst c) = true) cols ->
  rd_msg (84%N, i16be (zlen cols) ++ concat (map col_desc cols)) = Some (RowDescription (map expected_col cols)).
Proof.
  intros Hn Hc. pose proof (zlen_nonneg cols).
  destruct (rd_i16_i16be (zlen cols) ltac:(lia)) as (a & b & E & R).
  unfold rd_msg. change (84 =? 84)%N with true. cbv iota. rewrite E. cbn [app]. rewrite R.
  destruct (Z.leb_spec 0 (zlen cols)); [|lia]. unfold zlen. rewrite Nat2Z.id.
  rewrite rd_cols_enc by exact Hc. reflexivity.
Qed.

Lemma rd_msg_datarow row : zlen row < 32768 -> zlen (concat (map cell_enc row)) < 2147483000 ->
  rd_msg (68%N, i16be (zlen row) ++ concat (map cell_enc row)) = Some (DataRow row).
Proof.
  intros Hn Hc. pose proof (zlen_nonneg row).
  destruct (rd_i16_i16be (zlen row) ltac:(lia)) as (a & b & E & R).
  unfold rd_msg. change (68 =? 84)%N with false. change (68 =? 68)%N with true. cbv iota.
  rewrite E. cbn [app]. rewrite R.
  destruct (Z.leb_spec 0 (zlen row)); [|lia]. unfold zlen at 1. rewrite Nat2Z.id.
  rewrite rd_cells_enc; [reflexivity|].
  apply Forall_forall. intros [bb|] Hin; [|exact I].
  pose proof (cell_le _ _ Hin) as Hle. change (cell_enc (Some bb)) with (i32be (zlen bb) ++ bb) in Hle. rewrite zlen_app in Hle.
  pose proof (zlen_nonneg (i32be (zlen bb))). lia.
Qed.

Lemma rd_msg_cc : rd_msg (67%N, s_select ++ [0%N]) = Some (CommandComplete s_select).
Proof. reflexivity. Qed.

Lemma rd_msg_rfq : rd_msg (90%N, [73%N]) = Some (ReadyForQuery 73%N).
Proof. reflexivity. Qed.

Lemma rfq_is_frame : rfq_idle = frame 90%N [73%N].
Proof. reflexivity. Qed.

(** the frames of one matched rule *)
Definition rule_frames (cols : list (bytes * bytes)) (rows : list (list (option bytes))) : list (byte * bytes) :=
  (84%N, i16be (zlen cols) ++ concat (map col_desc cols))
  :: map (fun row => (68%N, i16be (zlen row) ++ concat (map cell_enc row))) rows
  ++ [(67%N, s_select ++ [0%N])].

Lemma enc_app a b : enc (a ++ b) = enc a ++ enc b.
Proof. unfold enc. rewrite map_app, concat_app. reflexivity. Qed.

Lemma enc_rows rows : enc (map (fun row => (68%N, i16be (zlen row) ++ concat (map cell_enc row))) rows)
                      = concat (map data_row_nullable rows).
Proof. induction rows as [|r rows IH]; [reflexivity|]. unfold enc in *. cbn [map concat]. rewrite IH. reflexivity. Qed.

Lemma rule_reply_frames user db r :
  rule_reply user db r = enc (rule_frames (map schema_col (r_schema r)) (rule_rows user db r)).
Proof.
  unfold rule_reply, rule_frames.
  change (?x :: ?l ++ ?t) with ([x] ++ l ++ t). rewrite !enc_app, enc_rows.
  unfold enc. cbn [map concat fst snd]. rewrite !app_nil_r. reflexivity.
Qed.

Definition expected_of (user db : bytes) (r : rule) : list bmsg := expected_rule user db r.

Lemma rule_frames_ok user db r : wf_rule user db r ->
  exists fs, rule_reply user db r = enc fs /\ Forall fits fs /\
             map_opt rd_msg fs = Some (expected_of user db r).
Proof.
  intros [(Hn & Hnul & Hsz) Hrows]. set (cols := map schema_col (r_schema r)) in *.
  exists (rule_frames cols (rule_rows user db r)). split; [apply rule_reply_frames|].
  unfold expected_of, expected_rule. fold cols. unfold rule_frames.
  set (rows := rule_rows user db r) in *.
  split.
  - constructor.
    + unfold fits. cbn [snd]. rewrite zlen_app. change (zlen (i16be (zlen cols))) with 2. lia.
    + apply Forall_app. split.
      * apply Forall_forall. intros f Hin. apply in_map_iff in Hin. destruct Hin as (row & <- & Hin).
        rewrite Forall_forall in Hrows. destruct (Hrows row Hin) as [_ Hs].
        unfold fits. cbn [snd]. rewrite zlen_app. change (zlen (i16be (zlen row))) with 2. lia.
      * constructor; [|constructor]. unfold fits. vm_compute. reflexivity.
  - change (?x :: ?l ++ ?t) with ([x] ++ l ++ t).
    change (RowDescription ?c :: ?l ++ ?t) with ([RowDescription c] ++ l ++ t).
    apply map_opt_app; [|apply map_opt_app].
    + cbn [map_opt]. rewrite rd_msg_rowdesc by assumption. reflexivity.
    + clear - Hrows. induction Hrows as [|row rows' [H1 H2] _ IH]; [reflexivity|].
      cbn [map map_opt]. rewrite rd_msg_datarow by assumption. rewrite IH. reflexivity.
    + cbn [map_opt]. rewrite rd_msg_cc. reflexivity.
Qed.

Definition matched_rules (rules : list rule) (stmts : list bytes) : list rule :=
  flat_map (fun q => filter (rule_matches q) rules) stmts.

Lemma intercept_body_matched user db rules stmts :
  intercept_body user db rules stmts = concat (map (rule_reply user db) (matched_rules rules stmts)).
Proof.
  unfold intercept_body, matched_rules. f_equal.
  induction stmts as [|q r IH]; [reflexivity|]. cbn [flat_map]. rewrite map_app, IH. reflexivity.
Qed.

Lemma body_frames user db ms : Forall (wf_rule user db) ms ->
  exists fs, concat (map (rule_reply user db) ms) = enc fs /\ Forall fits fs /\
             map_opt rd_msg fs = Some (flat_map (expected_of user db) ms).
Proof.
  induction 1 as [|r ms Hr Hms IH].
  - exists []. repeat split; constructor.
  - destruct IH as (fs & E & Hf & Hm). destruct (rule_frames_ok user db r Hr) as (f1 & E1 & Hf1 & Hm1).
    exists (f1 ++ fs). cbn [map concat flat_map]. rewrite E1, E. rewrite enc_app.
    split; [reflexivity|]. split; [apply Forall_app; split; assumption|]. apply map_opt_app; assumption.
Qed.

Lemma intercept_exact enabled user db rules stmts reply :
  intercept_run enabled user db rules stmts = IReply reply ->
  Forall (wf_rule user db) (matched_rules rules stmts) ->
  matched_rules rules stmts <> [] /\
  read_reply reply = Some (flat_map (expected_of user db) (matched_rules rules stmts) ++ [ReadyForQuery 73%N]).
Proof.
  intros H Hwf. unfold intercept_run in H. destruct (negb enabled); [discriminate|].
  destruct stmts as [|q0 st]; [discriminate|].
  rewrite intercept_body_matched in H.
  destruct (body_frames user db _ Hwf) as (fs & E & Hf & Hm). rewrite E in H.
  assert (Hrep: reply = enc fs ++ rfq_idle /\ enc fs <> []).
  { destruct (enc fs) as [|x r]; [discriminate|]. injection H as <-. split; [reflexivity|discriminate]. }
  destruct Hrep as [-> Hne]. clear H.
  split.
  - intros Hnil. rewrite Hnil in E. cbn in E. apply Hne. symmetry. exact E.
  - rewrite rfq_is_frame. change (frame 90%N [73%N]) with (enc [(90%N, [73%N])] ).
    + rewrite <- enc_app. apply read_reply_enc.
      * apply Forall_app. split; [exact Hf|]. constructor; [|constructor]. unfold fits. vm_compute. reflexivity.
      * apply map_opt_app; [exact Hm|]. reflexivity.
Qed.

(** no rule matches => the plugin does not intercept *)
Lemma intercept_none enabled user db rules stmts :
  matched_rules rules stmts = [] -> intercept_run enabled user db rules stmts = IAllow.
Proof.
  intros H. unfold intercept_run. destruct (negb enabled); [reflexivity|].
  destruct stmts; [reflexivity|]. rewrite intercept_body_matched, H. reflexivity.
Qed.

Close Scope Z_scope.

(* ------------------------------------------------------------------------- *)
(** * 3. enforcement                                                           *)

Definition pbuf (c : cfg) (m : msg) : verdict :=
  match m with MP _ _ _ p v => eff c p v | _ => Allow end.

(** what one step may do to the buffer / pending verdict, and where forwarded items
    come from *)
Definition ok_step (c : cfg) (s : state) (m : msg) (s' : state) (ev : list event) : Prop :=
  (forall it, In it (forwarded ev) ->
      (it = FMsg m /\ bad_msg c m = false)
      \/ (exists m', it = FMsg m' /\ In m' (bmsgs s) /\ is_allow (pout s) = true)
      \/ (exists m' p, it = FParse p /\ In (m', Some p) (ebuf s) /\ is_allow (pout s) = true)) /\
  ( (bmsgs s' = bmsgs s /\ pout s' = pout s)
    \/ (bmsgs s' = bmsgs s ++ [m] /\ (if is_allow (pout s) then pout s' = pbuf c m else pout s' = pout s))
    \/ (bmsgs s' = [] /\ pout s' = Allow)
    \/ (bmsgs s' = [] /\ pout s' = pout s /\ is_allow (pout s) = true) ).

Lemma is_allow_true v : is_allow v = true -> v = Allow.
Proof. destruct v; [reflexivity|discriminate|discriminate]. Qed.

Lemma bmsgs_push s b : bmsgs (push s b) = bmsgs s ++ [fst b].
Proof. unfold bmsgs, push. cbn [ebuf]. rewrite map_app. reflexivity. Qed.

Ltac pushed Ea :=
  right; left; rewrite bmsgs_push; cbn [fst push set_ps set_rej set_pout pout]; split; [reflexivity|];
  destruct (is_allow (pout _)) eqn:Ea; [try (apply is_allow_true; exact Ea)|try reflexivity].

Lemma buffer_msg_ok c s m s' ev : buffer_msg c s m = (s', ev) ->
  match m with MQ _ _ _ _ _ | MS _ _ _ | MH _ _ => False | _ => True end -> ok_step c s m s' ev.
Proof.
  intros H Hk. split.
  - destruct m; try destruct Hk; cbn [buffer_msg] in H;
      repeat match type of H with context [if ?b then _ else _] => destruct b end;
      repeat match type of H with context [match ?x with Some _ => _ | None => _ end] => destruct x end;
      injection H as <- <-; cbn; intros it [].
  - destruct m; try destruct Hk; cbn [buffer_msg] in H.
    + (* MP *)
      injection H as <- <-. right; left. rewrite bmsgs_push. cbn [fst]. unfold pbuf. cbn [bad_msg]. unfold eff.
      destruct parsed eqn:Epp; destruct (is_allow (pout s)) eqn:Ea; destruct (ps_on c);
        repeat match goal with |- context [if negb ?b then _ else _] => destruct (negb b) end;
        cbn; rewrite ?Ea; split; try reflexivity; try (apply is_allow_true; exact Ea).
    + destruct (ps_on c); [destruct (lookup name (ps s))|]; injection H as <- <-; try (pushed Ea).
      left. split; reflexivity.
    + destruct (ps_on c && is_stmt); [destruct (lookup name (ps s))|]; injection H as <- <-; try (pushed Ea).
      left. split; reflexivity.
    + injection H as <- <-. pushed Ea.
    + destruct (ps_on c && is_stmt && negb (Nat.eqb name 0)); injection H as <- <-; pushed Ea.
    + injection H as <- <-. left. split; reflexivity.
Qed.

Lemma forwarded_app a b : forwarded (a ++ b) = forwarded a ++ forwarded b.
Proof.
  induction a as [|e a IH]; [reflexivity|]. destruct e; cbn [app forwarded]; rewrite ?IH, <- ?app_assoc; reflexivity.
Qed.

Lemma drain_spec c buf : forall sv early acc early' acc' sv',
  drain c buf sv early acc = (early', acc', sv') ->
  (forall it, In it acc' -> In it acc \/ exists m, it = FMsg m /\ In m (map fst buf)) /\
  (forall it, In it (forwarded early') -> In it (forwarded early) \/ (exists m p, it = FParse p /\ In (m, Some p) buf)).
Proof.
  induction buf as [|[m meta] r IH]; intros sv early acc early' acc' sv' H.
  - cbn [drain] in H. injection H as <- <- <-. split; intros it Hi; left; exact Hi.
  - assert (Hgen: forall sv2 early2 acc2,
               drain c r sv2 early2 acc2 = (early', acc', sv') ->
               (forall it, In it acc2 -> In it acc \/ it = FMsg m) ->
               (forall it, In it (forwarded early2) -> In it (forwarded early) \/ (exists p, it = FParse p /\ meta = Some p)) ->
               (forall it, In it acc' -> In it acc \/ exists m0, it = FMsg m0 /\ In m0 (map fst ((m, meta) :: r))) /\
               (forall it, In it (forwarded early') -> In it (forwarded early) \/ (exists m0 p, it = FParse p /\ In (m0, Some p) ((m, meta) :: r)))).
    { intros sv2 early2 acc2 D Ha He. destruct (IH _ _ _ _ _ _ D) as [A B]. split.
      - intros it Hi. destruct (A it Hi) as [Hi'|(m0 & -> & Hm0)].
        + destruct (Ha it Hi') as [?| ->]; [left; assumption|right; exists m; split; [reflexivity|left; reflexivity]].
        + right. exists m0. split; [reflexivity|right; exact Hm0].
      - intros it Hi. destruct (B it Hi) as [Hi'|(m0 & p & -> & Hp)].
        + destruct (He it Hi') as [?|(p & -> & ->)]; [left; assumption|]. right. exists m, p. split; [reflexivity|left; reflexivity].
        + right. exists m0, p. split; [reflexivity|right; exact Hp]. }
    assert (Hacc1: forall it, In it (acc ++ [FMsg m]) -> In it acc \/ it = FMsg m).
    { intros it Hi. apply in_app_or in Hi. destruct Hi as [?|[<-|[]]]; [left; assumption|right; reflexivity]. }
    assert (Hacc0: forall it, In it acc -> In it acc \/ it = FMsg m) by (intros; left; assumption).
    assert (He0: forall it, In it (forwarded early) -> In it (forwarded early) \/ (exists p, it = FParse p /\ meta = Some p))
      by (intros; left; assumption).
    assert (He1: forall p, meta = Some p -> forall it, In it (forwarded (early ++ [EvFwd [FParse p]])) ->
                 In it (forwarded early) \/ (exists p0, it = FParse p0 /\ meta = Some p0)).
    { intros p Hm it Hi. rewrite forwarded_app in Hi. apply in_app_or in Hi. destruct Hi as [?|Hi]; [left; assumption|].
      cbn in Hi. destruct Hi as [<-|[]]. right. exists p. split; [reflexivity|exact Hm]. }
    cbn [drain] in H. destruct m.
    + eapply Hgen; eauto.
    + destruct (ps_on c); [destruct (has key sv)|]; eapply Hgen; eauto.
    + destruct meta as [p|]; [destruct (has (key_of p) sv)|]; eapply Hgen; eauto.
    + destruct meta as [p|]; [destruct (has (key_of p) sv)|]; eapply Hgen; eauto.
    + eapply Hgen; eauto.
    + destruct (ps_on c && is_stmt && negb (Nat.eqb name 0)); eapply Hgen; eauto.
    + eapply Hgen; eauto.
    + eapply Hgen; eauto.
    + eapply Hgen; eauto.
Qed.

Lemma after_server_bufs c s tx s' ev : after_server c s tx = (s', ev) ->
  ebuf s' = ebuf s /\ pout s' = pout s /\ ps s' = ps s /\ rej s' = rej s /\ forwarded ev = [].
Proof.
  unfold after_server. destruct (negb tx && txn_mode c); intros H; injection H as <- <-; repeat split.
Qed.

Lemma step_inner_ok c s m s' ev : step_inner c s m = (s', ev) -> ok_step c s m s' ev.
Proof.
  intros H. destruct m; try (apply buffer_msg_ok; [exact H|exact I]).
  - (* MQ *) cbn [step_inner] in H. destruct (eff c parsed v) eqn:Ee.
    + destruct (after_server c s tx_after) as [s2 e2] eqn:Ea. injection H as <- <-.
      destruct (after_server_bufs _ _ _ _ _ Ea) as (E1 & E2 & _ & _ & E3). split.
      * cbn [forwarded]. rewrite E3. intros it [<-|[]]. left. split; [reflexivity|]. cbn. rewrite Ee. reflexivity.
      * left. unfold bmsgs. rewrite E1. split; [reflexivity|assumption].
    + injection H as <- <-. split; [intros it []|left; split; reflexivity].
    + injection H as <- <-. split; [intros it []|left; split; reflexivity].
  - (* MS *) cbn [step_inner] in H. destruct (pout s) eqn:Ep.
    + destruct (drain c (ebuf s) (srv s) [] []) as [[early acc] sv] eqn:D.
      destruct (drain_spec _ _ _ _ _ _ _ _ D) as [A B].
      assert (Hearly: forall it, In it (forwarded early) -> exists m' p, it = FParse p /\ In (m', Some p) (ebuf s)).
      { intros it Hi. destruct (B it Hi) as [[]|Hp]. exact Hp. }
      assert (Hacc: forall it, In it acc -> exists m', it = FMsg m' /\ In m' (bmsgs s)).
      { intros it Hi. destruct (A it Hi) as [[]|Hp]. exact Hp. }
      assert (Hfin: forall s2 e2 txx, after_server c (drained s sv) txx = (s2, e2) ->
                 bmsgs s2 = [] /\ pout s2 = pout s /\ is_allow (pout s) = true).
      { intros s2 e2 txx Ea. destruct (after_server_bufs _ _ _ _ _ Ea) as (E1 & E2 & _). unfold bmsgs. rewrite E1, E2.
        cbn. rewrite Ep. repeat split. }
      destruct acc as [|a0 acc0].
      * destruct (after_server c _ _) as [s2 e2] eqn:Ea. injection H as <- <-.
        destruct (after_server_bufs _ _ _ _ _ Ea) as (_ & _ & _ & _ & E3). split.
        -- intros it Hi. rewrite forwarded_app, E3, app_nil_r in Hi. right; right.
           destruct (Hearly it Hi) as (m' & p & -> & Hp). exists m', p. repeat split; [exact Hp|rewrite Ep; reflexivity].
        -- right; right; right. exact (Hfin _ _ _ Ea).
      * destruct (after_server c _ _) as [s2 e2] eqn:Ea. injection H as <- <-.
        destruct (after_server_bufs _ _ _ _ _ Ea) as (_ & _ & _ & _ & E3). split.
        -- intros it Hi. rewrite forwarded_app in Hi. apply in_app_or in Hi. destruct Hi as [Hi|Hi].
           ++ right; right. destruct (Hearly it Hi) as (m' & p & -> & Hp). exists m', p. repeat split; [exact Hp|rewrite Ep; reflexivity].
           ++ cbn [forwarded] in Hi. rewrite E3, app_nil_r in Hi. rewrite app_comm_cons in Hi.
              apply in_app_or in Hi. destruct Hi as [Hi|[<-|[]]].
              ** right; left. destruct (Hacc it Hi) as (m' & -> & Hm'). exists m'. repeat split; [exact Hm'|rewrite Ep; reflexivity].
              ** left. split; reflexivity.
        -- right; right; right. exact (Hfin _ _ _ Ea).
    + injection H as <- <-. split; [intros it []|]. right; right; left. split; reflexivity.
    + injection H as <- <-. split; [intros it []|]. right; right; left. split; reflexivity.
  - (* MH *) cbn [step_inner] in H. injection H as <- <-. split; [intros it []|left; split; reflexivity].
  - (* MCmd *) cbn [step_inner] in H. destruct (after_server c s tx_after) as [s2 e2] eqn:Ea. injection H as <- <-.
    destruct (after_server_bufs _ _ _ _ _ Ea) as (E1 & E2 & _ & _ & E3). split.
    + cbn [forwarded]. rewrite E3. intros it [<-|[]]. left. split; reflexivity.
    + left. unfold bmsgs. rewrite E1. split; [reflexivity|assumption].
Qed.

Lemma outer_checkout_ok c s m s' ev : outer_checkout c s m = (s', ev) ->
  (is_sync m = true -> is_allow (pout s) = true) -> ok_step c s m s' ev.
Proof.
  unfold outer_checkout. intros H Hs.
  destruct (pool_ok_of m && role_ok s) eqn:Eo.
  - destruct (step_inner c (set_held s true false) m) as [s2 e2] eqn:Es. injection H as <- <-.
    apply step_inner_ok in Es. exact Es.
  - injection H as <- <-. split; [intros it []|]. destruct (is_sync m) eqn:Ey.
    + right; right; right. cbn. repeat split. apply Hs. reflexivity.
    + left. split; reflexivity.
Qed.

Lemma outer_rest_ok c s m s' ev : outer_rest c s m = (s', ev) -> ok_step c s m s' ev.
Proof.
  unfold outer_rest. intros H. destruct (pout s) eqn:Ep.
  - apply outer_checkout_ok; [exact H|]. intros _. rewrite Ep. reflexivity.
  - injection H as <- <-. split; [intros it []|]. right; right; left. split; reflexivity.
  - destruct (is_sync m) eqn:Ey.
    + injection H as <- <-. split; [intros it []|]. right; right; left. split; reflexivity.
    + apply outer_checkout_ok; [exact H|]. intros Hc. congruence.
Qed.

Lemma step_ok c s m s' ev : step_core c s m = (s', ev) -> ok_step c s m s' ev.
Proof.
  unfold step_core. destruct (dead s).
  - intros H. injection H as <- <-. split; [intros it []|left; split; reflexivity].
  - destruct (held s); [apply step_inner_ok|].
    unfold step_outer. destruct m; try (intros H; apply buffer_msg_ok; [exact H|exact I]);
      try apply outer_rest_ok.
    + destruct (eff c parsed v) eqn:Ee; [apply outer_rest_ok| |];
        intros H; injection H as <- <-; (split; [intros it []|left; split; reflexivity]).
    + (* MCmd: answered by pgcat, the batch and the pending verdict stay *)
      intros H. injection H as <- <-. split; [intros it []|]. left. destruct cmd; split; reflexivity.
Qed.

(** Invariant.  A rejected Parse sitting in the buffer keeps a non-Allow verdict pending;
    so does a Bind/Describe that resolved to a rejected Parse; a rejected Parse in the
    client's map has its name on the rejected list; and the list is non-empty only while a
    verdict is pending. *)
Definition Inv (c : cfg) (s : state) : Prop :=
  (forall m o, In (m, o) (ebuf s) -> bad_msg c m = true -> is_allow (pout s) = false) /\
  (forall m p, In (m, Some p) (ebuf s) -> bad_msg c p = true -> is_allow (pout s) = false) /\
  (forall n p, In (n, p) (ps s) -> bad_msg c p = true -> In n (rej s)) /\
  (rej s <> [] -> is_allow (pout s) = false).

Lemma Inv_init c : Inv c init.
Proof. repeat split; cbn; intros; try contradiction. Qed.

Lemma Inv_same c s s' : ebuf s' = ebuf s -> pout s' = pout s -> ps s' = ps s -> rej s' = rej s -> Inv c s -> Inv c s'.
Proof. unfold Inv. intros -> -> -> ->. exact (fun H => H). Qed.

Lemma has_In k l : has k l = true <-> In k l.
Proof.
  unfold has. rewrite existsb_exists. split.
  - intros (x & Hx & E). apply Nat.eqb_eq in E. subst. exact Hx.
  - intros H. exists k. split; [exact H|apply Nat.eqb_refl].
Qed.

Lemma Inv_reset c s : Inv c s -> Inv c (reset s).
Proof.
  intros (_ & _ & I3 & _). unfold Inv, reset. cbn [ebuf pout ps rej]. repeat split; try (intros; contradiction).
  intros n p Hin Hb. unfold forget in Hin. apply filter_In in Hin. destruct Hin as [Hin Hf]. cbn [fst] in Hf.
  apply negb_true_iff in Hf. pose proof (I3 n p Hin Hb) as Hr. apply has_In in Hr. congruence.
Qed.

Lemma Inv_consume c s : Inv c s -> Inv c (consume s).
Proof.
  intros I0. apply Inv_reset in I0. destruct I0 as (I1 & I2 & I3 & I4).
  unfold consume, Inv. cbn [set_pout ebuf pout ps rej reset] in *. repeat split; try (intros; contradiction). exact I3.
Qed.

Lemma Inv_drained c s sv : Inv c s -> Inv c (drained s sv).
Proof.
  intros (_ & _ & I3 & I4). unfold Inv, drained. cbn [ebuf pout ps rej]. repeat split; try (intros; contradiction); assumption.
Qed.

Lemma lookup_In n l p : lookup n l = Some p -> In (n, p) l.
Proof.
  induction l as [|[k m] r IH]; [discriminate|]. cbn [lookup]. destruct (Nat.eqb_spec k n) as [->|Hne].
  - intros H. injection H as ->. left. reflexivity.
  - intros H. right. apply IH. exact H.
Qed.

Lemma Inv_push_plain c s m : Inv c s -> bad_msg c m = false -> Inv c (push s (m, None)).
Proof.
  intros (I1 & I2 & I3 & I4) Hb. unfold Inv, push. cbn [ebuf pout ps rej]. repeat split; try assumption.
  - intros x o Hin Hx. apply in_app_or in Hin. destruct Hin as [Hin|[E|[]]]; [eapply I1; eassumption|].
    injection E as <- <-. congruence.
  - intros x p Hin Hx. apply in_app_or in Hin. destruct Hin as [Hin|[E|[]]]; [eapply I2; eassumption|discriminate].
Qed.

Lemma Inv_push_resolved c s m p n : Inv c s -> bad_msg c m = false -> In (n, p) (ps s) -> Inv c (push s (m, Some p)).
Proof.
  intros (I1 & I2 & I3 & I4) Hb Hp. unfold Inv, push. cbn [ebuf pout ps rej]. repeat split; try assumption.
  - intros x o Hin Hx. apply in_app_or in Hin. destruct Hin as [Hin|[E|[]]]; [eapply I1; eassumption|].
    injection E as <- <-. congruence.
  - intros x q Hin Hx. apply in_app_or in Hin. destruct Hin as [Hin|[E|[]]]; [eapply I2; eassumption|].
    injection E as <- <-. apply I4. pose proof (I3 n p Hp Hx) as Hr. intros E. rewrite E in Hr. destruct Hr.
Qed.

Lemma Inv_buffer c s m s' ev : Inv c s -> buffer_msg c s m = (s', ev) -> Inv c s'.
Proof.
  intros I0 H. destruct m; cbn [buffer_msg] in H; try (injection H as <- <-; exact I0).
  - (* MP *) injection H as <- <-. destruct I0 as (I1 & I2 & I3 & I4).
    set (m := MP id name key parsed v).
    assert (Hbad: bad_msg c m = negb (is_allow (eff c parsed v))) by reflexivity.
    (* the verdict after this Parse *)
    set (s1 := if parsed then if is_allow (pout s) then set_pout s (plug c v) else s else s).
    assert (E1: ebuf s1 = ebuf s /\ ps s1 = ps s /\ rej s1 = rej s).
    { subst s1. destruct parsed; [destruct (is_allow (pout s))|]; repeat split. }
    destruct E1 as (Eb & Ep & Er).
    assert (Hp1: is_allow (pout s) = false -> pout s1 = pout s).
    { intros Ha. subst s1. destruct parsed; [rewrite Ha|]; reflexivity. }
    assert (Hp2: is_allow (pout s) = true -> pout s1 = eff c parsed v).
    { intros Ha. subst s1. unfold eff. destruct parsed; [rewrite Ha; reflexivity|].
      apply is_allow_true. exact Ha. }
    assert (Hkeep: is_allow (pout s) = false -> is_allow (pout s1) = false) by (intros Ha; rewrite Hp1; assumption).
    assert (Hnew: bad_msg c m = true -> is_allow (pout s1) = false).
    { intros Hb. destruct (is_allow (pout s)) eqn:Ea; [|apply Hkeep; reflexivity].
      rewrite Hp2 by reflexivity. rewrite Hbad in Hb. apply negb_true_iff in Hb. exact Hb. }
    change (negb (is_allow (eff c parsed v))) with (bad_msg c m) in *.
    match goal with |- Inv c ?x => set (s' := x) end.
    assert (F1: ebuf s' = ebuf s ++ [(m, None)]).
    { subst s'. destruct (ps_on c); [destruct (bad_msg c m)|]; cbn; rewrite Eb; reflexivity. }
    assert (F2: pout s' = pout s1).
    { subst s'. destruct (ps_on c); [destruct (bad_msg c m)|]; reflexivity. }
    assert (F3: ps s' = if ps_on c then (name, m) :: ps s else ps s).
    { subst s'. destruct (ps_on c); [destruct (bad_msg c m)|]; cbn; rewrite Ep; reflexivity. }
    assert (F4: rej s' = if ps_on c then (if bad_msg c m then name :: rej s else rej s) else rej s).
    { subst s'. destruct (ps_on c); [destruct (bad_msg c m)|]; cbn; rewrite Er; reflexivity. }
    unfold Inv. rewrite F1, F2, F3, F4. clearbody s' s1. repeat split.
    + intros x o Hin Hx. apply in_app_or in Hin. destruct Hin as [Hin|[E|[]]].
      * apply Hkeep. eapply I1; eassumption.
      * injection E as <- <-. apply Hnew. exact Hx.
    + intros x p Hin Hx. apply in_app_or in Hin. destruct Hin as [Hin|[E|[]]]; [|discriminate].
      apply Hkeep. eapply I2; eassumption.
    + intros n p Hin Hx. destruct (ps_on c); [|eapply I3; eassumption].
      destruct Hin as [E|Hin].
      * injection E as <- <-. rewrite Hx. left. reflexivity.
      * destruct (bad_msg c m); [right|]; eapply I3; eassumption.
    + intros Hr. destruct (ps_on c); [|apply Hkeep; apply I4; exact Hr].
      destruct (bad_msg c m) eqn:Eb2; [apply Hnew; reflexivity|apply Hkeep; apply I4; exact Hr].
  - (* MB *) destruct (ps_on c).
    + destruct (lookup name (ps s)) as [p|] eqn:El; injection H as <- <-.
      * eapply Inv_push_resolved; [exact I0|reflexivity|apply lookup_In; exact El].
      * eapply Inv_same; [..|exact I0]; reflexivity.
    + injection H as <- <-. apply Inv_push_plain; [exact I0|reflexivity].
  - (* MD *) destruct (ps_on c && is_stmt).
    + destruct (lookup name (ps s)) as [p|] eqn:El; injection H as <- <-.
      * eapply Inv_push_resolved; [exact I0|reflexivity|apply lookup_In; exact El].
      * eapply Inv_same; [..|exact I0]; reflexivity.
    + injection H as <- <-. apply Inv_push_plain; [exact I0|reflexivity].
  - (* ME *) injection H as <- <-. apply Inv_push_plain; [exact I0|reflexivity].
  - (* MC *) destruct (ps_on c && is_stmt && negb (Nat.eqb name 0)); injection H as <- <-.
    + apply Inv_push_plain; [|reflexivity]. destruct I0 as (I1 & I2 & I3 & I4).
      unfold Inv, set_ps. cbn [ebuf pout ps rej]. repeat split; try assumption.
      intros n p Hin Hx. unfold remove_name in Hin. apply filter_In in Hin. destruct Hin as [Hin _]. eapply I3; eassumption.
    + apply Inv_push_plain; [exact I0|reflexivity].
Qed.

Lemma Inv_after c s tx s' ev : after_server c s tx = (s', ev) -> Inv c s -> Inv c s'.
Proof.
  intros Ea. destruct (after_server_bufs _ _ _ _ _ Ea) as (E1 & E2 & E3 & E4 & _). apply Inv_same; assumption.
Qed.

Lemma Inv_inner c s m s' ev : Inv c s -> step_inner c s m = (s', ev) -> Inv c s'.
Proof.
  intros I0 H. destruct m; try (eapply Inv_buffer; [exact I0|exact H]); cbn [step_inner] in H.
  - destruct (eff c parsed v); try (injection H as <- <-; exact I0).
    destruct (after_server c s tx_after) as [s2 e2] eqn:Ea. injection H as <- <-. eapply Inv_after; eassumption.
  - destruct (pout s); try (injection H as <- <-; apply Inv_consume; exact I0).
    destruct (drain c (ebuf s) (srv s) [] []) as [[early acc] sv].
    destruct acc; destruct (after_server c _ _) as [s2 e2] eqn:Ea; injection H as <- <-;
      (eapply Inv_after; [exact Ea|apply Inv_drained; exact I0]).
  - injection H as <- <-. exact I0.
  - destruct (after_server c s tx_after) as [s2 e2] eqn:Ea. injection H as <- <-. eapply Inv_after; eassumption.
Qed.

Lemma Inv_held c s h tx : Inv c s -> Inv c (set_held s h tx).
Proof. apply Inv_same; reflexivity. Qed.

Lemma Inv_step c s m s' ev : Inv c s -> step_core c s m = (s', ev) -> Inv c s'.
Proof.
  intros I0 H. unfold step_core in H. destruct (dead s); [injection H as <- <-; exact I0|].
  destruct (held s); [eapply Inv_inner; eassumption|].
  assert (Hco: forall s2 e2, outer_checkout c s m = (s2, e2) -> Inv c s2).
  { intros s2 e2 Hc. unfold outer_checkout in Hc. destruct (pool_ok_of m && role_ok s).
    - destruct (step_inner c (set_held s true false) m) as [s3 e3] eqn:Es. injection Hc as <- <-.
      eapply Inv_inner; [apply Inv_held; exact I0|exact Es].
    - injection Hc as <- <-. destruct (is_sync m); [apply Inv_reset|]; exact I0. }
  assert (Hor: forall s2 e2, outer_rest c s m = (s2, e2) -> Inv c s2).
  { intros s2 e2 Hr. unfold outer_rest in Hr. destruct (pout s).
    - eapply Hco; exact Hr.
    - injection Hr as <- <-. apply Inv_consume. exact I0.
    - destruct (is_sync m); [injection Hr as <- <-; apply Inv_consume; exact I0|eapply Hco; exact Hr]. }
  destruct m; cbn [step_outer] in H; try (eapply Hor; exact H); try (eapply Inv_buffer; [exact I0|exact H]).
  - destruct (eff c parsed v); try (injection H as <- <-; exact I0). eapply Hor; exact H.
  - injection H as <- <-. destruct cmd; (eapply Inv_same; [..|exact I0]; reflexivity).
Qed.

Lemma in_bmsgs s m : In m (bmsgs s) -> exists o, In (m, o) (ebuf s).
Proof.
  unfold bmsgs. intros H. apply in_map_iff in H. destruct H as ([x o] & E & Hin). cbn in E. subst. exists o. exact Hin.
Qed.

Lemma arrive_id P c s m : msg_id (arrive_with P c s m) = msg_id m.
Proof. destruct m; reflexivity. Qed.

(** MAIN: whatever the client sends (custom commands included), whatever gate [P] decides
    which messages get parsed, from any state satisfying the invariant: a message that was
    parsed on arrival and rejected by the plugins is never written to a server - neither
    the client's own message nor a Parse that pgcat re-sends from the prepared-statement
    map.  (In the trace a Q/P carries [parsed] = "pgcat parsed it", see [arrive_with].) *)
Lemma enforced_from P c ops : forall s, Inv c s ->
  forall it, In it (forwarded (snd (run_with P c s ops))) -> bad_item c it = false.
Proof.
  induction ops as [|m r IH]; intros s I0 it Hi; [destruct Hi|].
  cbn [run_with] in Hi. destruct (step_with P c s m) as [s1 e1] eqn:Es. destruct (run_with P c s1 r) as [s2 e2] eqn:Er.
  unfold step_with in Es.
  cbn [snd] in Hi. rewrite forwarded_app in Hi. apply in_app_or in Hi.
  destruct Hi as [Hi|Hi].
  - destruct (step_ok _ _ _ _ _ Es) as [Hf _]. destruct I0 as (I1 & I2 & _ & _).
    destruct (Hf it Hi) as [[-> Hb]|[(m' & -> & Hm' & Ha)|(m' & p & -> & Hp & Ha)]]; cbn [bad_item].
    + exact Hb.
    + destruct (bad_msg c m') eqn:Eb; [|reflexivity]. destruct (in_bmsgs _ _ Hm') as (o & Ho).
      rewrite (I1 m' o Ho Eb) in Ha. discriminate.
    + destruct (bad_msg c p) eqn:Eb; [|reflexivity]. rewrite (I2 m' p Hp Eb) in Ha. discriminate.
  - apply (IH s1); [|rewrite Er; exact Hi]. eapply Inv_step; eassumption.
Qed.

Lemma enforced c ops it : In it (forwarded (trace c ops)) -> bad_item c it = false.
Proof. apply enforced_from. apply Inv_init. Qed.

(** With the pool's parser on and plugins configured every message is parsed, whatever the
    session's override says (SET SERVER ROLE cannot switch the plugins off) ... *)
Lemma parses_pool c s : parser_on c = true -> plugins_on c = true -> parses c s = true.
Proof. intros H1 H2. unfold parses. rewrite H1, H2. apply orb_true_r. Qed.

Lemma arrive_pool c s m : parser_on c = true -> plugins_on c = true -> arrive_with parses c s m = m.
Proof.
  intros H1 H2. destruct m; cbn [arrive_with]; try reflexivity; rewrite parses_pool by assumption; rewrite andb_true_r; reflexivity.
Qed.

(** ... and with the pool's parser off, SET SERVER ROLE TO 'auto' turns the session's parser
    on: messages are parsed - and the (inherited) plugins run - from then on. *)
Lemma arrive_auto c s m : ov s = Some true -> arrive_with parses c s m = m.
Proof.
  intros H. assert (E: parses c s = true) by (unfold parses, qpe; rewrite H; reflexivity).
  destruct m; cbn [arrive_with]; try reflexivity; rewrite E, andb_true_r; reflexivity.
Qed.

(** A batch whose verdict is pending as Deny/Intercept is dropped as a whole: none of the
    messages buffered so far is ever forwarded, whatever follows (message ids of the
    continuation being fresh). *)
Definition ids (l : list msg) : list nat := map msg_id l.

Lemma batch_dropped_gen P c ops : forall s (I : list nat),
  (is_allow (pout s) = false \/ (forall m, In m (bmsgs s) -> ~ In (msg_id m) I)) ->
  (forall m, In m ops -> ~ In (msg_id m) I) ->
  forall m, In (FMsg m) (forwarded (snd (run_with P c s ops))) -> ~ In (msg_id m) I.
Proof.
  induction ops as [|x r IH]; intros s I H0 Hfresh m Hi; [destruct Hi|].
  cbn [run_with] in Hi. destruct (step_with P c s x) as [s1 e1] eqn:Es. destruct (run_with P c s1 r) as [s2 e2] eqn:Er.
  unfold step_with in Es. set (x' := arrive_with P c s x) in *.
  assert (Hx: ~ In (msg_id x') I) by (subst x'; rewrite arrive_id; apply Hfresh; left; reflexivity).
  cbn [snd] in Hi. rewrite forwarded_app in Hi. apply in_app_or in Hi.
  destruct (step_ok _ _ _ _ _ Es) as [Hf Hb].
  destruct Hi as [Hi|Hi].
  - destruct (Hf _ Hi) as [[E _]|[(m' & E & Hm' & Ha)|(m' & p & E & _)]].
    + injection E as ->. exact Hx.
    + injection E as ->. destruct H0 as [H0|H0]; [rewrite H0 in Ha; discriminate|]. apply H0. exact Hm'.
    + discriminate.
  - apply (IH s1 I); [| |rewrite Er; exact Hi].
    + destruct Hb as [[E1 E2]|[[E1 E2]|[[E1 E2]|[E1 _]]]].
      * rewrite E1, E2. exact H0.
      * destruct H0 as [H0|H0].
        -- left. rewrite H0 in E2. rewrite E2. exact H0.
        -- right. rewrite E1. intros y Hy. apply in_app_or in Hy. destruct Hy as [Hy|[<-|[]]]; [apply H0; exact Hy|exact Hx].
      * right. rewrite E1. intros y [].
      * right. rewrite E1. intros y [].
    + intros y Hy. apply Hfresh. right. exact Hy.
Qed.

Lemma batch_dropped c s ops m :
  is_allow (pout s) = false ->
  (forall x, In x ops -> ~ In (msg_id x) (ids (bmsgs s))) ->
  In (FMsg m) (forwarded (snd (run c s ops))) -> ~ In (msg_id m) (ids (bmsgs s)).
Proof. intros Hp Hf. apply batch_dropped_gen; [left; exact Hp|exact Hf]. Qed.

(** A Q that is parsed and rejected is answered at once, whatever the state, and changes
    nothing. *)
Lemma q_answered c s id parsed v po tx :
  dead s = false -> eff c (parsed && parses c s) v <> Allow ->
  step c s (MQ id parsed v po tx) =
    (s, [match eff c (parsed && parses c s) v with Deny t => EvErr (EPlugin t) | Intercept t => EvIntercept t | Allow => EvEnd end]).
Proof.
  intros Hd He. unfold step, step_with, step_core. cbn [arrive_with]. rewrite Hd. destruct (held s); cbn [step_inner step_outer];
    destruct (eff c (parsed && parses c s) v); try reflexivity; contradiction.
Qed.

(** A pending Deny / Intercept is answered by the next Sync, in either loop, without a
    checkout, and the batch is gone - together with the names its rejected Parses gave. *)
Lemma sync_answers_deny c s id po tx t :
  dead s = false -> pout s = Deny t ->
  step c s (MS id po tx) = (consume s, [EvErr (EPlugin t)]).
Proof.
  intros Hd Hp. unfold step, step_with, step_core. cbn [arrive_with]. rewrite Hd. destruct (held s); cbn [step_inner step_outer]; unfold outer_rest; rewrite Hp; reflexivity.
Qed.

Lemma sync_answers_intercept c s id po tx t :
  dead s = false -> pout s = Intercept t ->
  step c s (MS id po tx) = (consume s, [EvIntercept t]).
Proof.
  intros Hd Hp. unfold step, step_with, step_core. cbn [arrive_with]. rewrite Hd. destruct (held s); cbn [step_inner step_outer]; unfold outer_rest; rewrite Hp; reflexivity.
Qed.

(** After the batch is dropped no rejected Parse is left in the client's map: a later Bind or
    Describe of such a name is answered "does not exist". *)
Lemma consumed_map_clean c s : Inv c s -> forall n p, In (n, p) (ps (consume s)) -> bad_msg c p = false.
Proof.
  intros I0 n p Hin. apply Inv_consume in I0. destruct I0 as (_ & _ & I3 & _).
  destruct (bad_msg c p) eqn:Eb; [|reflexivity]. destruct (I3 n p Hin Eb).
Qed.

Lemma Inv_run P c ops : forall s, Inv c s -> Inv c (fst (run_with P c s ops)).
Proof.
  induction ops as [|m r IH]; intros s I0; [exact I0|].
  cbn [run_with]. destruct (step_with P c s m) as [s1 e1] eqn:Es. destruct (run_with P c s1 r) as [s2 e2] eqn:Er.
  cbn [fst]. change s2 with (fst (s2, e2)). rewrite <- Er. apply IH. unfold step_with in Es. eapply Inv_step; eassumption.
Qed.

Lemma names_forgotten c ops n p :
  In (n, p) (ps (consume (fst (run c init ops)))) -> bad_msg c p = false.
Proof. apply consumed_map_clean. apply Inv_run. apply Inv_init. Qed.

(** No stale verdict: a non-Allow verdict is pending only while the batch that earned it
    is still buffered (whatever happens to checkouts). *)
Definition fresh (s : state) : Prop := is_allow (pout s) = false -> ebuf s <> [].

Lemma bmsgs_nil s : bmsgs s = [] <-> ebuf s = [].
Proof. unfold bmsgs. destruct (ebuf s); cbn; split; intros H; try reflexivity; discriminate. Qed.

Lemma no_stale_from P c ops : forall s, fresh s -> fresh (fst (run_with P c s ops)).
Proof.
  induction ops as [|m r IH]; intros s F; [exact F|].
  cbn [run_with]. destruct (step_with P c s m) as [s1 e1] eqn:Es. destruct (run_with P c s1 r) as [s2 e2] eqn:Er.
  cbn [fst]. change s2 with (fst (s2, e2)). rewrite <- Er. apply IH. unfold step_with in Es.
  destruct (step_ok _ _ _ _ _ Es) as [_ Hb]. unfold fresh in *.
  destruct Hb as [[E1 E2]|[[E1 E2]|[[E1 E2]|(E1 & E2 & E3)]]].
  - rewrite E2. intros Ha Hn. apply (F Ha). apply bmsgs_nil. rewrite <- E1. apply bmsgs_nil. exact Hn.
  - intros _ Hn. apply bmsgs_nil in Hn. rewrite E1 in Hn. destruct (bmsgs s); discriminate.
  - rewrite E2. discriminate.
  - rewrite E2, E3. discriminate.
Qed.

Lemma no_stale c ops : fresh (fst (run c init ops)).
Proof. apply no_stale_from. intros H. discriminate. Qed.

(** Nothing is answered on a plugin's behalf while every arriving Q / P is harmless (not
    parsed, or allowed by the plugins). *)
Definition harmless (c : cfg) (m : msg) : Prop :=
  match m with MQ _ p v _ _ | MP _ _ _ p v => eff c p v = Allow | _ => True end.

Lemma no_plugin_app a b : forallb (fun e => negb (plugin_event e)) (a ++ b) =
                          forallb (fun e => negb (plugin_event e)) a && forallb (fun e => negb (plugin_event e)) b.
Proof. apply forallb_app. Qed.

Notation quiet ev := (forallb (fun e => negb (plugin_event e)) ev = true).

Lemma after_server_quiet c s tx s' ev : after_server c s tx = (s', ev) -> pout s' = pout s /\ sess s' = sess s /\ quiet ev.
Proof. unfold after_server. destruct (negb tx && txn_mode c); intros H; injection H as <- <-; repeat split. Qed.

Lemma drain_quiet c buf : forall sv early acc early' acc' sv',
  drain c buf sv early acc = (early', acc', sv') -> quiet early -> quiet early'.
Proof.
  induction buf as [|[m meta] r IH]; intros sv early acc early' acc' sv' H Q.
  - cbn [drain] in H. injection H as <- <- <-. exact Q.
  - assert (Q2: forall p, quiet (early ++ [EvFwd [FParse p]])) by (intros p; rewrite no_plugin_app, Q; reflexivity).
    cbn [drain] in H. destruct m; try destruct meta as [p|];
      repeat match type of H with
             | context [if ?b then _ else _] => destruct b
             end;
      (eapply IH; [exact H|]; first [exact Q|apply Q2]).
Qed.

Lemma quiet_inner c s m s' ev : harmless c m -> pout s = Allow -> step_inner c s m = (s', ev) ->
  pout s' = Allow /\ sess s' = sess s /\ quiet ev.
Proof.
  intros Hh Hp H. destruct m; cbn [step_inner buffer_msg] in H; cbn [harmless] in Hh.
  - rewrite Hh in H. destruct (after_server c s tx_after) as [s2 e2] eqn:Ea.
    injection H as <- <-. destruct (after_server_quiet _ _ _ _ _ Ea) as (E & E' & Q). repeat split; [congruence|exact E'|exact Q].
  - assert (Hs1: pout (if parsed then if is_allow (pout s) then set_pout s (plug c v) else s else s) = Allow /\
                 sess (if parsed then if is_allow (pout s) then set_pout s (plug c v) else s else s) = sess s).
    { unfold eff in Hh. destruct parsed; [|split; [exact Hp|reflexivity]]. rewrite Hp. cbn [is_allow set_pout pout sess]. split; [exact Hh|reflexivity]. }
    destruct Hs1 as [Hs1 Hs2]. injection H as <- <-. repeat split.
    + destruct (ps_on c); [destruct (negb (is_allow (eff c parsed v)))|]; exact Hs1.
    + destruct (ps_on c); [destruct (negb (is_allow (eff c parsed v)))|]; exact Hs2.
  - destruct (ps_on c); [destruct (lookup name (ps s))|]; injection H as <- <-; repeat split; exact Hp.
  - destruct (ps_on c && is_stmt); [destruct (lookup name (ps s))|]; injection H as <- <-; repeat split; exact Hp.
  - injection H as <- <-; repeat split; exact Hp.
  - destruct (ps_on c && is_stmt && negb (Nat.eqb name 0)); injection H as <- <-; repeat split; exact Hp.
  - rewrite Hp in H. destruct (drain c (ebuf s) (srv s) [] []) as [[early acc] sv] eqn:D.
    pose proof (drain_quiet _ _ _ _ _ _ _ _ D eq_refl) as Qe.
    destruct acc.
    + destruct (after_server c _ _) as [s2 e2] eqn:Ea. injection H as <- <-.
      destruct (after_server_quiet _ _ _ _ _ Ea) as (E & E' & Q). repeat split; [rewrite E; exact Hp|exact E'|]. rewrite no_plugin_app, Qe, Q. reflexivity.
    + destruct (after_server c _ _) as [s2 e2] eqn:Ea. injection H as <- <-.
      destruct (after_server_quiet _ _ _ _ _ Ea) as (E & E' & Q). repeat split; [rewrite E; exact Hp|exact E'|].
      rewrite no_plugin_app, Qe. cbn [forallb plugin_event negb andb]. exact Q.
  - injection H as <- <-; repeat split; exact Hp.
  - destruct (after_server c s tx_after) as [s2 e2] eqn:Ea.
    injection H as <- <-. destruct (after_server_quiet _ _ _ _ _ Ea) as (E & E' & Q). repeat split; [congruence|exact E'|exact Q].
Qed.

(** the session's override changes only by a custom command in the outer loop *)
Lemma quiet_core c s m s' ev : harmless c m -> pout s = Allow -> step_core c s m = (s', ev) ->
  pout s' = Allow /\ quiet ev /\
  (sess s' = sess s \/ exists i cmd po tx, m = MCmd i cmd po tx /\ s' = apply_cmd s cmd).
Proof.
  intros Hh Hp H. unfold step_core in H. destruct (dead s); [injection H as <- <-; repeat split; [exact Hp|left; reflexivity]|].
  destruct (held s).
  { destruct (quiet_inner _ _ _ _ _ Hh Hp H) as (A & B & C). repeat split; [exact A|exact C|left; exact B]. }
  assert (Ho: forall s2 e2, outer_rest c s m = (s2, e2) -> pout s2 = Allow /\ quiet e2 /\ sess s2 = sess s).
  { intros s2 e2 Hr. unfold outer_rest, outer_checkout in Hr. rewrite Hp in Hr. destruct (pool_ok_of m && role_ok s).
    - destruct (step_inner c (set_held s true false) m) as [s3 e3] eqn:Es. injection Hr as <- <-.
      destruct (quiet_inner c (set_held s true false) _ _ _ Hh Hp Es) as (E & E' & Q). repeat split; [exact E|exact Q|exact E'].
    - injection Hr as <- <-. repeat split; destruct (is_sync m); first [exact Hp|reflexivity]. }
  destruct m; cbn [step_outer] in H;
    try (destruct (Ho _ _ H) as (A & B & C); repeat split; [exact A|exact B|left; exact C]);
    try (match type of H with buffer_msg c s ?m0 = _ =>
           destruct (quiet_inner c s m0 s' ev Hh Hp H) as (A & B & C); repeat split; [exact A|exact C|left; exact B] end).
  - cbn [harmless] in Hh. rewrite Hh in H. destruct (Ho _ _ H) as (A & B & C). repeat split; [exact A|exact B|left; exact C].
  - injection H as <- <-. repeat split.
    + destruct cmd; exact Hp.
    + right. exists id, cmd, pool_ok, tx_after. split; reflexivity.
Qed.

(** Plugins not configured for the pool (no effective [plugins] section): no message is
    bad, nothing is ever answered by a plugin, and a Q goes to the server. *)
Definition disabled (c : cfg) : Prop := plugins_on c = false.

Lemma disabled_eff c p v : disabled c -> eff c p v = Allow.
Proof. unfold disabled, eff, plug. intros H. rewrite H. destruct p; reflexivity. Qed.

Lemma disabled_not_bad c m : disabled c -> bad_msg c m = false.
Proof. intros H. destruct m; cbn [bad_msg]; try reflexivity; rewrite disabled_eff by exact H; reflexivity. Qed.

Lemma disabled_harmless c m : disabled c -> harmless c m.
Proof. intros H. destruct m; cbn [harmless]; try exact I; apply disabled_eff; exact H. Qed.

Lemma disabled_quiet_from P c ops : disabled c -> forall s, pout s = Allow -> quiet (snd (run_with P c s ops)).
Proof.
  intros Hd. induction ops as [|m r IH]; intros s Hp; [reflexivity|].
  cbn [run_with]. destruct (step_with P c s m) as [s1 e1] eqn:Es. destruct (run_with P c s1 r) as [s2 e2] eqn:Er.
  unfold step_with in Es.
  destruct (quiet_core _ _ _ _ _ (disabled_harmless c _ Hd) Hp Es) as (E & Q & _). cbn [snd]. rewrite no_plugin_app, Q.
  specialize (IH s1 E). rewrite Er in IH. exact IH.
Qed.

Lemma disabled_noop c ops : disabled c ->
  quiet (trace c ops) /\ (forall m, bad_msg c m = false) /\
  (forall s id p v tx, dead s = false -> pout s = Allow -> role_ok s = true ->
     In (EvFwd [FMsg (MQ id (p && parses c s) v true tx)]) (snd (step c s (MQ id p v true tx)))).
Proof.
  intros Hd. split; [apply disabled_quiet_from; [exact Hd|reflexivity]|]. split; [intros m; apply disabled_not_bad; exact Hd|].
  intros s id p v tx Hdead Hp Hr. unfold step, step_with, step_core. cbn [arrive_with]. rewrite Hdead.
  destruct (held s) eqn:Eh; cbn [step_outer step_inner]; rewrite (disabled_eff c _ v Hd).
  - destruct (after_server c s tx). cbn. left. reflexivity.
  - unfold outer_rest, outer_checkout. rewrite Hp, Hr. cbn [pool_ok_of andb step_inner]. rewrite (disabled_eff c _ v Hd).
    destruct (after_server c (set_held s true false) tx). cbn. right. left. reflexivity.
Qed.

(** The pool's parser off and the session never switches its own parser on (no SET SERVER
    ROLE TO 'auto'): nothing is parsed, so nothing is ever answered by a plugin either. *)
Definition is_auto (m : msg) : bool := match m with MCmd _ (CRole RAuto _) _ _ => true | _ => false end.

Lemma parser_off_quiet_from c ops : parser_on c = false -> forallb (fun m => negb (is_auto m)) ops = true ->
  forall s, pout s = Allow -> ov s <> Some true -> quiet (snd (run c s ops)).
Proof.
  intros Hoff. induction ops as [|m r IH]; intros Hna s Hp Hov; [reflexivity|].
  cbn [forallb] in Hna. apply andb_true_iff in Hna. destruct Hna as [Hm Hr].
  unfold run. cbn [run_with]. destruct (step_with parses c s m) as [s1 e1] eqn:Es.
  destruct (run_with parses c s1 r) as [s2 e2] eqn:Er. unfold step_with in Es.
  assert (Hnp: parses c s = false).
  { unfold parses, qpe. rewrite Hoff. destruct (ov s) as [[|]|]; [congruence|reflexivity|reflexivity]. }
  assert (Hh: harmless c (arrive_with parses c s m)).
  { destruct m; cbn [arrive_with harmless]; try exact I; rewrite Hnp, andb_false_r; reflexivity. }
  destruct (quiet_core _ _ _ _ _ Hh Hp Es) as (E & Q & S1). cbn [snd]. rewrite no_plugin_app, Q.
  assert (Hov1: ov s1 <> Some true).
  { destruct S1 as [S1|(i & cmd & po & tx & Em & ->)]; [unfold ov in *; rewrite S1; exact Hov|].
    destruct m; cbn [arrive_with] in Em; try discriminate. injection Em as _ -> _ _.
    destruct cmd as [r0 ok|]; [|exact Hov]. destruct r0; cbn; discriminate. }
  specialize (IH Hr s1 E Hov1). unfold run in IH. rewrite Er in IH. exact IH.
Qed.

Lemma parser_off_noop c ops : parser_on c = false -> forallb (fun m => negb (is_auto m)) ops = true -> quiet (trace c ops).
Proof. intros H1 H2. apply parser_off_quiet_from; try assumption; [reflexivity|discriminate]. Qed.

(* ------------------------------------------------------------------------- *)
(** * 4. settings across a RELOAD                                              *)

Definition rnew (o : rop) : rout :=
  match o with RReload => ONone | RQ _ vnew | RBatch _ vnew => act vnew end.

(** every statement is judged by the registered settings, whatever the session held before *)
Lemma reload_follows_new ops : forall f, rrun f ops = map rnew ops.
Proof.
  unfold rrun. induction ops as [|o r IH]; intros f; [reflexivity|].
  cbn [rrun_with map]. destruct o; cbn [rstep rnew]; rewrite IH; reflexivity.
Qed.

Lemma no_reload_follows_new ops : forallb (fun o => match o with RReload => false | _ => true end) ops = true ->
  rrun true ops = map rnew ops.
Proof. intros _. apply reload_follows_new. Qed.

Lemma forwarded_refreshes f o f' : rstep f o = (f', OFwd) -> f' = true.
Proof. destruct o as [|vo vn|vo vn]; cbn; intros H; inversion H; reflexivity. Qed.
