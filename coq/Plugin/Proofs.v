(** C19 — lemmas.  Property theorems are re-exported from Props.v. *)
From Coq Require Import ZArith NArith List Bool Lia.
From PV Require Import Plugin.Model Plugin.Spec.
Import ListNotations.
Ltac Zify.zify_post_hook ::= Z.div_mod_to_equations.

(* ------------------------------------------------------------------------- *)
(** * 1. names                                                                 *)

Lemma bytes_eqb_eq a b : bytes_eqb a b = true <-> a = b.
Proof.
  revert b. induction a as [|x a IH]; intros [|y b]; cbn [bytes_eqb]; split; intros H;
    try reflexivity; try discriminate.
  - apply andb_true_iff in H. destruct H as [H1 H2]. apply N.eqb_eq in H1. apply IH in H2. congruence.
  - injection H as -> ->. rewrite N.eqb_refl. cbn [andb]. apply IH. reflexivity.
Qed.

Lemma mem_In t l : mem t l = true <-> In t l.
Proof.
  unfold mem. rewrite existsb_exists. split.
  - intros (x & Hx & E). apply bytes_eqb_eq in E. subst. exact Hx.
  - intros H. exists t. split; [exact H|]. apply bytes_eqb_eq. reflexivity.
Qed.

Lemma rust_lower_ascii s : ascii_bytes s = true -> rust_lower s = map lower_ascii s.
Proof.
  induction s as [|c r IH]; intros H; [reflexivity|].
  cbn [ascii_bytes forallb] in H. apply andb_true_iff in H. destruct H as [Hc Hr].
  cbn [rust_lower map]. unfold is_ascii in Hc. apply N.ltb_lt in Hc.
  destruct (N.eqb_spec c 195) as [E|E]; [lia|]. f_equal. apply IH. exact Hr.
Qed.

Lemma table_name_last nm : table_name nm =
  match last_ident nm with Some i => Some (if quoted i then text i else rust_lower (text i)) | None => None end.
Proof. unfold table_name, last_ident. destruct (rev nm); reflexivity. Qed.

Lemma firstn_short {A} (l : list A) n : (length l <= n)%nat -> firstn n l = l.
Proof. intros H. apply firstn_all2. exact H. Qed.

Lemma resolve_is_table_name i : ascii_ident i = true -> short_ident i = true ->
  pg_resolve i = (if quoted i then text i else rust_lower (text i)).
Proof.
  unfold ascii_ident, short_ident, pg_resolve, pg_fold. intros Ha Hs. apply Nat.leb_le in Hs.
  rewrite firstn_short.
  - destruct (quoted i); [reflexivity|]. symmetry. apply rust_lower_ascii. exact Ha.
  - destruct (quoted i); [exact Hs|]. rewrite map_length. exact Hs.
Qed.

Lemma name_complete blocked nm i :
  last_ident nm = Some i -> ascii_ident i = true -> short_ident i = true ->
  In (pg_resolve i) blocked -> matches blocked nm = true.
Proof.
  intros Hl Ha Hs Hin. unfold matches. rewrite table_name_last, Hl.
  apply mem_In. rewrite <- resolve_is_table_name by assumption. exact Hin.
Qed.

Lemma name_sound blocked nm : matches blocked nm = true ->
  exists i, last_ident nm = Some i /\
            (ascii_ident i = true -> short_ident i = true -> In (pg_resolve i) blocked).
Proof.
  unfold matches. rewrite table_name_last. destruct (last_ident nm) as [i|]; [|discriminate].
  intros H. exists i. split; [reflexivity|]. intros Ha Hs.
  rewrite resolve_is_table_name by assumption. apply mem_In. exact H.
Qed.

Lemma first_match_none blocked names :
  first_match blocked names = None -> forall nm, In nm names -> matches blocked nm = false.
Proof.
  induction names as [|n r IH]; intros H nm Hin; [destruct Hin|].
  cbn [first_match] in H. destruct (matches blocked n) eqn:E.
  - unfold matches in E. destruct (table_name n); discriminate.
  - destruct Hin as [<-|Hin]; [exact E|]. apply IH; assumption.
Qed.

Lemma first_match_some blocked names t :
  first_match blocked names = Some t ->
  exists nm, In nm names /\ matches blocked nm = true /\ table_name nm = Some t.
Proof.
  induction names as [|n r IH]; intros H; [discriminate|].
  cbn [first_match] in H. destruct (matches blocked n) eqn:E.
  - exists n. split; [left; reflexivity|]. split; assumption.
  - destruct (IH H) as (nm & Hin & Hm & Ht). exists nm. split; [right; exact Hin|]. split; assumption.
Qed.

(** a message one of whose reported relations is a listed table is never Allowed *)
Lemma exec_blocks pc user db ast nm :
  ta_present pc = true -> ta_enabled pc = true ->
  In nm (flat_map st_explicit ast ++ flat_map st_visited ast) ->
  matches (ta_tables pc) nm = true ->
  execute_plugins (Some pc) user db ast <> PAllow.
Proof.
  intros Hp He Hin Hm. unfold execute_plugins. rewrite Hp.
  destruct (if ic_present pc then _ else _); try discriminate.
  unfold ta_verdict. rewrite He. cbn [negb].
  destruct (first_match (ta_tables pc) (flat_map st_visited ast)) eqn:E1; [discriminate|].
  destruct (first_match (ta_tables pc) (flat_map st_explicit ast)) eqn:E2; [discriminate|].
  exfalso. apply in_app_or in Hin. destruct Hin as [Hin|Hin].
  - rewrite (first_match_none _ _ E2 nm Hin) in Hm. discriminate.
  - rewrite (first_match_none _ _ E1 nm Hin) in Hm. discriminate.
Qed.

(** ... and a Deny names a listed table that the message mentions *)
Lemma exec_deny_sound pc user db ast msg :
  execute_plugins pc user db ast = PDeny msg ->
  exists pc' nm t, pc = Some pc' /\ In nm (flat_map st_explicit ast ++ flat_map st_visited ast) /\
                   matches (ta_tables pc') nm = true /\ table_name nm = Some t /\ msg = deny_message t.
Proof.
  unfold execute_plugins. destruct pc as [pc|]; [|discriminate].
  destruct (if ic_present pc then _ else _); try discriminate.
  destruct (ta_present pc); [|discriminate].
  destruct (ta_verdict _ _ _ _) as [t|] eqn:E; [|discriminate].
  intros H. injection H as <-. exists pc. unfold ta_verdict in E.
  destruct (negb (ta_enabled pc)); [discriminate|].
  destruct (first_match (ta_tables pc) (flat_map st_visited ast)) eqn:E1.
  - injection E as ->. destruct (first_match_some _ _ _ E1) as (nm & Hin & Hm & Ht).
    exists nm, t. repeat split; try assumption. apply in_or_app. right. exact Hin.
  - destruct (first_match_some _ _ _ E) as (nm & Hin & Hm & Ht).
    exists nm, t. repeat split; try assumption. apply in_or_app. left. exact Hin.
Qed.

Lemma exec_disabled user db ast : execute_plugins None user db ast = PAllow.
Proof. reflexivity. Qed.

(* ------------------------------------------------------------------------- *)
(** * 2. the intercept reply is readable and says what the rule says           *)

Open Scope Z_scope.

Lemma zlen_app {A} (a b : list A) : zlen (a ++ b) = zlen a + zlen b.
Proof. unfold zlen. rewrite app_length. lia. Qed.
Lemma zlen_cons {A} (x : A) l : zlen (x :: l) = 1 + zlen l.
Proof. unfold zlen. cbn [length]. lia. Qed.
Lemma zlen_nonneg {A} (l : list A) : 0 <= zlen l.
Proof. unfold zlen. lia. Qed.

Lemma rd_i32_i32be z : -2147483648 <= z < 2147483648 ->
  exists a b c d, i32be z = [a; b; c; d] /\ rd_i32 a b c d = z.
Proof.
  intros H. unfold i32be. do 4 eexists. split; [reflexivity|].
  unfold rd_i32, be_val, signed. cbn [fold_left].
  set (u := z mod 4294967296).
  assert (Hu: 0 <= u < 4294967296) by (apply Z.mod_pos_bound; lia).
  rewrite !Z2N.id by (subst u; first [apply Z.div_pos; lia | apply Z.mod_pos_bound; lia | lia]).
  change (2 ^ (32 - 1)) with 2147483648. change (2 ^ 32) with 4294967296.
  assert (E: ((0 * 256 + u / 16777216) * 256 + u / 65536 mod 256) * 256 + u / 256 mod 256 = u / 256) by lia.
  assert (E2: (((0 * 256 + u / 16777216) * 256 + u / 65536 mod 256) * 256 + u / 256 mod 256) * 256 + u mod 256 = u) by lia.
  rewrite E2. destruct (Z.ltb_spec u 2147483648); subst u; lia.
Qed.

Lemma rd_i16_i16be z : -32768 <= z < 32768 ->
  exists a b, i16be z = [a; b] /\ rd_i16 a b = z.
Proof.
  intros H. unfold i16be. do 2 eexists. split; [reflexivity|].
  unfold rd_i16, be_val, signed. cbn [fold_left].
  set (u := z mod 65536).
  assert (Hu: 0 <= u < 65536) by (apply Z.mod_pos_bound; lia).
  rewrite !Z2N.id by (subst u; first [apply Z.div_pos; lia | apply Z.mod_pos_bound; lia | lia]).
  change (2 ^ (16 - 1)) with 32768. change (2 ^ 16) with 65536.
  assert (E2: (0 * 256 + u / 256) * 256 + u mod 256 = u) by lia.
  rewrite E2. destruct (Z.ltb_spec u 32768); subst u; lia.
Qed.

Lemma firstn_zlen {A} (a b : list A) : firstn (Z.to_nat (zlen a)) (a ++ b) = a.
Proof.
  unfold zlen. rewrite Nat2Z.id. rewrite firstn_app, Nat.sub_diag, firstn_all. cbn [firstn]. apply app_nil_r.
Qed.
Lemma skipn_zlen {A} (a b : list A) : skipn (Z.to_nat (zlen a)) (a ++ b) = b.
Proof.
  unfold zlen. rewrite Nat2Z.id. rewrite skipn_app, Nat.sub_diag, skipn_all. reflexivity.
Qed.

Lemma take_frame_frame tag body rest : zlen body + 4 < 2147483648 ->
  take_frame (frame tag body ++ rest) = Some (tag, body, rest).
Proof.
  intros H. pose proof (zlen_nonneg body) as Hb.
  destruct (rd_i32_i32be (zlen body + 4) ltac:(lia)) as (a & b & c & d & E & R).
  unfold frame. rewrite E. cbn [app take_frame]. rewrite R.
  replace (zlen body + 4 - 4) with (zlen body) by lia.
  rewrite zlen_app. pose proof (zlen_nonneg rest).
  destruct (Z.leb_spec 4 (zlen body + 4)); [|lia].
  destruct (Z.leb_spec (zlen body) (zlen body + zlen rest)); [|lia].
  cbn [andb]. rewrite firstn_zlen, skipn_zlen. reflexivity.
Qed.

Definition enc (fs : list (byte * bytes)) : bytes := concat (map (fun f => frame (fst f) (snd f)) fs).
Definition fits (f : byte * bytes) : Prop := zlen (snd f) + 4 < 2147483648.

Lemma enc_length fs : (length fs <= length (enc fs))%nat.
Proof.
  induction fs as [|f fs IH]; [cbn; lia|].
  unfold enc in *. cbn [map concat]. rewrite app_length. unfold frame at 1. cbn [length]. lia.
Qed.

Lemma frames_enc fs : Forall fits fs -> forall fuel, (length fs <= fuel)%nat -> frames fuel (enc fs) = Some fs.
Proof.
  induction 1 as [|f fs Hf Hfs IH]; intros fuel Hl.
  - destruct fuel; reflexivity.
  - destruct fuel as [|fuel]; [cbn in Hl; lia|].
    unfold enc. cbn [map concat]. fold (enc fs).
    assert (E: exists x r, frame (fst f) (snd f) ++ enc fs = x :: r) by (unfold frame; cbn [app]; eauto).
    destruct E as (x & r & E). cbn [frames]. rewrite E. rewrite <- E.
    rewrite take_frame_frame by exact Hf.
    rewrite IH by (cbn in Hl; lia). destruct f. reflexivity.
Qed.

Lemma read_reply_enc fs ms : Forall fits fs -> map_opt rd_msg fs = Some ms -> read_reply (enc fs) = Some ms.
Proof.
  intros Hf Hm. unfold read_reply. rewrite frames_enc by (try exact Hf; apply enc_length). exact Hm.
Qed.

Lemma map_opt_app {A B} (f : A -> option B) l1 l2 r1 r2 :
  map_opt f l1 = Some r1 -> map_opt f l2 = Some r2 -> map_opt f (l1 ++ l2) = Some (r1 ++ r2).
Proof.
  revert r1. induction l1 as [|x l1 IH]; intros r1 H1 H2.
  - injection H1 as <-. exact H2.
  - cbn [map_opt app] in *. destruct (f x); [|discriminate].
    destruct (map_opt f l1) eqn:E; [|discriminate]. injection H1 as <-.
    rewrite (IH l eq_refl H2). reflexivity.
Qed.

Lemma cstr_app name rest : no_nul name = true -> cstr (name ++ 0%N :: rest) = Some (name, rest).
Proof.
  induction name as [|c r IH]; intros H; [reflexivity|].
  cbn [no_nul forallb] in H. apply andb_true_iff in H. destruct H as [Hc Hr].
  cbn [app cstr]. destruct (N.eqb c 0); [discriminate|]. fold (no_nul r) in Hr. rewrite (IH Hr). reflexivity.
Qed.

Lemma dtype_cases s : In (dtype s) [(25, -1); (2277, -1); (26, 4); (16, 1); (23, 4); (2276, -1)].
Proof.
  unfold dtype. repeat match goal with |- context [if ?b then _ else _] => destruct b end; cbn; tauto.
Qed.

Definition col_tail (oid size : Z) : bytes :=
  i32be 0 ++ i16be 0 ++ i32be oid ++ i16be size ++ i32be (-1) ++ i16be 0.

Lemma col_tail_rt oid size :
  In (oid, size) [(25, -1); (2277, -1); (26, 4); (16, 1); (23, 4); (2276, -1)] ->
  exists t1 t2 t3 t4 a1 a2 o1 o2 o3 o4 z1 z2 m1 m2 m3 m4 f1 f2,
    col_tail oid size = [t1; t2; t3; t4; a1; a2; o1; o2; o3; o4; z1; z2; m1; m2; m3; m4; f1; f2] /\
    rd_i32 t1 t2 t3 t4 = 0 /\ rd_i16 a1 a2 = 0 /\ rd_i32 o1 o2 o3 o4 = oid /\ rd_i16 z1 z2 = size /\
    rd_i32 m1 m2 m3 m4 = -1 /\ rd_i16 f1 f2 = 0.
Proof.
  cbn [In]. intros H.
  repeat (destruct H as [H|H]; [injection H as <- <-; do 18 eexists; split; [vm_compute; reflexivity|];
                                repeat split; vm_compute; reflexivity|]).
  destruct H.
Qed.

Lemma col_desc_shape c : col_desc c = fst c ++ 0%N :: col_tail (fst (dtype (snd c))) (snd (dtype (snd c))).
Proof. unfold col_desc, col_tail. destruct (dtype (snd c)). reflexivity. Qed.

Lemma rd_cols_enc cols : Forall (fun c => no_nul (fst c) = true) cols ->
  rd_cols (length cols) (concat (map col_desc cols)) = Some (map expected_col cols).
Proof.
  induction 1 as [|c cols Hc Hcs IH]; [reflexivity|].
  cbn [length map concat rd_cols]. rewrite col_desc_shape. unfold expected_col at 1.
  pose proof (dtype_cases (snd c)) as Hd. destruct (dtype (snd c)) as [oid size]. cbn [fst snd].
  destruct (col_tail_rt oid size Hd) as (t1&t2&t3&t4&a1&a2&o1&o2&o3&o4&z1&z2&m1&m2&m3&m4&f1&f2&E&R1&R2&R3&R4&R5&R6).
  rewrite E. rewrite <- app_assoc. cbn [app]. rewrite cstr_app by exact Hc.
  rewrite IH, R1, R2, R3, R4, R5, R6. reflexivity.
Qed.

Lemma i32be_m1 : i32be (-1) = [255; 255; 255; 255]%N.
Proof. vm_compute. reflexivity. Qed.
Lemma rd_m1 : rd_i32 255%N 255%N 255%N 255%N = -1.
Proof. vm_compute. reflexivity. Qed.

Lemma cell_le (c : option bytes) row : In c row -> zlen (cell_enc c) <= zlen (concat (map cell_enc row)).
Proof.
  induction row as [|x r IH]; intros H; [destruct H|].
  cbn [map concat]. rewrite zlen_app. pose proof (zlen_nonneg (cell_enc x)). pose proof (zlen_nonneg (concat (map cell_enc r))).
  destruct H as [->|H]; [lia|]. specialize (IH H). lia.
Qed.

Lemma rd_cells_enc row : Forall (fun c => match c with Some b => zlen b < 2147483648 | None => True end) row ->
  rd_cells (length row) (concat (map cell_enc row)) = Some row.
Proof.
  induction 1 as [|c row Hc Hr IH]; [reflexivity|].
  cbn [length map concat rd_cells]. destruct c as [b|]; unfold cell_enc at 1.
  - pose proof (zlen_nonneg b) as Hb.
    destruct (rd_i32_i32be (zlen b) ltac:(lia)) as (a1 & a2 & a3 & a4 & E & R).
    rewrite E. rewrite <- app_assoc. cbn [app]. rewrite R.
    destruct (Z.eqb_spec (zlen b) (-1)); [lia|].
    rewrite zlen_app. pose proof (zlen_nonneg (concat (map cell_enc row))).
    destruct (Z.leb_spec 0 (zlen b)); [|lia].
    destruct (Z.leb_spec (zlen b) (zlen b + zlen (concat (map cell_enc row)))); [|lia].
    cbn [andb]. rewrite firstn_zlen, skipn_zlen, IH. reflexivity.
  - rewrite i32be_m1. cbn [app]. rewrite rd_m1. cbn [Z.eqb Pos.eqb]. rewrite IH. reflexivity.
Qed.

Lemma rd_msg_rowdesc cols : zlen cols < 32768 -> Forall (fun c => no_nul (fst c) = true) cols ->
  rd_msg (84%N, i16be (zlen cols) ++ concat (map col_desc cols)) = Some (RowDescription (map expected_col cols)).
Proof.
  intros Hn Hc. pose proof (zlen_nonneg cols).
  destruct (rd_i16_i16be (zlen cols) ltac:(lia)) as (a & b & E & R).
  unfold rd_msg. change (84 =? 84)%N with true. cbv iota. rewrite E. cbn [app]. rewrite R.
  destruct (Z.leb_spec 0 (zlen cols)); [|lia]. unfold zlen. rewrite Nat2Z.id.
  rewrite rd_cols_enc by exact Hc. reflexivity.
Qed.

Lemma rd_msg_datarow row : zlen row < 32768 -> zlen (concat (map cell_enc row)) < 2147483000 ->
  rd_msg (68%N, i16be (zlen row) ++ concat (map cell_enc row)) = Some (DataRow row).
Proof.
  intros Hn Hc. pose proof (zlen_nonneg row).
  destruct (rd_i16_i16be (zlen row) ltac:(lia)) as (a & b & E & R).
  unfold rd_msg. change (68 =? 84)%N with false. change (68 =? 68)%N with true. cbv iota.
  rewrite E. cbn [app]. rewrite R.
  destruct (Z.leb_spec 0 (zlen row)); [|lia]. unfold zlen at 1. rewrite Nat2Z.id.
  rewrite rd_cells_enc; [reflexivity|].
  apply Forall_forall. intros [bb|] Hin; [|exact I].
  pose proof (cell_le _ _ Hin) as Hle. change (cell_enc (Some bb)) with (i32be (zlen bb) ++ bb) in Hle. rewrite zlen_app in Hle.
  pose proof (zlen_nonneg (i32be (zlen bb))). lia.
Qed.

Lemma rd_msg_cc : rd_msg (67%N, s_select ++ [0%N]) = Some (CommandComplete s_select).
Proof. reflexivity. Qed.

Lemma rd_msg_rfq : rd_msg (90%N, [73%N]) = Some (ReadyForQuery 73%N).
Proof. reflexivity. Qed.

Lemma rfq_is_frame : rfq_idle = frame 90%N [73%N].
Proof. reflexivity. Qed.

(** the frames of one matched rule *)
Definition rule_frames (cols : list (bytes * bytes)) (rows : list (list (option bytes))) : list (byte * bytes) :=
  (84%N, i16be (zlen cols) ++ concat (map col_desc cols))
  :: map (fun row => (68%N, i16be (zlen row) ++ concat (map cell_enc row))) rows
  ++ [(67%N, s_select ++ [0%N])].

Lemma enc_app a b : enc (a ++ b) = enc a ++ enc b.
Proof. unfold enc. rewrite map_app, concat_app. reflexivity. Qed.

Lemma enc_rows rows : enc (map (fun row => (68%N, i16be (zlen row) ++ concat (map cell_enc row))) rows)
                      = concat (map data_row_nullable rows).
Proof. induction rows as [|r rows IH]; [reflexivity|]. unfold enc in *. cbn [map concat]. rewrite IH. reflexivity. Qed.

Lemma rule_reply_frames user db r cols :
  map_opt schema_col (r_schema r) = Some cols ->
  rule_reply user db r = Some (enc (rule_frames cols (rule_rows user db r))).
Proof.
  intros E. unfold rule_reply. rewrite E. f_equal. unfold rule_frames.
  change (?x :: ?l ++ ?t) with ([x] ++ l ++ t). rewrite !enc_app, enc_rows.
  unfold enc. cbn [map concat fst snd]. rewrite !app_nil_r. reflexivity.
Qed.

Definition expected_of (user db : bytes) (r : rule) : list bmsg :=
  match map_opt schema_col (r_schema r) with
  | Some cols => expected_rule user db r cols
  | None => []
  end.

Lemma rule_frames_ok user db r : wf_rule user db r ->
  exists fs, rule_reply user db r = Some (enc fs) /\ Forall fits fs /\
             map_opt rd_msg fs = Some (expected_of user db r).
Proof.
  intros [(cols & Ec & Hn & Hnul & Hsz) Hrows].
  exists (rule_frames cols (rule_rows user db r)). split; [apply rule_reply_frames; exact Ec|].
  unfold expected_of. rewrite Ec. unfold rule_frames, expected_rule.
  set (rows := rule_rows user db r) in *.
  split.
  - constructor.
    + unfold fits. cbn [snd]. rewrite zlen_app. change (zlen (i16be (zlen cols))) with 2. lia.
    + apply Forall_app. split.
      * apply Forall_forall. intros f Hin. apply in_map_iff in Hin. destruct Hin as (row & <- & Hin).
        rewrite Forall_forall in Hrows. destruct (Hrows row Hin) as [_ Hs].
        unfold fits. cbn [snd]. rewrite zlen_app. change (zlen (i16be (zlen row))) with 2. lia.
      * constructor; [|constructor]. unfold fits. vm_compute. reflexivity.
  - change (?x :: ?l ++ ?t) with ([x] ++ l ++ t).
    change (RowDescription ?c :: ?l ++ ?t) with ([RowDescription c] ++ l ++ t).
    apply map_opt_app; [|apply map_opt_app].
    + cbn [map_opt]. rewrite rd_msg_rowdesc by assumption. reflexivity.
    + clear - Hrows. induction Hrows as [|row rows' [H1 H2] _ IH]; [reflexivity|].
      cbn [map map_opt]. rewrite rd_msg_datarow by assumption. rewrite IH. reflexivity.
    + cbn [map_opt]. rewrite rd_msg_cc. reflexivity.
Qed.

Definition matched_rules (rules : list rule) (stmts : list bytes) : list rule :=
  flat_map (fun q => filter (rule_matches q) rules) stmts.

Lemma intercept_body_matched user db rules stmts :
  intercept_body user db rules stmts = concat_opt (map (rule_reply user db) (matched_rules rules stmts)).
Proof.
  unfold intercept_body, matched_rules. f_equal.
  induction stmts as [|q r IH]; [reflexivity|]. cbn [flat_map]. rewrite map_app, IH. reflexivity.
Qed.

Lemma body_frames user db ms : Forall (wf_rule user db) ms ->
  exists fs, concat_opt (map (rule_reply user db) ms) = Some (enc fs) /\ Forall fits fs /\
             map_opt rd_msg fs = Some (flat_map (expected_of user db) ms).
Proof.
  induction 1 as [|r ms Hr Hms IH].
  - exists []. repeat split; constructor.
  - destruct IH as (fs & E & Hf & Hm). destruct (rule_frames_ok user db r Hr) as (f1 & E1 & Hf1 & Hm1).
    exists (f1 ++ fs). cbn [map concat_opt flat_map]. rewrite E1, E. rewrite enc_app.
    split; [reflexivity|]. split; [apply Forall_app; split; assumption|]. apply map_opt_app; assumption.
Qed.

Lemma intercept_exact enabled user db rules stmts reply :
  intercept_run enabled user db rules stmts = IReply reply ->
  Forall (wf_rule user db) (matched_rules rules stmts) ->
  matched_rules rules stmts <> [] /\
  read_reply reply = Some (flat_map (expected_of user db) (matched_rules rules stmts) ++ [ReadyForQuery 73%N]).
Proof.
  intros H Hwf. unfold intercept_run in H. destruct (negb enabled); [discriminate|].
  destruct stmts as [|q0 st]; [discriminate|].
  rewrite intercept_body_matched in H.
  destruct (body_frames user db _ Hwf) as (fs & E & Hf & Hm). rewrite E in H.
  assert (Hrep: reply = enc fs ++ rfq_idle /\ enc fs <> []).
  { destruct (enc fs) as [|x r]; [discriminate|]. injection H as <-. split; [reflexivity|discriminate]. }
  destruct Hrep as [-> Hne]. clear H.
  split.
  - intros Hnil. rewrite Hnil in E. cbn in E. injection E as E. apply Hne. symmetry. exact E.
  - rewrite rfq_is_frame. change (frame 90%N [73%N]) with (enc [(90%N, [73%N])] ).
    + rewrite <- enc_app. apply read_reply_enc.
      * apply Forall_app. split; [exact Hf|]. constructor; [|constructor]. unfold fits. vm_compute. reflexivity.
      * apply map_opt_app; [exact Hm|]. reflexivity.
Qed.

(** no rule matches => the plugin does not intercept *)
Lemma intercept_none enabled user db rules stmts :
  matched_rules rules stmts = [] -> intercept_run enabled user db rules stmts = IAllow.
Proof.
  intros H. unfold intercept_run. destruct (negb enabled); [reflexivity|].
  destruct stmts; [reflexivity|]. rewrite intercept_body_matched, H. reflexivity.
Qed.

Close Scope Z_scope.

(* ------------------------------------------------------------------------- *)
(** * 3. enforcement                                                           *)

Definition pbuf (c : cfg) (m : msg) : verdict :=
  match m with MP _ _ _ p v => eff c p v | _ => Allow end.

(** what one step may do to the buffer / pending verdict, and where forwarded items
    come from *)
Definition ok_step (c : cfg) (s : state) (m : msg) (s' : state) (ev : list event) : Prop :=
  (forall it, In it (forwarded ev) ->
      (it = FMsg m /\ bad_msg c m = false)
      \/ (exists m', it = FMsg m' /\ In m' (ebuf s) /\ is_allow (pout s) = true)
      \/ (exists p, it = FParse p /\ ps_on c = true)) /\
  ( (ebuf s' = ebuf s /\ pout s' = pout s)
    \/ (ebuf s' = ebuf s ++ [m] /\ (if is_allow (pout s) then pout s' = pbuf c m else pout s' = pout s))
    \/ (ebuf s' = [] /\ pout s' = Allow)
    \/ (ebuf s' = [] /\ pout s' = pout s /\ is_allow (pout s) = true) ).

Lemma is_allow_true v : is_allow v = true -> v = Allow.
Proof. destruct v; [reflexivity|discriminate|discriminate]. Qed.

Lemma buffer_msg_ok c s m s' ev : buffer_msg c s m = (s', ev) ->
  match m with MQ _ _ _ _ _ | MS _ _ _ | MH _ _ => False | _ => True end -> ok_step c s m s' ev.
Proof.
  intros H Hk. split.
  - destruct m; try destruct Hk; cbn [buffer_msg] in H;
      repeat match type of H with context [if ?b then _ else _] => destruct b end;
      repeat match type of H with context [match ?x with Some _ => _ | None => _ end] => destruct x end;
      injection H as <- <-; cbn; intros it [].
  - destruct m; try destruct Hk; cbn [buffer_msg] in H.
    + (* MP *)
      right; left. unfold pbuf, eff.
      destruct (parser_on c && parsed) eqn:Epp; destruct (is_allow (pout s)) eqn:Ea; destruct (ps_on c);
        injection H as <- <-; cbn; split; try reflexivity; try (rewrite Ea; reflexivity);
        try (rewrite Ea; apply is_allow_true in Ea; exact Ea); try (apply is_allow_true; exact Ea).
    + destruct (ps_on c); [destruct (lookup name (ps s))|]; injection H as <- <-;
        try (right; left; cbn; split; [reflexivity|]; destruct (is_allow (pout s)) eqn:Ea; [apply is_allow_true; exact Ea|reflexivity]).
      left. cbn. split; reflexivity.
    + destruct (ps_on c && is_stmt); [destruct (lookup name (ps s))|]; injection H as <- <-;
        try (right; left; cbn; split; [reflexivity|]; destruct (is_allow (pout s)) eqn:Ea; [apply is_allow_true; exact Ea|reflexivity]).
      left. cbn. split; reflexivity.
    + injection H as <- <-. right; left; cbn; split; [reflexivity|]; destruct (is_allow (pout s)) eqn:Ea; [apply is_allow_true; exact Ea|reflexivity].
    + injection H as <- <-. right; left; cbn; split; [reflexivity|]; destruct (is_allow (pout s)) eqn:Ea; [apply is_allow_true; exact Ea|reflexivity].
Qed.

Lemma forwarded_app a b : forwarded (a ++ b) = forwarded a ++ forwarded b.
Proof.
  induction a as [|e a IH]; [reflexivity|]. destruct e; cbn [app forwarded]; rewrite ?IH, <- ?app_assoc; reflexivity.
Qed.

Lemma drain_spec c buf : forall pm sv early acc early' acc' pm' sv' ok,
  drain c buf pm sv early acc = (early', acc', pm', sv', ok) ->
  (forall it, In it acc' -> In it acc \/ exists m, it = FMsg m /\ In m buf) /\
  (forall it, In it (forwarded early') -> In it (forwarded early) \/ (exists p, it = FParse p /\ ps_on c = true)).
Proof.
  induction buf as [|m r IH]; intros pm sv early acc early' acc' pm' sv' ok H.
  - cbn [drain] in H. injection H as <- <- <- <- <-. split; intros it Hi; left; exact Hi.
  - assert (Hgen: forall pm2 sv2 early2 acc2,
               drain c r pm2 sv2 early2 acc2 = (early', acc', pm', sv', ok) ->
               (forall it, In it acc2 -> In it acc \/ it = FMsg m) ->
               (forall it, In it (forwarded early2) -> In it (forwarded early) \/ (exists p, it = FParse p /\ ps_on c = true)) ->
               (forall it, In it acc' -> In it acc \/ exists m0, it = FMsg m0 /\ In m0 (m :: r)) /\
               (forall it, In it (forwarded early') -> In it (forwarded early) \/ (exists p, it = FParse p /\ ps_on c = true))).
    { intros pm2 sv2 early2 acc2 D Ha He. destruct (IH _ _ _ _ _ _ _ _ _ D) as [A B]. split.
      - intros it Hi. destruct (A it Hi) as [Hi'|(m0 & -> & Hm0)].
        + destruct (Ha it Hi') as [?| ->]; [left; assumption|right; exists m; split; [reflexivity|left; reflexivity]].
        + right. exists m0. split; [reflexivity|right; exact Hm0].
      - intros it Hi. destruct (B it Hi) as [Hi'|Hp]; [apply He; exact Hi'|right; exact Hp]. }
    assert (Hacc1: forall it, In it (acc ++ [FMsg m]) -> In it acc \/ it = FMsg m).
    { intros it Hi. apply in_app_or in Hi. destruct Hi as [?|[<-|[]]]; [left; assumption|right; reflexivity]. }
    assert (Hacc0: forall it, In it acc -> In it acc \/ it = FMsg m) by (intros; left; assumption).
    assert (He0: forall it, In it (forwarded early) -> In it (forwarded early) \/ (exists p, it = FParse p /\ ps_on c = true))
      by (intros; left; assumption).
    cbn [drain] in H. destruct m.
    + eapply Hgen; eauto.
    + destruct (ps_on c) eqn:Eps; [destruct (has key sv)|]; eapply Hgen; eauto.
    + destruct (ps_on c) eqn:Eps.
      * destruct (lookup name pm) as [p|].
        -- destruct (has (key_of p) sv); eapply Hgen; eauto.
           intros it Hi. rewrite forwarded_app in Hi. apply in_app_or in Hi. destruct Hi as [?|Hi]; [left; assumption|].
           cbn in Hi. destruct Hi as [<-|[]]. right. exists p. split; reflexivity.
        -- injection H as <- <- <- <- <-. split; intros it Hi; left; exact Hi.
      * eapply Hgen; eauto.
    + destruct (ps_on c && is_stmt) eqn:Eps.
      * apply andb_true_iff in Eps. destruct Eps as [Eps _].
        destruct (lookup name pm) as [p|].
        -- destruct (has (key_of p) sv); eapply Hgen; eauto.
           intros it Hi. rewrite forwarded_app in Hi. apply in_app_or in Hi. destruct Hi as [?|Hi]; [left; assumption|].
           cbn in Hi. destruct Hi as [<-|[]]. right. exists p. split; [reflexivity|exact Eps].
        -- injection H as <- <- <- <- <-. split; intros it Hi; left; exact Hi.
      * eapply Hgen; eauto.
    + eapply Hgen; eauto.
    + destruct (ps_on c && is_stmt && negb (Nat.eqb name 0)); eapply Hgen; eauto.
    + eapply Hgen; eauto.
    + eapply Hgen; eauto.
Qed.

Lemma after_server_bufs c s tx s' ev : after_server c s tx = (s', ev) ->
  ebuf s' = ebuf s /\ pout s' = pout s /\ forwarded ev = [].
Proof.
  unfold after_server. destruct (negb tx && txn_mode c); intros H; injection H as <- <-; repeat split.
Qed.

Lemma step_inner_ok c s m s' ev : step_inner c s m = (s', ev) -> ok_step c s m s' ev.
Proof.
  intros H. destruct m; try (apply buffer_msg_ok; [exact H|exact I]).
  - (* MQ *) cbn [step_inner] in H. destruct (eff c parsed v) eqn:Ee.
    + destruct (after_server c s tx_after) as [s2 e2] eqn:Ea. injection H as <- <-.
      destruct (after_server_bufs _ _ _ _ _ Ea) as (E1 & E2 & E3). split.
      * cbn [forwarded]. rewrite E3. intros it [<-|[]]. left. split; [reflexivity|]. cbn. rewrite Ee. reflexivity.
      * left. split; assumption.
    + injection H as <- <-. split; [intros it []|left; split; reflexivity].
    + injection H as <- <-. split; [intros it []|left; split; reflexivity].
  - (* MS *) cbn [step_inner] in H. destruct (pout s) eqn:Ep.
    + destruct (drain c (ebuf s) (ps s) (srv s) [] []) as [[[[early acc] pm] sv] ok] eqn:D.
      destruct (drain_spec _ _ _ _ _ _ _ _ _ _ _ D) as [A B].
      assert (Hearly: forall it, In it (forwarded early) -> exists p, it = FParse p /\ ps_on c = true).
      { intros it Hi. destruct (B it Hi) as [[]|Hp]. exact Hp. }
      assert (Hacc: forall it, In it acc -> exists m', it = FMsg m' /\ In m' (ebuf s)).
      { intros it Hi. destruct (A it Hi) as [[]|Hp]. exact Hp. }
      destruct ok; cbn [negb] in H.
      * destruct acc as [|a0 acc0].
        -- destruct (after_server c _ _) as [s2 e2] eqn:Ea. injection H as <- <-.
           destruct (after_server_bufs _ _ _ _ _ Ea) as (E1 & E2 & E3). split.
           ++ intros it Hi. rewrite forwarded_app, E3, app_nil_r in Hi. right; right. apply Hearly. exact Hi.
           ++ right; right; right. cbn in E1, E2. rewrite E1, E2, Ep. repeat split.
        -- destruct (after_server c _ _) as [s2 e2] eqn:Ea. injection H as <- <-.
           destruct (after_server_bufs _ _ _ _ _ Ea) as (E1 & E2 & E3). split.
           ++ intros it Hi. rewrite forwarded_app in Hi. apply in_app_or in Hi. destruct Hi as [Hi|Hi].
              ** right; right. apply Hearly. exact Hi.
              ** cbn [forwarded] in Hi. rewrite E3, app_nil_r in Hi. rewrite app_comm_cons in Hi.
                 apply in_app_or in Hi. destruct Hi as [Hi|[<-|[]]].
                 --- right; left. destruct (Hacc it Hi) as (m' & -> & Hm'). exists m'. repeat split; [exact Hm'|rewrite Ep; reflexivity].
                 --- left. split; reflexivity.
           ++ right; right; right. cbn in E1, E2. rewrite E1, E2, Ep. repeat split.
      * injection H as <- <-. split.
        -- intros it Hi. rewrite forwarded_app in Hi. cbn [forwarded] in Hi. rewrite app_nil_r in Hi. right; right. apply Hearly. exact Hi.
        -- right; right; right. cbn. rewrite Ep. repeat split.
    + injection H as <- <-. split; [intros it []|]. right; right; left. split; reflexivity.
    + injection H as <- <-. split; [intros it []|]. right; right; left. split; reflexivity.
  - (* MH *) cbn [step_inner] in H. injection H as <- <-. split; [intros it []|left; split; reflexivity].
Qed.

Lemma outer_checkout_ok c s m s' ev : outer_checkout c s m = (s', ev) ->
  (is_sync m = true -> is_allow (pout s) = true) -> ok_step c s m s' ev.
Proof.
  unfold outer_checkout. intros H Hs.
  destruct (pool_ok_of m) eqn:Eo.
  - destruct (step_inner c (set_held s true false) m) as [s2 e2] eqn:Es. injection H as <- <-.
    apply step_inner_ok in Es. exact Es.
  - injection H as <- <-. split; [intros it []|]. destruct (is_sync m) eqn:Ey.
    + right; right; right. cbn. repeat split. apply Hs. reflexivity.
    + left. split; reflexivity.
Qed.

Lemma outer_rest_ok c s m s' ev : outer_rest c s m = (s', ev) -> ok_step c s m s' ev.
Proof.
  unfold outer_rest. intros H. destruct (pout s) eqn:Ep.
  - apply outer_checkout_ok; [exact H|]. intros _. rewrite Ep. reflexivity.
  - injection H as <- <-. split; [intros it []|]. right; right; left. split; reflexivity.
  - destruct (is_sync m) eqn:Ey.
    + injection H as <- <-. split; [intros it []|]. right; right; left. split; reflexivity.
    + apply outer_checkout_ok; [exact H|]. intros Hc. congruence.
Qed.

Lemma step_ok c s m s' ev : step c s m = (s', ev) -> ok_step c s m s' ev.
Proof.
  unfold step. destruct (dead s).
  - intros H. injection H as <- <-. split; [intros it []|left; split; reflexivity].
  - destruct (held s); [apply step_inner_ok|].
    unfold step_outer. destruct m; try (intros H; apply buffer_msg_ok; [exact H|exact I]);
      try apply outer_rest_ok.
    destruct (eff c parsed v) eqn:Ee; [apply outer_rest_ok| |];
      intros H; injection H as <- <-; (split; [intros it []|left; split; reflexivity]).
Qed.

(** Invariant: a rejected Parse sitting in the buffer keeps a non-Allow verdict pending. *)
Definition Inv (c : cfg) (s : state) : Prop :=
  forall m, In m (ebuf s) -> bad_msg c m = true -> is_allow (pout s) = false.

Lemma bad_pbuf c m : bad_msg c m = true ->
  match m with MQ _ _ _ _ _ => True | _ => is_allow (pbuf c m) = false end.
Proof. destruct m; cbn; try discriminate; [trivial|]. intros H. apply negb_true_iff in H. exact H. Qed.

Lemma Inv_step c s m s' ev : ok_step c s m s' ev ->
  match m with MQ _ _ _ _ _ => ebuf s' <> ebuf s ++ [m] | _ => True end -> Inv c s -> Inv c s'.
Proof.
  intros [_ Hb] Hq I0. unfold Inv in *. destruct Hb as [[E1 E2]|[[E1 E2]|[[E1 E2]|[E1 _]]]].
  - rewrite E1, E2. exact I0.
  - rewrite E1. intros x Hx Hbad. apply in_app_or in Hx. destruct (is_allow (pout s)) eqn:Ea.
    + destruct Hx as [Hx|[<-|[]]].
      * pose proof (I0 x Hx Hbad) as Hc. congruence.
      * rewrite E2. pose proof (bad_pbuf c m Hbad) as Hp. destruct m; try exact Hp. exfalso. apply Hq. exact E1.
    + rewrite E2. exact Ea.
  - rewrite E1. intros x [].
  - rewrite E1. intros x [].
Qed.

Lemma step_no_q_buffered c s m s' ev : step c s m = (s', ev) ->
  match m with MQ _ _ _ _ _ => ebuf s' <> ebuf s ++ [m] | _ => True end.
Proof.
  destruct m; try exact (fun _ => I). intros H E.
  assert (L: forall l : list msg, forall x, l <> l ++ [x]).
  { intros l x Hl. apply (f_equal (@length _)) in Hl. rewrite app_length in Hl. cbn in Hl. lia. }
  assert (Hq: ebuf s' = ebuf s \/ ebuf s' = []).
  { unfold step in H. destruct (dead s); [injection H as <- <-; left; reflexivity|].
    assert (Hi: forall s0 s1 e1, step_inner c s0 (MQ id parsed v pool_ok tx_after) = (s1, e1) -> ebuf s1 = ebuf s0).
    { intros s0 s1 e1 Hs. cbn [step_inner] in Hs. destruct (eff c parsed v).
      - destruct (after_server c s0 tx_after) as [s2 e2] eqn:Ea. injection Hs as <- <-.
        destruct (after_server_bufs _ _ _ _ _ Ea) as (E1 & _). exact E1.
      - injection Hs as <- <-. reflexivity.
      - injection Hs as <- <-. reflexivity. }
    destruct (held s); [left; eapply Hi; exact H|].
    cbn [step_outer] in H. destruct (eff c parsed v); try (injection H as <- <-; left; reflexivity).
    assert (Hc: forall s2 e2, outer_checkout c s (MQ id parsed v pool_ok tx_after) = (s2, e2) -> ebuf s2 = ebuf s).
    { intros s2 e2 Hr. unfold outer_checkout in Hr. cbn [pool_ok_of is_sync] in Hr. destruct pool_ok.
      - destruct (step_inner c (set_held s true false) _) as [s3 e3] eqn:Es. injection Hr as <- <-. apply Hi in Es. exact Es.
      - injection Hr as <- <-. reflexivity. }
    unfold outer_rest in H. cbn [is_sync] in H. destruct (pout s).
    - left. eapply Hc. exact H.
    - injection H as <- <-. right. reflexivity.
    - left. eapply Hc. exact H. }
  destruct Hq as [Hq|Hq]; rewrite Hq in E.
  - exact (L _ _ E).
  - destruct (ebuf s); discriminate.
Qed.

Lemma Inv_init c : Inv c init.
Proof. intros m []. Qed.

(** MAIN: whatever the client sends, from any state satisfying the invariant, no client
    message that the plugins rejected is ever written to a server; a rejected text can
    only reach a server as a Parse re-sent from the prepared-statement map. *)
Lemma enforced_from c ops : forall s, Inv c s ->
  forall it, In it (forwarded (snd (run c s ops))) ->
    match it with
    | FMsg m => bad_msg c m = false
    | FParse _ => ps_on c = true
    end.
Proof.
  induction ops as [|m r IH]; intros s I0 it Hi; [destruct Hi|].
  cbn [run] in Hi. destruct (step c s m) as [s1 e1] eqn:Es. destruct (run c s1 r) as [s2 e2] eqn:Er.
  cbn [snd] in Hi. rewrite forwarded_app in Hi. apply in_app_or in Hi.
  pose proof (step_ok _ _ _ _ _ Es) as Hok.
  destruct Hi as [Hi|Hi].
  - destruct Hok as [Hf _]. destruct (Hf it Hi) as [[-> Hb]|[(m' & -> & Hm' & Ha)|(p & -> & Hp)]].
    + exact Hb.
    + destruct (bad_msg c m') eqn:Eb; [|reflexivity]. rewrite (I0 m' Hm' Eb) in Ha. discriminate.
    + exact Hp.
  - apply (IH s1); [|rewrite Er; exact Hi].
    eapply Inv_step; [exact Hok| |exact I0]. eapply step_no_q_buffered. exact Es.
Qed.

Lemma enforced c ops it : In it (forwarded (trace c ops)) ->
  match it with FMsg m => bad_msg c m = false | FParse _ => ps_on c = true end.
Proof. apply enforced_from. apply Inv_init. Qed.

Lemma enforced_no_ps c ops it : ps_on c = false -> In it (forwarded (trace c ops)) -> bad_item c it = false.
Proof.
  intros Hps Hi. pose proof (enforced c ops it Hi) as H. destruct it; cbn [bad_item]; [exact H|congruence].
Qed.

(** A batch whose verdict is pending as Deny/Intercept is dropped as a whole: none of the
    messages buffered so far is ever forwarded, whatever follows (message ids of the
    continuation being fresh). *)
Definition ids (l : list msg) : list nat := map msg_id l.

Lemma batch_dropped_gen c ops : forall s (I : list nat),
  (is_allow (pout s) = false \/ (forall m, In m (ebuf s) -> ~ In (msg_id m) I)) ->
  (forall m, In m ops -> ~ In (msg_id m) I) ->
  forall m, In (FMsg m) (forwarded (snd (run c s ops))) -> ~ In (msg_id m) I.
Proof.
  induction ops as [|x r IH]; intros s I H0 Hfresh m Hi; [destruct Hi|].
  cbn [run] in Hi. destruct (step c s x) as [s1 e1] eqn:Es. destruct (run c s1 r) as [s2 e2] eqn:Er.
  cbn [snd] in Hi. rewrite forwarded_app in Hi. apply in_app_or in Hi.
  destruct (step_ok _ _ _ _ _ Es) as [Hf Hb].
  destruct Hi as [Hi|Hi].
  - destruct (Hf _ Hi) as [[E _]|[(m' & E & Hm' & Ha)|(p & E & _)]].
    + injection E as ->. apply Hfresh. left. reflexivity.
    + injection E as ->. destruct H0 as [H0|H0]; [rewrite H0 in Ha; discriminate|]. apply H0. exact Hm'.
    + discriminate.
  - apply (IH s1 I); [| |rewrite Er; exact Hi].
    + destruct Hb as [[E1 E2]|[[E1 E2]|[[E1 E2]|[E1 _]]]].
      * rewrite E1, E2. exact H0.
      * destruct H0 as [H0|H0].
        -- left. rewrite H0 in E2. rewrite E2. exact H0.
        -- right. rewrite E1. intros y Hy. apply in_app_or in Hy. destruct Hy as [Hy|[<-|[]]]; [apply H0; exact Hy|].
           apply Hfresh. left. reflexivity.
      * right. rewrite E1. intros y [].
      * right. rewrite E1. intros y [].
    + intros y Hy. apply Hfresh. right. exact Hy.
Qed.

Lemma batch_dropped c s ops m :
  is_allow (pout s) = false ->
  (forall x, In x ops -> ~ In (msg_id x) (ids (ebuf s))) ->
  In (FMsg m) (forwarded (snd (run c s ops))) -> ~ In (msg_id m) (ids (ebuf s)).
Proof. intros Hp Hf. apply batch_dropped_gen; [left; exact Hp|exact Hf]. Qed.

(** A rejected Q is answered at once, whatever the state, and changes nothing. *)
Lemma q_answered c s id parsed v po tx :
  dead s = false -> eff c parsed v <> Allow ->
  step c s (MQ id parsed v po tx) =
    (s, [match eff c parsed v with Deny t => EvErr (EPlugin t) | Intercept t => EvIntercept t | Allow => EvEnd end]).
Proof.
  intros Hd He. unfold step. rewrite Hd. destruct (held s); cbn [step_inner step_outer];
    destruct (eff c parsed v); try reflexivity; contradiction.
Qed.

(** A pending Deny is answered by the next Sync, in either loop, and the batch is gone;
    a pending Intercept likewise when a server can be checked out. *)
Lemma sync_answers_deny c s id po tx t :
  dead s = false -> pout s = Deny t ->
  step c s (MS id po tx) = (consume s, [EvErr (EPlugin t)]).
Proof.
  intros Hd Hp. unfold step. rewrite Hd. destruct (held s); cbn [step_inner step_outer]; unfold outer_rest; rewrite Hp; reflexivity.
Qed.

Lemma sync_answers_intercept c s id po tx t :
  dead s = false -> pout s = Intercept t ->
  step c s (MS id po tx) = (consume s, [EvIntercept t]).
Proof.
  intros Hd Hp. unfold step. rewrite Hd. destruct (held s); cbn [step_inner step_outer]; unfold outer_rest; rewrite Hp; reflexivity.
Qed.

(** No stale verdict: a non-Allow verdict is pending only while the batch that earned it
    is still buffered (whatever happens to checkouts). *)
Definition fresh (s : state) : Prop := is_allow (pout s) = false -> ebuf s <> [].

Lemma no_stale_from c ops : forall s, fresh s -> fresh (fst (run c s ops)).
Proof.
  induction ops as [|m r IH]; intros s F; [exact F|].
  cbn [run]. destruct (step c s m) as [s1 e1] eqn:Es. destruct (run c s1 r) as [s2 e2] eqn:Er.
  cbn [fst]. change s2 with (fst (s2, e2)). rewrite <- Er. apply IH.
  destruct (step_ok _ _ _ _ _ Es) as [_ Hb]. unfold fresh in *.
  destruct Hb as [[E1 E2]|[[E1 E2]|[[E1 E2]|(E1 & E2 & E3)]]].
  - rewrite E1, E2. exact F.
  - rewrite E1. intros _. destruct (ebuf s); discriminate.
  - rewrite E2. discriminate.
  - rewrite E2, E3. discriminate.
Qed.

Lemma no_stale c ops : fresh (fst (run c init ops)).
Proof. apply no_stale_from. intros H. discriminate. Qed.

(** Plugins disabled (no [plugins] section, or the query parser off): no message is
    bad, nothing is ever answered by a plugin, and a Q goes to the server. *)
Definition disabled (c : cfg) : Prop := plugins_on c = false \/ parser_on c = false.

Lemma disabled_eff c p v : disabled c -> eff c p v = Allow.
Proof. unfold eff, plug. intros [H|H]; rewrite H; [destruct (parser_on c && p)|]; reflexivity. Qed.

Lemma disabled_not_bad c m : disabled c -> bad_msg c m = false.
Proof. intros H. destruct m; cbn [bad_msg]; try reflexivity; rewrite disabled_eff by exact H; reflexivity. Qed.

Lemma no_plugin_app a b : forallb (fun e => negb (plugin_event e)) (a ++ b) =
                          forallb (fun e => negb (plugin_event e)) a && forallb (fun e => negb (plugin_event e)) b.
Proof. apply forallb_app. Qed.

Notation quiet ev := (forallb (fun e => negb (plugin_event e)) ev = true).

Lemma after_server_quiet c s tx s' ev : after_server c s tx = (s', ev) -> pout s' = pout s /\ quiet ev.
Proof. unfold after_server. destruct (negb tx && txn_mode c); intros H; injection H as <- <-; split; reflexivity. Qed.

Lemma drain_quiet c buf : forall pm sv early acc early' acc' pm' sv' ok,
  drain c buf pm sv early acc = (early', acc', pm', sv', ok) -> quiet early -> quiet early'.
Proof.
  induction buf as [|m r IH]; intros pm sv early acc early' acc' pm' sv' ok H Q.
  - cbn [drain] in H. injection H as <- <- <- <- <-. exact Q.
  - assert (Q2: forall p, quiet (early ++ [EvFwd [FParse p]])) by (intros p; rewrite no_plugin_app, Q; reflexivity).
    cbn [drain] in H. destruct m;
      repeat match type of H with
             | context [if ?b then _ else _] => destruct b
             | context [match lookup ?n ?l with Some _ => _ | None => _ end] => destruct (lookup n l)
             end;
      try (eapply IH; [exact H|]; first [exact Q|apply Q2]);
      injection H as <- <- <- <- <-; exact Q.
Qed.

Lemma disabled_step_inner c s m s' ev : disabled c -> pout s = Allow -> step_inner c s m = (s', ev) ->
  pout s' = Allow /\ quiet ev.
Proof.
  intros Hd Hp H. destruct m; cbn [step_inner buffer_msg] in H.
  - rewrite (disabled_eff c parsed v Hd) in H. destruct (after_server c s tx_after) as [s2 e2] eqn:Ea.
    injection H as <- <-. destruct (after_server_quiet _ _ _ _ _ Ea) as [E Q]. split; [congruence|exact Q].
  - assert (Hs1: pout (if parser_on c && parsed then if is_allow (pout s) then set_pout s (plug c v) else s else s) = Allow).
    { destruct (parser_on c && parsed) eqn:Epp; [|exact Hp]. rewrite Hp. cbn [is_allow set_pout pout].
      unfold plug. destruct Hd as [Hd|Hd]; [rewrite Hd; reflexivity|]. rewrite Hd in Epp. discriminate. }
    destruct (ps_on c); injection H as <- <-; split; try reflexivity; exact Hs1.
  - destruct (ps_on c); [destruct (lookup name (ps s))|]; injection H as <- <-; split; try reflexivity; exact Hp.
  - destruct (ps_on c && is_stmt); [destruct (lookup name (ps s))|]; injection H as <- <-; split; try reflexivity; exact Hp.
  - injection H as <- <-; split; [exact Hp|reflexivity].
  - injection H as <- <-; split; [exact Hp|reflexivity].
  - rewrite Hp in H. destruct (drain c (ebuf s) (ps s) (srv s) [] []) as [[[[early acc] pm] sv] ok] eqn:D.
    pose proof (drain_quiet _ _ _ _ _ _ _ _ _ _ _ D eq_refl) as Qe.
    destruct ok; cbn [negb] in H.
    + destruct acc.
      * destruct (after_server c _ _) as [s2 e2] eqn:Ea. injection H as <- <-.
        destruct (after_server_quiet _ _ _ _ _ Ea) as [E Q]. split; [rewrite E; exact Hp|]. rewrite no_plugin_app, Qe, Q. reflexivity.
      * destruct (after_server c _ _) as [s2 e2] eqn:Ea. injection H as <- <-.
        destruct (after_server_quiet _ _ _ _ _ Ea) as [E Q]. split; [rewrite E; exact Hp|].
        rewrite no_plugin_app, Qe. cbn [forallb plugin_event negb andb]. exact Q.
    + injection H as <- <-. split; [exact Hp|]. rewrite no_plugin_app, Qe. reflexivity.
  - injection H as <- <-; split; [exact Hp|reflexivity].
Qed.

Lemma disabled_step c s m s' ev : disabled c -> pout s = Allow -> step c s m = (s', ev) ->
  pout s' = Allow /\ quiet ev.
Proof.
  intros Hd Hp H. unfold step in H. destruct (dead s); [injection H as <- <-; split; [exact Hp|reflexivity]|].
  destruct (held s); [eapply disabled_step_inner; eassumption|].
  assert (Ho: forall s2 e2, outer_rest c s m = (s2, e2) -> pout s2 = Allow /\ quiet e2).
  { intros s2 e2 Hr. unfold outer_rest, outer_checkout in Hr. rewrite Hp in Hr. destruct (pool_ok_of m).
    - destruct (step_inner c (set_held s true false) m) as [s3 e3] eqn:Es. injection Hr as <- <-.
      destruct (disabled_step_inner c (set_held s true false) _ _ _ Hd Hp Es) as [E Q]. split; [exact E|exact Q].
    - injection Hr as <- <-. split; [destruct (is_sync m); exact Hp|reflexivity]. }
  destruct m; cbn [step_outer] in H; try (apply Ho; exact H);
    try (match type of H with buffer_msg c s ?m0 = _ => apply (disabled_step_inner c s m0 s' ev Hd Hp); exact H end).
  rewrite (disabled_eff c parsed v Hd) in H. apply Ho. exact H.
Qed.

Lemma disabled_quiet_from c ops : disabled c -> forall s, pout s = Allow -> quiet (snd (run c s ops)).
Proof.
  intros Hd. induction ops as [|m r IH]; intros s Hp; [reflexivity|].
  cbn [run]. destruct (step c s m) as [s1 e1] eqn:Es. destruct (run c s1 r) as [s2 e2] eqn:Er.
  destruct (disabled_step _ _ _ _ _ Hd Hp Es) as [E Q]. cbn [snd]. rewrite no_plugin_app, Q.
  specialize (IH s1 E). rewrite Er in IH. exact IH.
Qed.

Lemma disabled_noop c ops : disabled c ->
  quiet (trace c ops) /\ (forall m, bad_msg c m = false) /\
  (forall s id p v tx, dead s = false -> pout s = Allow ->
     In (EvFwd [FMsg (MQ id p v true tx)]) (snd (step c s (MQ id p v true tx)))).
Proof.
  intros Hd. split; [apply disabled_quiet_from; [exact Hd|reflexivity]|]. split; [intros m; apply disabled_not_bad; exact Hd|].
  intros s id p v tx Hdead Hp. unfold step. rewrite Hdead.
  destruct (held s) eqn:Eh; cbn [step_outer step_inner]; rewrite (disabled_eff c p v Hd).
  - destruct (after_server c s tx). cbn. left. reflexivity.
  - unfold outer_rest, outer_checkout. rewrite Hp. cbn [pool_ok_of step_inner]. rewrite (disabled_eff c p v Hd).
    destruct (after_server c (set_held s true false) tx). cbn. right. left. reflexivity.
Qed.
