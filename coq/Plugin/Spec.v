(** C19 — specification side: what PostgreSQL does, independent of pgcat.

    (1) how PostgreSQL resolves an identifier to a relation name (scan.l, scansup.c);
    (2) how a frontend reads backend messages (protocol documentation, "Message
        Formats": RowDescription, DataRow, CommandComplete, ReadyForQuery);
    (3) what "reaches a server" means for a trace of the enforcement machine. *)
From Coq Require Import ZArith NArith List Bool Lia.
From PV Require Import Plugin.Model.
Import ListNotations.

(* ------------------------------------------------------------------------- *)
(** * 1. identifier resolution                                                 *)

(** scansup.c downcase_identifier: ASCII A-Z are always folded; a high-bit byte is
    folded (with the C library's tolower) ONLY in single-byte server encodings.  This
    is the rule for multi-byte server encodings (UTF8, the default): high-bit bytes are
    left alone.  scan.l: a quoted identifier is taken verbatim.  Both are then
    truncated by truncate_identifier: if len >= NAMEDATALEN then
    len = pg_mbcliplen(ident, len, NAMEDATALEN - 1). *)
Definition pg_fold (s : bytes) : bytes := map lower_ascii s.

(** wchar.c pg_utf_mblen: length of the character that starts with byte b *)
Definition clen (b : byte) : nat :=
  if (b <? 128)%N then 1
  else if ((192 <=? b) && (b <? 224))%N then 2
  else if ((224 <=? b) && (b <? 240))%N then 3
  else if ((240 <=? b) && (b <? 248))%N then 4
  else 1.

(** mbutils.c pg_encoding_mbcliplen (multi-byte branch):
      while (len > 0 && *mbstr) { l = mblen(mbstr); if (clen + l > limit) break;
                                  clen += l; if (clen == limit) break; len -= l; mbstr += l; }
    [walk fuel limit s] is the resulting clen for the remaining limit. *)
Fixpoint walk (fuel limit : nat) (s : bytes) : nat :=
  match fuel with
  | O => 0
  | S f =>
      match s with
      | [] => 0
      | c :: _ => let l := clen c in
                  if Nat.ltb limit l then 0
                  else if Nat.eqb limit l then l
                  else l + walk f (limit - l) (skipn l s)
      end
  end.

Definition pg_truncate (s : bytes) : bytes :=
  if Nat.leb (length s) 63 then s else firstn (walk 64 63 s) s.

Definition pg_resolve (i : ident) : bytes :=
  pg_truncate (if quoted i then text i else pg_fold (text i)).

Definition last_ident (nm : objname) : option ident :=
  match rev nm with [] => None | i :: _ => Some i end.

(** The relation name a (possibly schema- or catalog-qualified) object name denotes:
    the last component (the qualification selects a namespace, not another name). *)
Definition pg_table (nm : objname) : option bytes := option_map pg_resolve (last_ident nm).

(** Well-formed UTF-8 as far as character boundaries go (what a Rust [String] always is,
    and what PostgreSQL accepts in a UTF8 database): every character is a non-continuation
    byte followed by exactly [clen - 1] continuation bytes. *)
Inductive utf8 : bytes -> Prop :=
| utf8_nil : utf8 []
| utf8_char c conts rest :
    is_cont c = false -> length conts = clen c - 1 -> Forall (fun b => is_cont b = true) conts ->
    utf8 rest -> utf8 (c :: conts ++ rest).

(** a checker for it (sound: Proofs.utf8b_sound) *)
Fixpoint utf8b (fuel : nat) (s : bytes) : bool :=
  match s with
  | [] => true
  | c :: r =>
      match fuel with
      | O => false
      | S f => negb (is_cont c) && Nat.leb (clen c - 1) (length r)
               && forallb is_cont (firstn (clen c - 1) r) && utf8b f (skipn (clen c - 1) r)
      end
  end.

(* ------------------------------------------------------------------------- *)
(** * 2. reading backend messages                                              *)

Open Scope Z_scope.

Definition be_val (bs : bytes) : Z := fold_left (fun acc b => acc * 256 + Z.of_N b) bs 0.
Definition signed (bits : Z) (u : Z) : Z := if u <? 2 ^ (bits - 1) then u else u - 2 ^ bits.
Definition rd_i32 (a b c d : byte) : Z := signed 32 (be_val [a; b; c; d]).
Definition rd_i16 (a b : byte) : Z := signed 16 (be_val [a; b]).

(** one message: tag, Int32 length (including itself), body *)
Definition take_frame (s : bytes) : option (byte * bytes * bytes) :=
  match s with
  | tag :: a :: b :: c :: d :: r =>
      let len := rd_i32 a b c d in
      if (4 <=? len) && (len - 4 <=? zlen r)
      then Some (tag, firstn (Z.to_nat (len - 4)) r, skipn (Z.to_nat (len - 4)) r)
      else None
  | _ => None
  end.

Fixpoint frames (fuel : nat) (s : bytes) : option (list (byte * bytes)) :=
  match s with
  | [] => Some []
  | _ => match fuel with
         | O => None
         | S f => match take_frame s with
                  | Some (t, b, r) => option_map (cons (t, b)) (frames f r)
                  | None => None
                  end
         end
  end.

(** C string: bytes up to the first NUL *)
Fixpoint cstr (s : bytes) : option (bytes * bytes) :=
  match s with
  | [] => None
  | c :: r => if (c =? 0)%N then Some ([], r)
              else match cstr r with Some (a, rest) => Some (c :: a, rest) | None => None end
  end.

Record column := mkCol { c_name : bytes; c_table : Z; c_attnum : Z; c_type : Z; c_size : Z;
                         c_typmod : Z; c_format : Z }.

Fixpoint rd_cols (n : nat) (s : bytes) : option (list column) :=
  match n with
  | O => match s with [] => Some [] | _ => None end
  | S k =>
      match cstr s with
      | Some (name, t1 :: t2 :: t3 :: t4 :: a1 :: a2 :: o1 :: o2 :: o3 :: o4 :: z1 :: z2 ::
                    m1 :: m2 :: m3 :: m4 :: f1 :: f2 :: rest) =>
          match rd_cols k rest with
          | Some cs => Some (mkCol name (rd_i32 t1 t2 t3 t4) (rd_i16 a1 a2) (rd_i32 o1 o2 o3 o4)
                                   (rd_i16 z1 z2) (rd_i32 m1 m2 m3 m4) (rd_i16 f1 f2) :: cs)
          | None => None
          end
      | _ => None
      end
  end.

Fixpoint rd_cells (n : nat) (s : bytes) : option (list (option bytes)) :=
  match n with
  | O => match s with [] => Some [] | _ => None end
  | S k =>
      match s with
      | a :: b :: c :: d :: r =>
          let len := rd_i32 a b c d in
          if len =? -1 then option_map (cons None) (rd_cells k r)
          else if (0 <=? len) && (len <=? zlen r)
               then option_map (cons (Some (firstn (Z.to_nat len) r))) (rd_cells k (skipn (Z.to_nat len) r))
               else None
      | _ => None
      end
  end.

Inductive bmsg :=
| RowDescription (cols : list column)
| DataRow (cells : list (option bytes))
| CommandComplete (tag : bytes)
| ReadyForQuery (status : byte).

Definition rd_msg (f : byte * bytes) : option bmsg :=
  let '(tag, body) := f in
  if (tag =? 84)%N then                                    (* 'T' *)
    match body with
    | a :: b :: r => if 0 <=? rd_i16 a b then option_map RowDescription (rd_cols (Z.to_nat (rd_i16 a b)) r) else None
    | _ => None
    end
  else if (tag =? 68)%N then                               (* 'D' *)
    match body with
    | a :: b :: r => if 0 <=? rd_i16 a b then option_map DataRow (rd_cells (Z.to_nat (rd_i16 a b)) r) else None
    | _ => None
    end
  else if (tag =? 67)%N then                               (* 'C' *)
    match cstr body with Some (t, []) => Some (CommandComplete t) | _ => None end
  else if (tag =? 90)%N then                               (* 'Z' *)
    match body with [st] => Some (ReadyForQuery st) | _ => None end
  else None.

(** what a frontend reads from a byte stream *)
Definition read_reply (s : bytes) : option (list bmsg) :=
  match frames (length s) s with
  | Some fs => map_opt rd_msg fs
  | None => None
  end.

(** what the configuration says the reply to ONE matched rule is *)
Definition expected_col (c : bytes * bytes) : column :=
  mkCol (fst c) 0 0 (fst (dtype (snd c))) (snd (dtype (snd c))) (-1) 0.

Definition expected_rule (user db : bytes) (r : rule) : list bmsg :=
  RowDescription (map expected_col (map schema_col (r_schema r)))
  :: map DataRow (rule_rows user db r) ++ [CommandComplete s_select].

(** a rule whose encoding is readable: every schema entry has name and type, names are
    C strings (no NUL), and every length the wire carries fits its field *)
Definition no_nul (s : bytes) : bool := forallb (fun b => negb (b =? 0)%N) s.
Definition wf_byte (b : byte) : bool := (b <? 256)%N.

Definition wf_rule (user db : bytes) (r : rule) : Prop :=
  (let cols := map schema_col (r_schema r) in
   zlen cols < 32768 /\
   Forall (fun c => no_nul (fst c) = true) cols /\
   zlen (concat (map col_desc cols)) < 2147483000) /\
  Forall (fun row => zlen row < 32768 /\
                     zlen (concat (map cell_enc row)) < 2147483000) (rule_rows user db r).

Close Scope Z_scope.

(* ------------------------------------------------------------------------- *)
(** * 3. what reaches a server                                                 *)

Fixpoint forwarded (tr : list event) : list fitem :=
  match tr with
  | [] => []
  | EvFwd items :: r => items ++ forwarded r
  | _ :: r => forwarded r
  end.

Definition plugin_event (e : event) : bool :=
  match e with EvErr (EPlugin _) | EvIntercept _ => true | _ => false end.

Definition fitem_id (it : fitem) : nat := match it with FMsg m | FParse m => msg_id m end.
