(** C07 — proofs about the ban-list model: every operation sequence, every candidate order,
    every outcome function, every clock reading. *)
From Coq Require Import ZArith List Bool Arith Lia.
From PV Require Import Ban.Model.
Import ListNotations.
Open Scope Z_scope.

(** * Association-list facts *)

Lemma find_ban_In : forall a bl v, find_ban a bl = Some v -> In a (keys bl).
Proof.
  induction bl as [|[b w] r IH]; cbn; intros v H; [discriminate|].
  destruct (addr_eq_dec b a); [left; assumption|right; eauto].
Qed.

Lemma find_ban_None : forall a bl, find_ban a bl = None <-> ~ In a (keys bl).
Proof.
  induction bl as [|[b w] r IH]; cbn.
  - split; auto.
  - destruct (addr_eq_dec b a) as [E|N].
    + split; [discriminate|]. intros H. exfalso. apply H. left. exact E.
    + rewrite IH. split; intros H; [intros [E|I]; [contradiction|auto]|intros I; apply H; right; exact I].
Qed.

Lemma is_banned_In : forall a bl, is_banned a bl = true <-> In a (keys bl).
Proof.
  intros a bl. unfold is_banned. destruct (find_ban a bl) eqn:E.
  - split; auto. intros _. eapply find_ban_In; eauto.
  - apply find_ban_None in E. split; [discriminate|contradiction].
Qed.

Lemma is_banned_false : forall a bl, is_banned a bl = false <-> ~ In a (keys bl).
Proof.
  intros a bl. rewrite <- is_banned_In. destruct (is_banned a bl); split; congruence.
Qed.

Lemma find_filter : forall (p : addr -> bool) x bl,
  find_ban x (filter (fun e => p (fst e)) bl) = if p x then find_ban x bl else None.
Proof.
  induction bl as [|[b w] r IH]; cbn.
  - destruct (p x); reflexivity.
  - destruct (p b) eqn:Pb; cbn.
    + destruct (addr_eq_dec b x) as [E|N]; [subst; rewrite Pb; reflexivity|exact IH].
    + destruct (addr_eq_dec b x) as [E|N]; [subst; rewrite Pb in *; exact IH|exact IH].
Qed.

Lemma keys_filter : forall (p : addr -> bool) x bl,
  In x (keys (filter (fun e => p (fst e)) bl)) <-> In x (keys bl) /\ p x = true.
Proof.
  intros p x bl. unfold keys. rewrite in_map_iff. split.
  - intros [[b w] [E I]]. cbn in E. subst. apply filter_In in I. destruct I as [I P]. cbn in P.
    split; [apply in_map_iff; exists (x, w); auto|exact P].
  - intros [I P]. apply in_map_iff in I. destruct I as [[b w] [E I]]. cbn in E. subst.
    exists (x, w). split; [reflexivity|]. apply filter_In. auto.
Qed.

Lemma NoDup_keys_filter : forall (f : entry -> bool) bl, NoDup (keys bl) -> NoDup (keys (filter f bl)).
Proof.
  induction bl as [|[b w] r IH]; cbn; intros H; [constructor|].
  inversion H; subst. destruct (f (b, w)); cbn; [constructor|]; auto.
  intros I. apply H2. unfold keys in *. apply in_map_iff in I. destruct I as [e [E I]].
  apply filter_In in I. apply in_map_iff. exists e. tauto.
Qed.

Definition not_a (a : addr) : addr -> bool := fun b => if addr_eq_dec b a then false else true.
Definition not_sh (sh : nat) : addr -> bool := fun b => negb (Nat.eqb (a_shard b) sh).
Definition is_sh (sh : nat) : addr -> bool := fun b => Nat.eqb (a_shard b) sh.

Lemma remove_ban_eq : forall a bl, remove_ban a bl = filter (fun e => not_a a (fst e)) bl.
Proof. reflexivity. Qed.
Lemma clear_shard_eq : forall sh bl, clear_shard bl sh = filter (fun e => not_sh sh (fst e)) bl.
Proof. reflexivity. Qed.
Lemma shard_bl_eq : forall sh bl, shard_bl bl sh = filter (fun e => is_sh sh (fst e)) bl.
Proof. reflexivity. Qed.

Lemma find_remove : forall a x bl,
  find_ban x (remove_ban a bl) = if addr_eq_dec x a then None else find_ban x bl.
Proof.
  intros. rewrite remove_ban_eq, find_filter. unfold not_a. destruct (addr_eq_dec x a); reflexivity.
Qed.

Lemma keys_remove : forall a x bl, In x (keys (remove_ban a bl)) <-> In x (keys bl) /\ x <> a.
Proof.
  intros. rewrite remove_ban_eq, keys_filter. unfold not_a.
  destruct (addr_eq_dec x a); split; intros [H1 H2]; split; auto; try discriminate; contradiction.
Qed.

Lemma find_clear : forall sh x bl,
  find_ban x (clear_shard bl sh) = if Nat.eqb (a_shard x) sh then None else find_ban x bl.
Proof.
  intros. rewrite clear_shard_eq, find_filter. unfold not_sh. destruct (Nat.eqb (a_shard x) sh); reflexivity.
Qed.

Lemma keys_clear : forall sh x bl, In x (keys (clear_shard bl sh)) <-> In x (keys bl) /\ a_shard x <> sh.
Proof.
  intros. rewrite clear_shard_eq, keys_filter. unfold not_sh.
  destruct (Nat.eqb_spec (a_shard x) sh); cbn; split; intros [H1 H2]; split; auto; try discriminate; contradiction.
Qed.

Lemma find_insert : forall a v x bl,
  find_ban x (insert_ban a v bl) = if addr_eq_dec a x then Some v else find_ban x bl.
Proof.
  intros. unfold insert_ban. cbn. destruct (addr_eq_dec a x) as [E|N]; [reflexivity|].
  rewrite find_remove. destruct (addr_eq_dec x a); [congruence|reflexivity].
Qed.

Lemma keys_insert : forall a v x bl, In x (keys (insert_ban a v bl)) <-> x = a \/ In x (keys bl).
Proof.
  intros. unfold insert_ban. cbn. rewrite keys_remove. split.
  - intros [E|[I N]]; auto.
  - intros [E|I]; [left; auto|]. destruct (addr_eq_dec a x); [left; assumption|right; split; congruence].
Qed.

(** * The two invariants *)

(** Holds after ANY operation sequence. *)
Definition Inv (bl : banlist) : Prop :=
  NoDup (keys bl) /\ forall a, In a (keys bl) -> a_role a = Replica.

(** Holds after well-formed sequences: only addresses of the pool are banned. *)
Definition Sub (c : cfg) (bl : banlist) : Prop := forall a, In a (keys bl) -> In a (servers c).

Lemma Inv_nil : Inv [].
Proof. split; [constructor|intros a []]. Qed.

Lemma Inv_filter : forall f bl, Inv bl -> Inv (filter f bl).
Proof.
  intros f bl [N R]. split; [apply NoDup_keys_filter; exact N|].
  intros a I. apply R. unfold keys in *. apply in_map_iff in I. destruct I as [e [E I]].
  apply filter_In in I. apply in_map_iff. exists e. tauto.
Qed.

Lemma Sub_filter : forall c f bl, Sub c bl -> Sub c (filter f bl).
Proof.
  intros c f bl S a I. apply S. unfold keys in *. apply in_map_iff in I. destruct I as [e [E I]].
  apply filter_In in I. apply in_map_iff. exists e. tauto.
Qed.

Lemma Inv_insert : forall a v bl, a_role a = Replica -> Inv bl -> Inv (insert_ban a v bl).
Proof.
  intros a v bl Ra [N R]. split.
  - unfold insert_ban. cbn. constructor.
    + rewrite keys_remove. intros [_ H]. congruence.
    + apply NoDup_keys_filter. exact N.
  - intros x I. apply keys_insert in I. destruct I as [E|I]; [subst; exact Ra|auto].
Qed.

Lemma find_ban_role : forall a r now x bl,
  find_ban x (ban a r now bl) =
    match a_role a with
    | Primary => find_ban x bl
    | Replica => if addr_eq_dec a x then Some (r, now) else find_ban x bl
    end.
Proof. intros. unfold ban. destruct (a_role a); [reflexivity|apply find_insert]. Qed.

Lemma keys_ban : forall a r now x bl, In x (keys (ban a r now bl)) -> x = a \/ In x (keys bl).
Proof. intros a r now x bl. unfold ban. destruct (a_role a); [auto|]. apply keys_insert. Qed.

Lemma keys_ban_keep : forall a r now x bl, In x (keys bl) -> In x (keys (ban a r now bl)).
Proof. intros a r now x bl I. unfold ban. destruct (a_role a); [auto|]. apply keys_insert. auto. Qed.

Lemma keys_ban_self : forall a r now bl, a_role a = Replica -> In a (keys (ban a r now bl)).
Proof. intros a r now bl R. unfold ban. rewrite R. apply keys_insert. auto. Qed.

Lemma Inv_ban : forall a r now bl, Inv bl -> Inv (ban a r now bl).
Proof. intros a r now bl I. unfold ban. destruct (a_role a) eqn:R; [exact I|apply Inv_insert; auto]. Qed.

Lemma Sub_ban : forall c a r now bl, In a (servers c) -> Sub c bl -> Sub c (ban a r now bl).
Proof. intros c a r now bl Ia S x I. apply keys_ban in I. destruct I as [E|I]; [subst; exact Ia|auto]. Qed.

(** * The count in [try_unban] is exact (question (a)) *)

Definition wfc (c : cfg) : Prop := NoDup (servers c).

Definition every_replica_banned (c : cfg) (bl : banlist) (sh : nat) : Prop :=
  forall r, In r (servers c) -> a_role r = Replica -> a_shard r = sh -> In r (keys bl).

Lemma keys_shard_bl : forall sh bl, keys (shard_bl bl sh) = filter (is_sh sh) (keys bl).
Proof.
  induction bl as [|[b w] r IH]; [reflexivity|].
  unfold shard_bl in *. cbn [filter fst keys map]. unfold is_sh at 1.
  destruct (Nat.eqb (a_shard b) sh); cbn [keys map fst]; unfold keys in IH; rewrite IH; reflexivity.
Qed.

Lemma NoDup_filter' : forall (A : Type) (f : A -> bool) l, NoDup l -> NoDup (filter f l).
Proof.
  induction l as [|x r IH]; cbn; intros H; [constructor|]. inversion H; subst.
  destruct (f x); [constructor|]; auto. intros I. apply filter_In in I. tauto.
Qed.

Lemma all_banned_spec : forall c bl sh, wfc c -> Inv bl -> Sub c bl ->
  (all_replicas_banned c bl sh = true <-> every_replica_banned c bl sh).
Proof.
  intros c bl sh W [N R] S. unfold all_replicas_banned, nreplicas, every_replica_banned.
  set (Rl := filter (fun a => is_replica a && Nat.eqb (a_shard a) sh) (servers c)).
  assert (LEN : length (shard_bl bl sh) = length (keys (shard_bl bl sh))) by (unfold keys; rewrite map_length; reflexivity).
  rewrite LEN, keys_shard_bl.
  set (L := filter (is_sh sh) (keys bl)).
  assert (NL : NoDup L) by (apply NoDup_filter'; exact N).
  assert (NR : NoDup Rl) by (apply NoDup_filter'; exact W).
  assert (LR : incl L Rl).
  { intros x I. apply filter_In in I. destruct I as [I P]. apply filter_In. split; [apply S; exact I|].
    unfold is_replica. rewrite (R x I). exact P. }
  assert (INR : forall r, In r Rl <-> In r (servers c) /\ a_role r = Replica /\ a_shard r = sh).
  { intros r. unfold Rl. rewrite filter_In, andb_true_iff, Nat.eqb_eq. unfold is_replica.
    destruct (a_role r); split; intros H; try tauto; try (destruct H as [? [? ?]]; try discriminate);
      try (destruct H as [? [? ?]]; discriminate); tauto. }
  split.
  - intros E r I1 I2 I3. apply Nat.eqb_eq in E.
    assert (RL : incl Rl L) by (apply NoDup_length_incl; [exact NL|lia|exact LR]).
    assert (I : In r L) by (apply RL, INR; auto). apply filter_In in I. tauto.
  - intros H. apply Nat.eqb_eq.
    assert (RL : incl Rl L).
    { intros r I. apply INR in I. destruct I as [I1 [I2 I3]]. apply filter_In. split; [auto|].
      unfold is_sh. apply Nat.eqb_eq. exact I3. }
    pose proof (NoDup_incl_length NL LR). pose proof (NoDup_incl_length NR RL). lia.
Qed.

(** * [try_unban], [gate], [contact] *)

Lemma expired_ext : forall c now bl bl' a, find_ban a bl' = find_ban a bl -> expired c now bl' a = expired c now bl a.
Proof. intros. unfold expired. rewrite H. reflexivity. Qed.

Lemma expired_none : forall c now bl a, find_ban a bl = None -> expired c now bl a = true.
Proof. intros. unfold expired. rewrite H. reflexivity. Qed.

(** What [gate] does, in one statement. *)
Lemma gate_spec : forall c now a bl,
  match gate c now a bl with
  | None => is_banned a bl = true /\ a_role a = Replica /\
            all_replicas_banned c bl (a_shard a) = false /\ expired c now bl a = false
  | Some (f, bl1) =>
      f = is_banned a bl /\
      ((bl1 = bl /\ (is_banned a bl = false \/ a_role a = Primary)) \/
       (is_banned a bl = true /\ a_role a = Replica /\
         ((all_replicas_banned c bl (a_shard a) = true /\ bl1 = clear_shard bl (a_shard a)) \/
          (all_replicas_banned c bl (a_shard a) = false /\ expired c now bl a = true /\ bl1 = remove_ban a bl))))
  end.
Proof.
  intros c now a bl. unfold gate. destruct (is_banned a bl) eqn:B.
  - unfold try_unban. destruct (a_role a) eqn:R.
    + split; [reflexivity|]. left. auto.
    + destruct (all_replicas_banned c bl (a_shard a)) eqn:AB.
      * split; [reflexivity|]. right. auto.
      * unfold is_banned in B. destruct (find_ban a bl) eqn:F; [|discriminate].
        destruct (expired c now bl a) eqn:E.
        -- split; [reflexivity|]. right. repeat split; auto.
        -- repeat split; auto.
  - split; [reflexivity|]. left. auto.
Qed.

(** [gate] only removes entries. *)
Lemma gate_find : forall c now a bl f bl1 x, gate c now a bl = Some (f, bl1) ->
  find_ban x bl1 = find_ban x bl \/ find_ban x bl1 = None.
Proof.
  intros c now a bl f bl1 x G. pose proof (gate_spec c now a bl) as S. rewrite G in S.
  destruct S as [_ [[E _]|[_ [_ [[_ E]|[_ [_ E]]]]]]]; subst.
  - left; reflexivity.
  - rewrite find_clear. destruct (Nat.eqb (a_shard x) (a_shard a)); auto.
  - rewrite find_remove. destruct (addr_eq_dec x a); auto.
Qed.

Lemma gate_keys : forall c now a bl f bl1 x, gate c now a bl = Some (f, bl1) -> In x (keys bl1) -> In x (keys bl).
Proof.
  intros c now a bl f bl1 x G I. destruct (gate_find c now a bl f bl1 x G) as [E|E].
  - apply is_banned_In. apply is_banned_In in I. unfold is_banned in *. rewrite <- E. exact I.
  - apply find_ban_None in E. contradiction.
Qed.

Lemma gate_self_out : forall c now a bl f bl1, Inv bl -> gate c now a bl = Some (f, bl1) -> ~ In a (keys bl1).
Proof.
  intros c now a bl f bl1 [_ R] G. pose proof (gate_spec c now a bl) as S. rewrite G in S.
  destruct S as [_ [[E [B|P]]|[_ [_ [[_ E]|[_ [_ E]]]]]]]; subst.
  - apply is_banned_false. exact B.
  - intros I. specialize (R a I). congruence.
  - rewrite keys_clear. intros [_ H]. congruence.
  - rewrite keys_remove. intros [_ H]. congruence.
Qed.

(** A banned, unexpired address passes the gate only through the all-replicas-banned reset. *)
Lemma gate_banned_unexpired : forall c now a bl f bl1, Inv bl -> gate c now a bl = Some (f, bl1) ->
  is_banned a bl = true -> expired c now bl a = false -> all_replicas_banned c bl (a_shard a) = true.
Proof.
  intros c now a bl f bl1 [_ R] G B E. pose proof (gate_spec c now a bl) as S. rewrite G in S.
  destruct S as [_ [[_ [B'|P]]|[_ [_ [[AB _]|[_ [E' _]]]]]]]; try congruence.
  apply is_banned_In in B. specialize (R a B). congruence.
Qed.

(** Another address loses its ban at the gate of [a] only through the reset of their shard. *)
Lemma gate_drops : forall c now a bl f bl1 x, gate c now a bl = Some (f, bl1) ->
  In x (keys bl) -> ~ In x (keys bl1) -> x <> a ->
  all_replicas_banned c bl (a_shard a) = true /\ a_shard x = a_shard a.
Proof.
  intros c now a bl f bl1 x G I NI NE. pose proof (gate_spec c now a bl) as S. rewrite G in S.
  destruct S as [_ [[E _]|[_ [_ [[AB E]|[_ [_ E]]]]]]]; subst.
  - contradiction.
  - split; [exact AB|]. rewrite keys_clear in NI. destruct (Nat.eq_dec (a_shard x) (a_shard a)); [auto|].
    exfalso. apply NI. auto.
  - rewrite keys_remove in NI. exfalso. apply NI. auto.
Qed.

Lemma Inv_gate : forall c now a bl f bl1, Inv bl -> gate c now a bl = Some (f, bl1) -> Inv bl1.
Proof.
  intros c now a bl f bl1 I G. pose proof (gate_spec c now a bl) as S. rewrite G in S.
  destruct S as [_ [[E _]|[_ [_ [[_ E]|[_ [_ E]]]]]]]; subst; auto; apply Inv_filter; exact I.
Qed.

Lemma Sub_gate : forall c now a bl f bl1, Sub c bl -> gate c now a bl = Some (f, bl1) -> Sub c bl1.
Proof. intros c now a bl f bl1 S G x I. apply S. eapply gate_keys; eauto. Qed.

Definition good (o : outcome) : bool := match o with Conn _ HcOk => true | _ => false end.

(** The checkout did not fail and, if the connection was not fresh, the health check passed. *)
Definition passes (o : outcome) : Prop :=
  match o with ConnFail => False | Conn false h => h = HcOk | Conn true _ => True end.

(** The outcome makes a contact fail when the check is run. *)
Definition failing (o : outcome) : Prop :=
  match o with ConnFail => True | Conn _ h => h <> HcOk end.

Lemma contact_spec : forall now outs a f bl1,
  match contact now outs a f bl1 with
  | Skip _ => False
  | Done b => b = bl1 /\ passes (outs a) /\ (f = true -> good (outs a) = true)
  | Fail b => failing (outs a) /\ exists r, b = ban a r now bl1 /\ (r = FailedCheckout \/ r = FailedHealthCheck)
  end.
Proof.
  intros. unfold contact. destruct (outs a) as [|fresh h]; cbn.
  - split; [exact I|]. eexists; split; [reflexivity|auto].
  - destruct f, fresh, h; cbn; repeat split; auto; try discriminate;
      try (eexists; split; [reflexivity|auto]).
Qed.

Lemma contact_good : forall now outs a f bl1, good (outs a) = true -> contact now outs a f bl1 = Done bl1.
Proof.
  intros. unfold contact. destruct (outs a) as [|fresh h]; [discriminate|]. destruct h; try discriminate.
  destruct (f || negb fresh); reflexivity.
Qed.

Definition vbl (v : vres) : banlist := match v with Skip b | Fail b | Done b => b end.

Lemma Inv_visit : forall c tc bc outs a bl, Inv bl -> Inv (vbl (visit c tc bc outs a bl)).
Proof.
  intros c tc bc outs a bl I. unfold visit. destruct (gate c (tc a) a bl) as [[f bl1]|] eqn:G; [|exact I].
  pose proof (Inv_gate _ _ _ _ _ _ I G) as I1. pose proof (contact_spec (bc a) outs a f bl1) as S.
  destruct (contact (bc a) outs a f bl1); cbn; [contradiction| |].
  - destruct S as [_ [r [E _]]]. subst. apply Inv_ban. exact I1.
  - destruct S as [E _]. subst. exact I1.
Qed.

Lemma Sub_visit : forall c tc bc outs a bl, In a (servers c) -> Sub c bl -> Sub c (vbl (visit c tc bc outs a bl)).
Proof.
  intros c tc bc outs a bl Ia S. unfold visit. destruct (gate c (tc a) a bl) as [[f bl1]|] eqn:G; [|exact S].
  pose proof (Sub_gate _ _ _ _ _ _ S G) as S1. pose proof (contact_spec (bc a) outs a f bl1) as C.
  destruct (contact (bc a) outs a f bl1); cbn; [contradiction| |].
  - destruct C as [_ [r [E _]]]. subst. apply Sub_ban; auto.
  - destruct C as [E _]. subst. exact S1.
Qed.

(** * The loop *)

Lemma get_loop_Inv : forall c tc bc outs todo bl, Inv bl -> Inv (snd (get_loop c tc bc outs todo bl)).
Proof.
  induction todo as [|a rest IH]; intros bl I; cbn; [exact I|].
  pose proof (Inv_visit c tc bc outs a bl I) as IV.
  destruct (visit c tc bc outs a bl) as [b|b|b]; cbn in IV.
  - apply IH; exact IV.
  - specialize (IH b IV). destruct (get_loop c tc bc outs rest b) as [[r ct] b2]. exact IH.
  - exact IV.
Qed.

Lemma get_loop_Sub : forall c tc bc outs todo bl, (forall a, In a todo -> In a (servers c)) -> Sub c bl ->
  Sub c (snd (get_loop c tc bc outs todo bl)).
Proof.
  induction todo as [|a rest IH]; intros bl T S; cbn; [exact S|].
  assert (SV : Sub c (vbl (visit c tc bc outs a bl))) by (apply Sub_visit; [apply T; left; reflexivity|exact S]).
  assert (T' : forall x, In x rest -> In x (servers c)) by (intros x I; apply T; right; exact I).
  destruct (visit c tc bc outs a bl) as [b|b|b]; cbn in SV.
  - apply IH; auto.
  - specialize (IH b T' SV). destruct (get_loop c tc bc outs rest b) as [[r ct] b2]. exact IH.
  - exact SV.
Qed.

(** Contacted addresses come from [todo], in order; the returned address is the last contacted. *)
Lemma get_loop_ct : forall c tc bc outs todo bl res ct bl',
  get_loop c tc bc outs todo bl = (res, ct, bl') ->
  (forall x, In x ct -> In x todo) /\ (forall y, res = Ok y -> In y ct) /\ res <> ErrInvalidShard.
Proof.
  induction todo as [|a rest IH]; intros bl res ct bl' H; cbn in H.
  - inversion H; subst. repeat split; [intros x []|discriminate|discriminate].
  - destruct (visit c tc bc outs a bl) as [b|b|b].
    + destruct (IH _ _ _ _ H) as [H1 [H2 H3]]. repeat split; auto. intros x I. right. auto.
    + destruct (get_loop c tc bc outs rest b) as [[r ct'] b2] eqn:E. inversion H; subst.
      destruct (IH _ _ _ _ E) as [H1 [H2 H3]]. repeat split; auto.
      * intros x [X|I]; [left; exact X|right; auto].
      * intros y Y. right. auto.
    + inversion H; subst. repeat split; [intros x [X|[]]; left; exact X|intros y Y; inversion Y; left; reflexivity|discriminate].
Qed.

(** Evidence that a whole shard is down: every replica of the shard was banned before this [get]
    or was contacted by it and not handed out. *)
Definition shard_down (c : cfg) (sh : nat) (bl : banlist) (ct : list addr) (res : gres) : Prop :=
  forall r, In r (servers c) -> a_role r = Replica -> a_shard r = sh ->
            In r (keys bl) \/ (In r ct /\ res <> Ok r).

Lemma shard_down_of_all : forall c sh bl ct res, wfc c -> Inv bl -> Sub c bl ->
  all_replicas_banned c bl sh = true -> shard_down c sh bl ct res.
Proof.
  intros c sh bl ct res W I S AB r I1 I2 I3. left. apply (proj1 (all_banned_spec c bl sh W I S) AB r); auto.
Qed.

Lemma shard_down_step : forall c sh bl b y ct res,
  (forall r, In r (keys b) -> r = y \/ In r (keys bl)) -> res <> Ok y ->
  shard_down c sh b ct res -> shard_down c sh bl (y :: ct) res.
Proof.
  intros c sh bl b y ct res K NY D r I1 I2 I3. destruct (D r I1 I2 I3) as [I|[I N]].
  - destruct (K r I) as [E|I']; [subst; right; split; [left; reflexivity|exact NY]|left; exact I'].
  - right. split; [right; exact I|exact N].
Qed.

Section Loop.
  Variable c : cfg.
  Variables tc bc : addr -> Z.
  Variable outs : addr -> outcome.
  Hypothesis W : wfc c.

  (** c07_banned_bypassed, on the loop *)
  Lemma loop_bypass : forall todo bl res ct bl', NoDup todo -> Inv bl -> Sub c bl ->
    (forall a, In a todo -> In a (servers c)) ->
    get_loop c tc bc outs todo bl = (res, ct, bl') ->
    forall a, In a ct -> is_banned a bl = true -> expired c (tc a) bl a = false ->
    shard_down c (a_shard a) bl ct res.
  Proof.
    induction todo as [|x rest IH]; intros bl res ct bl' ND I S T H a Ia B E; cbn in H.
    - inversion H; subst. destruct Ia.
    - inversion ND as [|? ? NX ND']; subst.
      assert (T' : forall y, In y rest -> In y (servers c)) by (intros y Y; apply T; right; exact Y).
      unfold visit in H. destruct (gate c (tc x) x bl) as [[f bl1]|] eqn:G.
      + pose proof (contact_spec (bc x) outs x f bl1) as C.
        assert (SELF : a = x -> shard_down c (a_shard a) bl ct res).
        { intros ->. apply shard_down_of_all; auto. eapply gate_banned_unexpired; eauto. }
        destruct (contact (bc x) outs x f bl1) as [b|b|b]; [contradiction| |].
        * destruct C as [_ [r [Eb _]]].
          destruct (get_loop c tc bc outs rest b) as [[r' ct'] b2] eqn:L. inversion H; subst res ct bl'. clear H.
          destruct (addr_eq_dec a x) as [AX|AX]; [auto|].
          destruct Ia as [Ia|Ia]; [congruence|].
          destruct (get_loop_ct _ _ _ _ _ _ _ _ _ L) as [CT [RK _]].
          assert (NOKX : r' <> Ok x) by (intros X; apply NX, CT, RK; exact X).
          assert (I1 : Inv bl1) by (eapply Inv_gate; eauto).
          assert (S1 : Sub c bl1) by (eapply Sub_gate; eauto).
          assert (Ib : Inv b) by (subst b; apply Inv_ban; exact I1).
          assert (Sb : Sub c b) by (subst b; apply Sub_ban; [apply T; left; reflexivity|exact S1]).
          assert (Fb : find_ban a b = find_ban a bl1).
          { subst b. rewrite find_ban_role. destruct (a_role x); [reflexivity|].
            destruct (addr_eq_dec x a); [congruence|reflexivity]. }
          destruct (gate_find _ _ _ _ _ _ a G) as [F1|F1].
          -- (* the entry of a is untouched: induction *)
             assert (Bb : is_banned a b = true) by (unfold is_banned in *; rewrite Fb, F1; exact B).
             assert (Eb' : expired c (tc a) b a = false) by (rewrite (expired_ext c (tc a) bl b a); [exact E|congruence]).
             specialize (IH b r' ct' b2 ND' Ib Sb T' L a Ia Bb Eb').
             eapply shard_down_step; [|exact NOKX|exact IH].
             intros q Q. subst b. apply keys_ban in Q. destruct Q as [Q|Q]; [left; exact Q|right; eapply gate_keys; eauto].
          -- (* a was cleared at the gate of x: the shard was all banned *)
             assert (Ia0 : In a (keys bl)) by (apply is_banned_In; exact B).
             assert (NI : ~ In a (keys bl1)) by (apply find_ban_None; exact F1).
             destruct (gate_drops _ _ _ _ _ _ a G Ia0 NI AX) as [AB SH].
             rewrite SH. apply shard_down_of_all; auto.
        * destruct C as [Eb _]. inversion H; subst. destruct Ia as [Ia|[]]. auto.
      + (* skipped *)
        eapply IH; eauto.
  Qed.

  (** A banned address that is not popped any more stays banned, unless its shard is reset. *)
  Lemma loop_keeps : forall todo bl res ct bl', NoDup todo -> Inv bl -> Sub c bl ->
    (forall a, In a todo -> In a (servers c)) ->
    get_loop c tc bc outs todo bl = (res, ct, bl') ->
    forall x, In x (keys bl) -> ~ In x todo -> In x (keys bl') \/ shard_down c (a_shard x) bl ct res.
  Proof.
    induction todo as [|y rest IH]; intros bl res ct bl' ND I S T H x Ix NX; cbn in H.
    - inversion H; subst. left; exact Ix.
    - inversion ND as [|? ? NY ND']; subst.
      assert (T' : forall z, In z rest -> In z (servers c)) by (intros z Z; apply T; right; exact Z).
      assert (XY : x <> y) by (intros ->; apply NX; left; reflexivity).
      assert (NX' : ~ In x rest) by (intros Z; apply NX; right; exact Z).
      unfold visit in H. destruct (gate c (tc y) y bl) as [[f bl1]|] eqn:G.
      + pose proof (contact_spec (bc y) outs y f bl1) as C.
        assert (I1 : Inv bl1) by (eapply Inv_gate; eauto).
        assert (S1 : Sub c bl1) by (eapply Sub_gate; eauto).
        destruct (in_dec addr_eq_dec x (keys bl1)) as [X1|X1].
        * destruct (contact (bc y) outs y f bl1) as [b|b|b]; [contradiction| |].
          -- destruct C as [_ [r [Eb _]]].
             destruct (get_loop c tc bc outs rest b) as [[r' ct'] b2] eqn:L. inversion H; subst res ct bl'. clear H.
             destruct (get_loop_ct _ _ _ _ _ _ _ _ _ L) as [CT [RK _]].
             assert (Ib : Inv b) by (subst b; apply Inv_ban; exact I1).
             assert (Sb : Sub c b) by (subst b; apply Sub_ban; [apply T; left; reflexivity|exact S1]).
             assert (Xb : In x (keys b)) by (subst b; apply keys_ban_keep; exact X1).
             destruct (IH b r' ct' b2 ND' Ib Sb T' L x Xb NX') as [K|D]; [left; exact K|right].
             eapply shard_down_step; [| |exact D].
             ++ intros q Q. subst b. apply keys_ban in Q. destruct Q as [Q|Q]; [left; exact Q|right; eapply gate_keys; eauto].
             ++ intros OK. apply NY, CT, RK. exact OK.
          -- destruct C as [Eb _]. inversion H; subst. left. exact X1.
        * right. destruct (gate_drops _ _ _ _ _ _ x G Ix X1 XY) as [AB SH]. rewrite SH.
          apply shard_down_of_all; auto.
      + eapply IH; eauto.
  Qed.
End Loop.

Section Loop2.
  Variable c : cfg.
  Variables tc bc : addr -> Z.
  Variable outs : addr -> outcome.
  Hypothesis W : wfc c.

  (** c07_failover_silent (i), on the loop: a contacted replica that is not handed out ends up
      banned, unless its shard was reset afterwards. *)
  Lemma loop_failed : forall todo bl res ct bl', NoDup todo -> Inv bl -> Sub c bl ->
    (forall a, In a todo -> In a (servers c)) ->
    get_loop c tc bc outs todo bl = (res, ct, bl') ->
    forall a, In a ct -> res <> Ok a -> a_role a = Replica ->
    In a (keys bl') \/ shard_down c (a_shard a) bl ct res.
  Proof.
    induction todo as [|x rest IH]; intros bl res ct bl' ND I S T H a Ia NOK RA; cbn in H.
    - inversion H; subst. destruct Ia.
    - inversion ND as [|? ? NX ND']; subst.
      assert (T' : forall z, In z rest -> In z (servers c)) by (intros z Z; apply T; right; exact Z).
      unfold visit in H. destruct (gate c (tc x) x bl) as [[f bl1]|] eqn:G.
      + pose proof (contact_spec (bc x) outs x f bl1) as C.
        assert (I1 : Inv bl1) by (eapply Inv_gate; eauto).
        assert (S1 : Sub c bl1) by (eapply Sub_gate; eauto).
        destruct (contact (bc x) outs x f bl1) as [b|b|b]; [contradiction| |].
        * destruct C as [_ [r [Eb _]]].
          destruct (get_loop c tc bc outs rest b) as [[r' ct'] b2] eqn:L. inversion H; subst res ct bl'. clear H.
          destruct (get_loop_ct _ _ _ _ _ _ _ _ _ L) as [CT [RK _]].
          assert (Ib : Inv b) by (subst b; apply Inv_ban; exact I1).
          assert (Sb : Sub c b) by (subst b; apply Sub_ban; [apply T; left; reflexivity|exact S1]).
          assert (KB : forall q, In q (keys b) -> q = x \/ In q (keys bl)).
          { intros q Q. subst b. apply keys_ban in Q. destruct Q as [Q|Q]; [left; exact Q|right; eapply gate_keys; eauto]. }
          assert (NOKX : r' <> Ok x) by (intros X; apply NX, CT, RK; exact X).
          destruct (addr_eq_dec a x) as [AX|AX].
          -- subst a. assert (Xb : In x (keys b)) by (subst b; apply keys_ban_self; exact RA).
             destruct (loop_keeps c tc bc outs W rest b r' ct' b2 ND' Ib Sb T' L x Xb NX) as [K|D]; [left; exact K|right].
             eapply shard_down_step; eauto.
          -- destruct Ia as [Ia|Ia]; [congruence|].
             destruct (IH b r' ct' b2 ND' Ib Sb T' L a Ia NOK RA) as [K|D]; [left; exact K|right].
             eapply shard_down_step; eauto.
        * destruct C as [Eb _]. inversion H; subst. destruct Ia as [Ia|[]]. congruence.
      + eapply IH; eauto.
  Qed.

  (** What a contacted address that was not handed out looked like, and vice versa. *)
  Lemma loop_outcomes : forall todo bl res ct bl',
    get_loop c tc bc outs todo bl = (res, ct, bl') ->
    (forall a, res = Ok a -> passes (outs a)) /\
    (forall a, NoDup todo -> In a ct -> res <> Ok a -> failing (outs a)).
  Proof.
    induction todo as [|x rest IH]; intros bl res ct bl' H; cbn in H.
    - inversion H; subst. split; [discriminate|intros a _ []].
    - unfold visit in H. destruct (gate c (tc x) x bl) as [[f bl1]|] eqn:G.
      + pose proof (contact_spec (bc x) outs x f bl1) as C.
        destruct (contact (bc x) outs x f bl1) as [b|b|b]; [contradiction| |].
        * destruct C as [F _].
          destruct (get_loop c tc bc outs rest b) as [[r' ct'] b2] eqn:L. inversion H; subst res ct bl'. clear H.
          destruct (IH _ _ _ _ L) as [H1 H2]. split; [exact H1|].
          intros a ND [Ia|Ia] NOK; [subst; exact F|]. inversion ND; subst. apply H2; auto.
        * destruct C as [_ [P _]]. inversion H; subst. split.
          -- intros a E. inversion E; subst. exact P.
          -- intros a _ [Ia|[]] NOK. congruence.
      + destruct (IH _ _ _ _ H) as [H1 H2]. split; [exact H1|]. intros a ND. inversion ND; subst. apply H2; auto.
  Qed.

  (** c07_failover_silent (ii) / c07_refused_only_if_none_usable, on the loop. *)
  Definition usable (bl : banlist) (b : addr) : Prop :=
    good (outs b) = true /\ (expired c (tc b) bl b = true \/ a_role b = Primary).

  Lemma gate_usable : forall x bl, expired c (tc x) bl x = true \/ a_role x = Primary -> gate c (tc x) x bl <> None.
  Proof.
    intros x bl U G. pose proof (gate_spec c (tc x) x bl) as S. rewrite G in S.
    destruct S as [_ [R [_ E]]]. destruct U; congruence.
  Qed.

  Lemma loop_progress : forall todo bl res ct bl',
    get_loop c tc bc outs todo bl = (res, ct, bl') ->
    (exists b, In b todo /\ usable bl b) -> exists b', res = Ok b'.
  Proof.
    induction todo as [|x rest IH]; intros bl res ct bl' H [b [Ib [Gb Ub]]]; cbn in H; [destruct Ib|].
    unfold visit in H. destruct (addr_eq_dec b x) as [BX|BX].
    - subst b. destruct (gate c (tc x) x bl) as [[f bl1]|] eqn:G; [|exfalso; eapply gate_usable; eauto].
      rewrite (contact_good (bc x) outs x f bl1 Gb) in H. inversion H; subst. eauto.
    - destruct Ib as [Ib|Ib]; [congruence|].
      destruct (gate c (tc x) x bl) as [[f bl1]|] eqn:G.
      + pose proof (contact_spec (bc x) outs x f bl1) as C.
        destruct (contact (bc x) outs x f bl1) as [b0|b0|b0]; [contradiction| |].
        * destruct C as [_ [r [Eb _]]].
          destruct (get_loop c tc bc outs rest b0) as [[r' ct'] b2] eqn:L. inversion H; subst res ct bl'. clear H.
          eapply IH; [exact L|]. exists b. split; [exact Ib|]. split; [exact Gb|].
          destruct Ub as [Ub|Ub]; [left|right; exact Ub].
          assert (F0 : find_ban b b0 = find_ban b bl1).
          { subst b0. rewrite find_ban_role. destruct (a_role x); [reflexivity|].
            destruct (addr_eq_dec x b); [congruence|reflexivity]. }
          destruct (gate_find _ _ _ _ _ _ b G) as [F1|F1].
          -- rewrite (expired_ext c (tc b) bl b0 b); [exact Ub|congruence].
          -- apply expired_none. congruence.
        * inversion H; subst. eauto.
      + eapply IH; [exact H|]. exists b. repeat split; auto.
  Qed.

  Lemma loop_returned_not_banned : forall todo bl res ct bl', Inv bl ->
    get_loop c tc bc outs todo bl = (res, ct, bl') -> forall a, res = Ok a -> ~ In a (keys bl').
  Proof.
    induction todo as [|x rest IH]; intros bl res ct bl' I H a E; cbn in H.
    - inversion H; subst. discriminate.
    - pose proof (Inv_visit c tc bc outs x bl I) as IV.
      unfold visit in H, IV. destruct (gate c (tc x) x bl) as [[f bl1]|] eqn:G.
      + pose proof (contact_spec (bc x) outs x f bl1) as C.
        destruct (contact (bc x) outs x f bl1) as [b|b|b]; [contradiction| |].
        * destruct (get_loop c tc bc outs rest b) as [[r' ct'] b2] eqn:L.
          assert (R1 : r' = res) by (inversion H; reflexivity).
          assert (R2 : b2 = bl') by (inversion H; reflexivity). subst r' b2.
          eapply IH; [exact IV|exact L|exact E].
        * destruct C as [Eb _]. assert (R1 : Ok x = res) by (inversion H; reflexivity).
          assert (R2 : b = bl') by (inversion H; reflexivity).
          rewrite <- R1 in E. inversion E. rewrite <- R2, Eb, <- H1. exact (gate_self_out c (tc x) x bl f bl1 I G).
      + eapply IH; eauto.
  Qed.

  (** Not contacted addresses keep their entry or lose it; nobody else is ever inserted. *)
  Lemma loop_new_keys : forall todo bl res ct bl',
    get_loop c tc bc outs todo bl = (res, ct, bl') ->
    forall x, In x (keys bl') -> In x (keys bl) \/ In x ct.
  Proof.
    induction todo as [|y rest IH]; intros bl res ct bl' H x Ix; cbn in H.
    - inversion H; subst. left; exact Ix.
    - unfold visit in H. destruct (gate c (tc y) y bl) as [[f bl1]|] eqn:G.
      + pose proof (contact_spec (bc y) outs y f bl1) as C.
        destruct (contact (bc y) outs y f bl1) as [b|b|b]; [contradiction| |].
        * destruct C as [_ [r [Eb _]]].
          destruct (get_loop c tc bc outs rest b) as [[r' ct'] b2] eqn:L. inversion H; subst res ct bl'. clear H.
          destruct (IH _ _ _ _ L x Ix) as [K|K]; [|right; right; exact K].
          subst b. apply keys_ban in K. destruct K as [K|K]; [right; left; congruence|left; eapply gate_keys; eauto].
        * destruct C as [Eb _]. inversion H; subst. left. eapply gate_keys; eauto.
      + eapply IH; eauto.
  Qed.
End Loop2.

(** * [get] *)

Lemma wf_order_rev : forall c req shard order, wf_order c req shard order ->
  NoDup (rev order) /\ (forall a, In a (rev order) -> In a (servers c)) /\
  (forall a, In a (rev order) <-> In a (candidates c req (effective_sel c shard))).
Proof.
  intros c req shard order [ND EQ]. split; [apply NoDup_rev; exact ND|]. split.
  - intros a I. apply in_rev in I. apply EQ in I. unfold candidates in I. apply filter_In in I. tauto.
  - intros a. rewrite <- in_rev. apply EQ.
Qed.

Lemma get_unfold : forall c req shard order outs tc bc bl res ct bl',
  get c req shard order outs tc bc bl = (res, ct, bl') ->
  (effective_sel c shard = SInvalid /\ res = ErrInvalidShard /\ ct = [] /\ bl' = bl) \/
  (effective_sel c shard <> SInvalid /\ get_loop c tc bc outs (rev order) bl = (res, ct, bl')).
Proof.
  intros. unfold get in H. destruct (effective_sel c shard) eqn:E.
  - right. split; [discriminate|exact H].
  - right. split; [discriminate|exact H].
  - left. inversion H; subst. auto.
Qed.

Lemma get_Inv : forall c req shard order outs tc bc bl, Inv bl -> Inv (snd (get c req shard order outs tc bc bl)).
Proof.
  intros. unfold get. destruct (effective_sel c shard); try (apply get_loop_Inv; assumption). exact H.
Qed.

Lemma get_Sub : forall c req shard order outs tc bc bl, wf_order c req shard order -> Sub c bl ->
  Sub c (snd (get c req shard order outs tc bc bl)).
Proof.
  intros c req shard order outs tc bc bl WF S. destruct (wf_order_rev _ _ _ _ WF) as [_ [T _]].
  unfold get. destruct (effective_sel c shard); try (apply get_loop_Sub; assumption). exact S.
Qed.

(** * Admin commands *)

Lemma fold_ban_Inv : forall d now l bl, Inv bl ->
  Inv (fold_left (fun b a => if is_banned a b then b else ban a (AdminBan d) now b) l bl).
Proof.
  induction l as [|a r IH]; intros bl I; cbn; [exact I|]. apply IH.
  destruct (is_banned a bl); [exact I|apply Inv_ban; exact I].
Qed.

Lemma fold_ban_Sub : forall c d now l bl, (forall a, In a l -> In a (servers c)) -> Sub c bl ->
  Sub c (fold_left (fun b a => if is_banned a b then b else ban a (AdminBan d) now b) l bl).
Proof.
  induction l as [|a r IH]; intros bl T S; cbn; [exact S|]. apply IH; [intros x X; apply T; right; exact X|].
  destruct (is_banned a bl); [exact S|apply Sub_ban; [apply T; left; reflexivity|exact S]].
Qed.

Lemma fold_unban_Inv : forall l bl, Inv bl ->
  Inv (fold_left (fun b a => if is_banned a b then remove_ban a b else b) l bl).
Proof.
  induction l as [|a r IH]; intros bl I; cbn; [exact I|]. apply IH.
  destruct (is_banned a bl); [apply Inv_filter; exact I|exact I].
Qed.

Lemma fold_unban_Sub : forall c l bl, Sub c bl ->
  Sub c (fold_left (fun b a => if is_banned a b then remove_ban a b else b) l bl).
Proof.
  induction l as [|a r IH]; intros bl S; cbn; [exact S|]. apply IH.
  destruct (is_banned a bl); [apply Sub_filter; exact S|exact S].
Qed.

Lemma host_addrs_servers : forall c h a, In a (host_addrs c h) <-> In a (servers c) /\ a_host a = h.
Proof. intros. unfold host_addrs. rewrite filter_In, Nat.eqb_eq. tauto. Qed.

Lemma step_Inv : forall c bl o, Inv bl -> Inv (step c bl o).
Proof.
  intros c bl o I. destruct o; cbn.
  - apply get_Inv; exact I.
  - destruct (in_servers c a); [apply Inv_ban|]; exact I.
  - destruct r; try exact I. destruct (in_servers c a); [apply Inv_ban|]; exact I.
  - unfold admin_ban. destruct (d <=? 0); [exact I|apply fold_ban_Inv; exact I].
  - unfold admin_unban. apply fold_unban_Inv; exact I.
Qed.

Lemma step_Sub : forall c bl o, wf_op c o -> Sub c bl -> Sub c (step c bl o).
Proof.
  intros c bl o WF S. destruct o; cbn.
  - apply get_Sub; assumption.
  - unfold in_servers. destruct (in_dec addr_eq_dec a (servers c)); [apply Sub_ban; assumption|exact S].
  - destruct r; try exact S. unfold in_servers. destruct (in_dec addr_eq_dec a (servers c)); [apply Sub_ban; assumption|exact S].
  - unfold admin_ban. destruct (d <=? 0); [exact S|apply fold_ban_Sub; [|exact S]].
    intros a I. apply host_addrs_servers in I. tauto.
  - unfold admin_unban. apply fold_unban_Sub; exact S.
Qed.

Lemma run_Inv : forall c ops bl, Inv bl -> Inv (run c bl ops).
Proof. induction ops as [|o r IH]; intros bl I; cbn; [exact I|]. apply IH, step_Inv, I. Qed.

Lemma run_Sub : forall c ops bl, Forall (wf_op c) ops -> Sub c bl -> Sub c (run c bl ops).
Proof.
  induction ops as [|o r IH]; intros bl F S; cbn; [exact S|]. inversion F; subst. apply IH; [assumption|].
  apply step_Sub; assumption.
Qed.

(** States reachable by well-formed operation sequences from the empty ban list of a new pool
    (pool.rs:525). *)
Definition reachable (c : cfg) (bl : banlist) : Prop :=
  exists ops, Forall (wf_op c) ops /\ bl = run c [] ops.

Lemma reachable_Inv : forall c bl, reachable c bl -> Inv bl /\ Sub c bl.
Proof.
  intros c bl [ops [F E]]. subst. split; [apply run_Inv, Inv_nil|apply run_Sub; [exact F|intros a []]].
Qed.

(** * Property lemmas *)

Lemma primary_never_banned : forall c ops a, In a (keys (run c [] ops)) -> a_role a = Replica.
Proof. intros c ops a I. destruct (run_Inv c ops [] Inv_nil) as [_ R]. auto. Qed.

Lemma count_is_exact : forall c bl sh, wfc c -> reachable c bl ->
  (all_replicas_banned c bl sh = true <-> every_replica_banned c bl sh).
Proof. intros c bl sh W R. destruct (reachable_Inv c bl R). apply all_banned_spec; assumption. Qed.

Lemma returned_not_banned : forall c bl req shard order outs tc bc a ct bl', reachable c bl ->
  wf_order c req shard order ->
  get c req shard order outs tc bc bl = (Ok a, ct, bl') ->
  ~ In a (keys bl') /\ In a (candidates c req (effective_sel c shard)) /\ passes (outs a) /\ In a ct.
Proof.
  intros c bl req shard order outs tc bc a ct bl' R WF H. destruct (reachable_Inv c bl R) as [I S].
  destruct (get_unfold _ _ _ _ _ _ _ _ _ _ _ H) as [[_ [E _]]|[_ L]]; [discriminate|].
  destruct (wf_order_rev _ _ _ _ WF) as [ND [T EQ]].
  destruct (get_loop_ct _ _ _ _ _ _ _ _ _ L) as [CT [RK _]].
  split; [eapply loop_returned_not_banned; eauto|]. split; [apply EQ, CT, RK; reflexivity|].
  split; [eapply (proj1 (loop_outcomes c tc bc outs _ _ _ _ _ L)); reflexivity|apply RK; reflexivity].
Qed.

Lemma banned_bypassed : forall c bl req shard order outs tc bc res ct bl', wfc c -> reachable c bl ->
  wf_order c req shard order ->
  get c req shard order outs tc bc bl = (res, ct, bl') ->
  forall a, is_banned a bl = true -> expired c (tc a) bl a = false -> In a ct ->
  shard_down c (a_shard a) bl ct res.
Proof.
  intros c bl req shard order outs tc bc res ct bl' W R WF H a B E Ia. destruct (reachable_Inv c bl R) as [I S].
  destruct (get_unfold _ _ _ _ _ _ _ _ _ _ _ H) as [[_ [_ [E' _]]]|[_ L]]; [subst; destruct Ia|].
  destruct (wf_order_rev _ _ _ _ WF) as [ND [T EQ]].
  eapply loop_bypass; eauto.
Qed.

(** Contrapositive in the words of the property: while some replica of the shard is neither banned
    nor failing in this [get], a banned, unexpired replica of that shard is not contacted. *)
Lemma banned_bypassed_while_other_up : forall c bl req shard order outs tc bc res ct bl', wfc c -> reachable c bl ->
  wf_order c req shard order ->
  get c req shard order outs tc bc bl = (res, ct, bl') ->
  forall a r, is_banned a bl = true -> expired c (tc a) bl a = false ->
  In r (servers c) -> a_role r = Replica -> a_shard r = a_shard a ->
  ~ In r (keys bl) -> (~ In r ct \/ res = Ok r) ->
  ~ In a ct.
Proof.
  intros c bl req shard order outs tc bc res ct bl' W R WF H a r B E I1 I2 I3 NB UP Ia.
  destruct (banned_bypassed _ _ _ _ _ _ _ _ _ _ _ W R WF H a B E Ia r I1 I2 I3) as [K|[K N]]; [contradiction|].
  destruct UP; contradiction.
Qed.

Lemma failover_failed_is_banned : forall c bl req shard order outs tc bc res ct bl', wfc c -> reachable c bl ->
  wf_order c req shard order ->
  get c req shard order outs tc bc bl = (res, ct, bl') ->
  forall a, In a ct -> res <> Ok a ->
  failing (outs a) /\ (a_role a = Replica -> In a (keys bl') \/ shard_down c (a_shard a) bl ct res).
Proof.
  intros c bl req shard order outs tc bc res ct bl' W R WF H a Ia NOK. destruct (reachable_Inv c bl R) as [I S].
  destruct (get_unfold _ _ _ _ _ _ _ _ _ _ _ H) as [[_ [_ [E' _]]]|[_ L]]; [subst; destruct Ia|].
  destruct (wf_order_rev _ _ _ _ WF) as [ND [T EQ]]. split.
  - eapply (proj2 (loop_outcomes c tc bc outs _ _ _ _ _ L)); eauto.
  - intros RA. eapply loop_failed; eauto.
Qed.

Lemma failover_served : forall c bl req shard order outs tc bc res ct bl', reachable c bl ->
  wf_order c req shard order ->
  get c req shard order outs tc bc bl = (res, ct, bl') ->
  effective_sel c shard <> SInvalid ->
  (exists b, In b (candidates c req (effective_sel c shard)) /\ usable c tc outs bl b) ->
  exists b', res = Ok b' /\ passes (outs b') /\ ~ In b' (keys bl') /\
             In b' (candidates c req (effective_sel c shard)).
Proof.
  intros c bl req shard order outs tc bc res ct bl' R WF H V [b [Ib U]].
  destruct (get_unfold _ _ _ _ _ _ _ _ _ _ _ H) as [[E' _]|[_ L]]; [contradiction|].
  destruct (wf_order_rev _ _ _ _ WF) as [ND [T EQ]].
  destruct (loop_progress c tc bc outs _ _ _ _ _ L) as [b' E]; [exists b; split; [apply EQ; exact Ib|exact U]|].
  subst res. exists b'. split; [reflexivity|].
  destruct (returned_not_banned _ _ _ _ _ _ _ _ _ _ _ R WF H) as [A [B [C _]]]. auto.
Qed.

Lemma refused_only_if_none_usable : forall c bl req shard order outs tc bc ct bl', reachable c bl ->
  wf_order c req shard order ->
  get c req shard order outs tc bc bl = (ErrAllDown, ct, bl') ->
  forall b, In b (candidates c req (effective_sel c shard)) ->
  good (outs b) = false \/ (is_banned b bl = true /\ expired c (tc b) bl b = false /\ a_role b = Replica).
Proof.
  intros c bl req shard order outs tc bc ct bl' R WF H b Ib.
  destruct (get_unfold _ _ _ _ _ _ _ _ _ _ _ H) as [[_ [E' _]]|[V L]]; [discriminate|].
  destruct (good (outs b)) eqn:G; [right|left; reflexivity].
  destruct (expired c (tc b) bl b) eqn:E.
  - exfalso. destruct (failover_served _ _ _ _ _ _ _ _ _ _ _ R WF H V) as [b' [X _]]; [|discriminate].
    exists b. split; [exact Ib|]. split; [exact G|left; exact E].
  - destruct (a_role b) eqn:RB.
    + exfalso. destruct (failover_served _ _ _ _ _ _ _ _ _ _ _ R WF H V) as [b' [X _]]; [|discriminate].
      exists b. split; [exact Ib|]. split; [exact G|right; exact RB].
    + split; [|auto]. unfold is_banned. unfold expired in E. destruct (find_ban b bl); [reflexivity|discriminate].
Qed.

Lemma invalid_shard_only : forall c bl req shard order outs tc bc ct bl',
  get c req shard order outs tc bc bl = (ErrInvalidShard, ct, bl') ->
  nshards c <> 1%nat /\ exists n, shard = Some n /\ (nshards c <= n)%nat /\ ct = [] /\ bl' = bl.
Proof.
  intros. destruct (get_unfold _ _ _ _ _ _ _ _ _ _ _ H) as [[E [_ [C B]]]|[_ L]].
  - unfold effective_sel in E. destruct (Nat.eqb_spec (nshards c) 1) as [N1|N1]; [discriminate|]. split; [assumption|].
    destruct shard as [k|]; [|destruct (default_shard c); discriminate].
    destruct (Nat.ltb_spec k (nshards c)); [discriminate|]. exists k. auto.
  - destruct (get_loop_ct _ _ _ _ _ _ _ _ _ L) as [_ [_ N]]. congruence.
Qed.

(** ** Unbanning *)

Lemma try_unban_expiry : forall c now a bl r ts, a_role a = Replica ->
  all_replicas_banned c bl (a_shard a) = false -> find_ban a bl = Some (r, ts) ->
  fst (try_unban c now a bl) =
    match r with AdminBan d => now - ts >? d | _ => now - ts >? ban_time c end.
Proof.
  intros c now a bl r ts R AB F. unfold try_unban. rewrite R, AB, F. unfold expired. rewrite F.
  destruct r; destruct (_ >? _); reflexivity.
Qed.

Lemma try_unban_true_removes : forall c now a bl bl', a_role a = Replica ->
  try_unban c now a bl = (true, bl') -> ~ In a (keys bl').
Proof.
  intros c now a bl bl' R H. unfold try_unban in H. rewrite R in H.
  destruct (all_replicas_banned c bl (a_shard a)).
  - inversion H; subst. rewrite keys_clear. intros [_ N]. congruence.
  - destruct (find_ban a bl) eqn:F.
    + destruct (expired c now bl a); inversion H; subst. rewrite keys_remove. intros [_ N]. congruence.
    + inversion H; subst. apply find_ban_None. exact F.
Qed.

Lemma try_unban_false_keeps : forall c now a bl bl', try_unban c now a bl = (false, bl') -> bl' = bl.
Proof.
  intros c now a bl bl' H. unfold try_unban in H. destruct (a_role a); [discriminate|].
  destruct (all_replicas_banned c bl (a_shard a)); [discriminate|].
  destruct (find_ban a bl); [|discriminate]. destruct (expired c now bl a); inversion H; reflexivity.
Qed.

Lemma all_banned_cleared : forall c now a bl, a_role a = Replica ->
  all_replicas_banned c bl (a_shard a) = true ->
  try_unban c now a bl = (true, clear_shard bl (a_shard a)) /\ shard_bl (clear_shard bl (a_shard a)) (a_shard a) = [] /\
  (forall x, a_shard x <> a_shard a -> find_ban x (clear_shard bl (a_shard a)) = find_ban x bl).
Proof.
  intros c now a bl R AB. split; [unfold try_unban; rewrite R, AB; reflexivity|]. split.
  - clear AB. unfold shard_bl, clear_shard. induction bl as [|e r IH]; cbn; [reflexivity|].
    destruct (Nat.eqb (a_shard (fst e)) (a_shard a)) eqn:E; cbn; [exact IH|rewrite E; exact IH].
  - intros x N. rewrite find_clear. destruct (Nat.eqb_spec (a_shard x) (a_shard a)); [contradiction|reflexivity].
Qed.

Lemma fold_unban_spec : forall l bl x,
  find_ban x (fold_left (fun b a => if is_banned a b then remove_ban a b else b) l bl) =
  if in_dec addr_eq_dec x l then None else find_ban x bl.
Proof.
  induction l as [|a r IH]; intros bl x; cbn [fold_left]; [reflexivity|]. rewrite IH.
  destruct (in_dec addr_eq_dec x r) as [I|N]; destruct (in_dec addr_eq_dec x (a :: r)) as [I'|N']; try reflexivity.
  - exfalso. apply N'. right. exact I.
  - destruct I' as [E|I']; [subst a|contradiction].
    destruct (is_banned x bl) eqn:B.
    + rewrite find_remove. destruct (addr_eq_dec x x); congruence.
    + unfold is_banned in B. destruct (find_ban x bl); [discriminate|reflexivity].
  - destruct (is_banned a bl); [|reflexivity]. rewrite find_remove.
    destruct (addr_eq_dec x a); [exfalso; apply N'; left; congruence|reflexivity].
Qed.

Lemma admin_unban_spec : forall c h bl x,
  find_ban x (admin_unban c h bl) = if in_dec addr_eq_dec x (host_addrs c h) then None else find_ban x bl.
Proof. intros. unfold admin_unban. apply fold_unban_spec. Qed.

Lemma fold_ban_spec : forall d now l bl x, NoDup l ->
  find_ban x (fold_left (fun b a => if is_banned a b then b else ban a (AdminBan d) now b) l bl) =
  match find_ban x bl with
  | Some v => Some v
  | None => if in_dec addr_eq_dec x l then (if is_replica x then Some (AdminBan d, now) else None) else None
  end.
Proof.
  induction l as [|a r IH]; intros bl x ND; cbn [fold_left].
  - destruct (find_ban x bl); reflexivity.
  - inversion ND as [|? ? NA ND']; subst. rewrite (IH _ _ ND').
    destruct (is_banned a bl) eqn:B.
    + destruct (find_ban x bl) eqn:F; [reflexivity|].
      destruct (in_dec addr_eq_dec x r) as [I|N]; destruct (in_dec addr_eq_dec x (a :: r)) as [I'|N']; try reflexivity.
      * exfalso. apply N'. right. exact I.
      * destruct I' as [E|I']; [subst a|contradiction]. unfold is_banned in B. rewrite F in B. discriminate.
    + rewrite find_ban_role. unfold is_replica.
      destruct (a_role a) eqn:RA.
      * destruct (find_ban x bl) eqn:F; [reflexivity|].
        destruct (in_dec addr_eq_dec x r) as [I|N]; destruct (in_dec addr_eq_dec x (a :: r)) as [I'|N']; try reflexivity.
        -- exfalso. apply N'. right. exact I.
        -- destruct I' as [E|I']; [subst a|contradiction]. rewrite RA. reflexivity.
      * destruct (addr_eq_dec a x) as [E|NE].
        -- subst a. unfold is_banned in B. destruct (find_ban x bl) eqn:F; [discriminate|].
           destruct (in_dec addr_eq_dec x (x :: r)) as [_|N']; [|exfalso; apply N'; left; reflexivity].
           rewrite RA. reflexivity.
        -- destruct (find_ban x bl) eqn:F; [reflexivity|].
           destruct (in_dec addr_eq_dec x r) as [I|N]; destruct (in_dec addr_eq_dec x (a :: r)) as [I'|N']; try reflexivity.
           ++ exfalso. apply N'. right. exact I.
           ++ destruct I' as [E|I']; [congruence|contradiction].
Qed.

Lemma admin_ban_spec : forall c h d now bl x, wfc c -> d > 0 ->
  find_ban x (admin_ban c h d now bl) =
  match find_ban x bl with
  | Some v => Some v
  | None => if in_dec addr_eq_dec x (host_addrs c h) then (if is_replica x then Some (AdminBan d, now) else None) else None
  end.
Proof.
  intros c h d now bl x W D. unfold admin_ban. destruct (Z.leb_spec d 0); [lia|].
  apply fold_ban_spec. unfold host_addrs. apply NoDup_filter'. exact W.
Qed.

Lemma admin_ban_nonpositive : forall c h d now bl, d <= 0 -> admin_ban c h d now bl = bl.
Proof. intros. unfold admin_ban. destruct (Z.leb_spec d 0); [reflexivity|lia]. Qed.

(** BAN / UNBAN name a host: they reach EVERY address of the pool with that host, whatever its
    port, position or shard. *)
Lemma unban_host_clears : forall c h bl x, In x (servers c) -> a_host x = h -> ~ In x (keys (admin_unban c h bl)).
Proof.
  intros c h bl x I H. apply find_ban_None. rewrite admin_unban_spec.
  destruct (in_dec addr_eq_dec x (host_addrs c h)) as [_|N]; [reflexivity|].
  exfalso. apply N. apply host_addrs_servers. auto.
Qed.

Lemma ban_host_covers : forall c h d now bl x, wfc c -> d > 0 -> In x (servers c) -> a_host x = h ->
  a_role x = Replica -> In x (keys (admin_ban c h d now bl)).
Proof.
  intros c h d now bl x W D I H R. pose proof (admin_ban_spec c h d now bl x W D) as S.
  destruct (find_ban x bl) as [v|] eqn:F.
  - eapply find_ban_In. exact S.
  - destruct (in_dec addr_eq_dec x (host_addrs c h)) as [_|N].
    + unfold is_replica in S. rewrite R in S. eapply find_ban_In. exact S.
    + exfalso. apply N. apply host_addrs_servers. auto.
Qed.

Lemma ban_host_only : forall c h d now bl x, wfc c -> d > 0 -> ~ In x (keys bl) ->
  In x (keys (admin_ban c h d now bl)) -> In x (servers c) /\ a_host x = h /\ a_role x = Replica.
Proof.
  intros c h d now bl x W D N I. apply is_banned_In in I. unfold is_banned in I.
  rewrite (admin_ban_spec c h d now bl x W D) in I. apply find_ban_None in N. rewrite N in I.
  destruct (in_dec addr_eq_dec x (host_addrs c h)) as [Y|_]; [|discriminate].
  apply host_addrs_servers in Y. destruct Y as [Y1 Y2]. unfold is_replica in I.
  destruct (a_role x); [discriminate|auto].
Qed.

(** (b): an address that comes back from a ban is health-checked even on a fresh connection. *)
Lemma unbanned_is_health_checked : forall c tc bc outs a bl fresh h,
  is_banned a bl = true -> outs a = Conn fresh h -> h <> HcOk ->
  match visit c tc bc outs a bl with
  | Skip b => b = bl
  | Fail b => exists bl1, gate c (tc a) a bl = Some (true, bl1) /\ b = ban a FailedHealthCheck (bc a) bl1
  | Done _ => False
  end.
Proof.
  intros c tc bc outs a bl fresh h B O NH. unfold visit. pose proof (gate_spec c (tc a) a bl) as S.
  destruct (gate c (tc a) a bl) as [[f bl1]|]; [|reflexivity]. destruct S as [F _]. rewrite B in F. subst f.
  unfold contact. rewrite O. cbn. destruct h; [congruence| |]; exists bl1; auto.
Qed.

Lemma exec_fail_bans : forall c bl a k now g, In a (servers c) -> a_role a = Replica ->
  find_ban a (step c bl (ExecFail a k now g)) = Some (reason_of k, now).
Proof.
  intros c bl a k now g I R. cbn. unfold in_servers. destruct (in_dec addr_eq_dec a (servers c)); [|contradiction].
  rewrite find_ban_role, R. destruct (addr_eq_dec a a); congruence.
Qed.

Lemma exec_fail_primary : forall c bl a k now g, a_role a = Primary -> step c bl (ExecFail a k now g) = bl.
Proof. intros c bl a k now g R. cbn. destruct (in_servers c a); [|reflexivity]. unfold ban. rewrite R. reflexivity. Qed.

(** The ban decision after a statement-time failure does not look at the client: whether the
    client is still there, closed its socket or reset it, the same ban list results. *)
Lemma exec_fail_independent_of_client : forall c bl a k now g1 g2,
  step c bl (ExecFail a k now g1) = step c bl (ExecFail a k now g2).
Proof. reflexivity. Qed.

Lemma run_independent_of_client : forall c ops bl a k now g1 g2 ops',
  run c bl (ops ++ ExecFail a k now g1 :: ops') = run c bl (ops ++ ExecFail a k now g2 :: ops').
Proof.
  intros. unfold run. rewrite !fold_left_app. cbn [fold_left].
  rewrite (exec_fail_independent_of_client c _ a k now g1 g2). reflexivity.
Qed.

(** An answer is not a failure: a server that ANSWERS pgcat's out-of-band Parse — with
    ParseComplete or with an ErrorResponse rejecting the statement — is not banned by it; a server
    whose connection fails in that exchange is (a replica; the primary never). *)
Lemma oob_answer_never_bans : forall c bl a r now, r <> OobConnFail -> step c bl (OobPrepare a r now) = bl.
Proof. intros c bl a r now N. destruct r; try reflexivity. congruence. Qed.

Lemma oob_conn_failure_bans : forall c bl a now, In a (servers c) -> a_role a = Replica ->
  find_ban a (step c bl (OobPrepare a OobConnFail now)) = Some (MessageSendFailed, now).
Proof.
  intros c bl a now I R. cbn. unfold in_servers. destruct (in_dec addr_eq_dec a (servers c)); [|contradiction].
  rewrite find_ban_role, R. destruct (addr_eq_dec a a); congruence.
Qed.

Lemma oob_conn_failure_primary : forall c bl a now, a_role a = Primary -> step c bl (OobPrepare a OobConnFail now) = bl.
Proof. intros c bl a now R. cbn. destruct (in_servers c a); [|reflexivity]. unfold ban. rewrite R. reflexivity. Qed.

(** The ban list never grows by an operation in which every server involved answered: the only
    operations that add an entry are a failing contact in a checkout, a failure of a checked-out
    server ([ExecFail], [OobPrepare .. OobConnFail]) and the admin's BAN. *)
Lemma new_ban_needs_failure : forall c bl o x, reachable c bl -> wf_op c o ->
  ~ In x (keys bl) -> In x (keys (step c bl o)) ->
  match o with
  | Get _ _ _ outs _ _ => failing (outs x)
  | ExecFail a _ _ _ => a = x
  | OobPrepare a r _ => a = x /\ r = OobConnFail
  | AdminBan_ h _ _ => a_host x = h
  | AdminUnban _ => False
  end.
Proof.
  intros c bl o x R WF N I. destruct (reachable_Inv c bl R) as [IV _]. destruct o; cbn in I.
  - (* Get *)
    cbn in WF. destruct (get c req shard order outs tc bc bl) as [[res ct] bl'] eqn:G. cbn in I.
    destruct (get_unfold _ _ _ _ _ _ _ _ _ _ _ G) as [[_ [_ [_ E]]]|[_ L]]; [subst; contradiction|].
    destruct (wf_order_rev _ _ _ _ WF) as [ND _].
    destruct (loop_new_keys c tc bc outs _ _ _ _ _ L x I) as [K|K]; [contradiction|].
    apply (proj2 (loop_outcomes c tc bc outs _ _ _ _ _ L) x ND K).
    intros E. exact (loop_returned_not_banned c tc bc outs _ _ _ _ _ IV L x E I).
  - destruct (in_servers c a); [|contradiction]. apply keys_ban in I. destruct I; [congruence|contradiction].
  - destruct r; try contradiction. destruct (in_servers c a); [|contradiction].
    apply keys_ban in I. destruct I; [split; congruence|contradiction].
  - unfold admin_ban in I. destruct (d <=? 0); [contradiction|].
    assert (G : forall l b, In x (keys (fold_left (fun b a => if is_banned a b then b else ban a (AdminBan d) now b) l b)) ->
                            In x (keys b) \/ In x l).
    { induction l as [|a r IH]; intros b H; cbn in H; [left; exact H|].
      destruct (IH _ H) as [K|K]; [|right; right; exact K].
      destruct (is_banned a b); [left; exact K|]. apply keys_ban in K. destruct K as [K|K]; [right; left; congruence|left; exact K]. }
    destruct (G _ _ I) as [K|K]; [contradiction|]. apply host_addrs_servers in K. tauto.
  - unfold admin_unban in I.
    assert (G : forall l b, In x (keys (fold_left (fun b a => if is_banned a b then remove_ban a b else b) l b)) -> In x (keys b)).
    { induction l as [|a r IH]; intros b H; cbn in H; [exact H|]. specialize (IH _ H).
      destruct (is_banned a b); [apply keys_remove in IH; tauto|exact IH]. }
    apply N, (G _ _ I).
Qed.

(** ** Timeouts *)
Lemma timeouts_guarded : forall s, known_unguarded s = false -> guard true s <> None.
Proof. intros s; destruct s; cbn; intros; congruence. Qed.

Lemma unguarded_refuted : exists s, known_unguarded s = true /\ forall stmt, guard stmt s = None.
Proof. exists SSyncParameters. split; [reflexivity|intros; reflexivity]. Qed.
