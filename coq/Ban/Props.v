(** C07 — property theorems only.  Each is closed by [exact <lemma>] and audited with
    [Print Assumptions]; [Example]s show non-vacuity and pin the model on the schedules the
    property text and the review questions talk about.

    Quantifiers.  [reachable c bl]: [bl] is the ban list after ANY finite sequence of well-formed
    operations (checkouts with any candidate order / outcome function / clock, failures of
    checked-out servers, admin BAN / UNBAN) on a new pool with ANY address list [servers c] (any
    number of shards, replicas, primaries).  [wf_order]: the order is a rearrangement of the
    candidates — every result of shuffle / sort, i.e. both load-balancing modes.  [outs] and the
    clock readings [tc] (in try_unban) and [bc] (in ban), one pair per address: arbitrary.  [wfc c]: the addresses of the pool are pairwise different. *)
From Coq Require Import ZArith List Bool Arith.
From PV Require Import Ban.Model Ban.Proofs Ban.Tie.
Import ListNotations.
Open Scope Z_scope.

(** The primary is never banned — after every operation sequence, well formed or not. *)
Theorem c07_primary_never_banned : forall c ops a, In a (keys (run c [] ops)) -> a_role a = Replica.
Proof. exact primary_never_banned. Qed.
Print Assumptions c07_primary_never_banned.

(** Question (a): the test [banlist[shard].len() == #replicas of the shard] in [try_unban] is
    exact — it holds iff every configured replica of that shard is banned.  (The map only ever
    holds replica addresses of this pool filed under their own shard, each once.) *)
Theorem c07_all_banned_count_exact : forall c bl sh, wfc c -> reachable c bl ->
  (all_replicas_banned c bl sh = true <-> every_replica_banned c bl sh).
Proof. exact count_is_exact. Qed.
Print Assumptions c07_all_banned_count_exact.

(** A handed-out server is not banned afterwards, is a candidate of the requested role / shard,
    was contacted, and its checkout passed (health check passed when one was due). *)
Theorem c07_returned_not_banned : forall c bl req shard order outs tc bc a ct bl', reachable c bl ->
  wf_order c req shard order ->
  get c req shard order outs tc bc bl = (Ok a, ct, bl') ->
  ~ In a (keys bl') /\ In a (candidates c req (effective_sel c shard)) /\ passes (outs a) /\ In a ct.
Proof. exact returned_not_banned. Qed.
Print Assumptions c07_returned_not_banned.

(** A banned replica whose ban has not run out is contacted (checkout, health check, hence any
    client statement) only with evidence that its whole shard is down: every replica of the shard
    was banned before this checkout or was contacted by it and not handed out. *)
Theorem c07_banned_bypassed : forall c bl req shard order outs tc bc res ct bl', wfc c -> reachable c bl ->
  wf_order c req shard order ->
  get c req shard order outs tc bc bl = (res, ct, bl') ->
  forall a, is_banned a bl = true -> expired c (tc a) bl a = false -> In a ct ->
  shard_down c (a_shard a) bl ct res.
Proof. exact banned_bypassed. Qed.
Print Assumptions c07_banned_bypassed.

(** ... in the words of the property: as long as another replica of the shard is neither banned
    nor failing in this checkout, the banned one is not contacted at all. *)
Theorem c07_banned_bypassed_while_other_up : forall c bl req shard order outs tc bc res ct bl', wfc c -> reachable c bl ->
  wf_order c req shard order ->
  get c req shard order outs tc bc bl = (res, ct, bl') ->
  forall a r, is_banned a bl = true -> expired c (tc a) bl a = false ->
  In r (servers c) -> a_role r = Replica -> a_shard r = a_shard a ->
  ~ In r (keys bl) -> (~ In r ct \/ res = Ok r) ->
  ~ In a ct.
Proof. exact banned_bypassed_while_other_up. Qed.
Print Assumptions c07_banned_bypassed_while_other_up.

(** Failover is silent, part 1: an address that was contacted and not handed out had a failing
    outcome (refused / connect timeout / busy pool, failed or timed-out health check) and, if it is
    a replica, is banned afterwards — unless the all-replicas-banned reset of its shard fired later
    in the same checkout (then the whole shard is down, see [shard_down]). *)
Theorem c07_failover_silent_banned : forall c bl req shard order outs tc bc res ct bl', wfc c -> reachable c bl ->
  wf_order c req shard order ->
  get c req shard order outs tc bc bl = (res, ct, bl') ->
  forall a, In a ct -> res <> Ok a ->
  failing (outs a) /\ (a_role a = Replica -> In a (keys bl') \/ shard_down c (a_shard a) bl ct res).
Proof. exact failover_failed_is_banned. Qed.
Print Assumptions c07_failover_silent_banned.

(** Failover is silent, part 2: if some candidate is usable (its checkout and health check would
    succeed, and it is not banned, or its ban has run out, or it is the primary), the checkout
    succeeds with a server that passes — the client sees no error, whatever else is broken. *)
Theorem c07_failover_silent : forall c bl req shard order outs tc bc res ct bl', reachable c bl ->
  wf_order c req shard order ->
  get c req shard order outs tc bc bl = (res, ct, bl') ->
  effective_sel c shard <> SInvalid ->
  (exists b, In b (candidates c req (effective_sel c shard)) /\ usable c tc outs bl b) ->
  exists b', res = Ok b' /\ passes (outs b') /\ ~ In b' (keys bl') /\
             In b' (candidates c req (effective_sel c shard)).
Proof. exact failover_served. Qed.
Print Assumptions c07_failover_silent.

(** A transaction is refused at checkout only if no server of the requested role in the target
    shard is usable: each candidate either would not pass (checkout or health check fails) or is a
    replica under a ban that has not run out. *)
Theorem c07_refused_only_if_none_usable : forall c bl req shard order outs tc bc ct bl', reachable c bl ->
  wf_order c req shard order ->
  get c req shard order outs tc bc bl = (ErrAllDown, ct, bl') ->
  forall b, In b (candidates c req (effective_sel c shard)) ->
  good (outs b) = false \/ (is_banned b bl = true /\ expired c (tc b) bl b = false /\ a_role b = Replica).
Proof. exact refused_only_if_none_usable. Qed.
Print Assumptions c07_refused_only_if_none_usable.

(** The only other refusal is an explicit shard number outside the pool. *)
Theorem c07_invalid_shard_only : forall c bl req shard order outs tc bc ct bl',
  get c req shard order outs tc bc bl = (ErrInvalidShard, ct, bl') ->
  nshards c <> 1%nat /\ exists n, shard = Some n /\ (nshards c <= n)%nat /\ ct = [] /\ bl' = bl.
Proof. exact invalid_shard_only. Qed.
Print Assumptions c07_invalid_shard_only.

(** c07_unban, 1: when not all replicas are banned, a ban ends exactly when the difference of the
    whole-second clock readings is STRICTLY greater than ban_time, or than the admin-given
    duration for an admin ban. *)
Theorem c07_unban_expiry : forall c now a bl r ts, a_role a = Replica ->
  all_replicas_banned c bl (a_shard a) = false -> find_ban a bl = Some (r, ts) ->
  fst (try_unban c now a bl) =
    match r with AdminBan d => now - ts >? d | _ => now - ts >? ban_time c end.
Proof. exact try_unban_expiry. Qed.
Print Assumptions c07_unban_expiry.

(** 2: a successful [try_unban] of a replica leaves it unbanned; an unsuccessful one changes nothing. *)
Theorem c07_unban_removes : forall c now a bl bl', a_role a = Replica ->
  try_unban c now a bl = (true, bl') -> ~ In a (keys bl').
Proof. exact try_unban_true_removes. Qed.
Print Assumptions c07_unban_removes.

Theorem c07_unban_false_keeps : forall c now a bl bl', try_unban c now a bl = (false, bl') -> bl' = bl.
Proof. exact try_unban_false_keeps. Qed.
Print Assumptions c07_unban_false_keeps.

(** 3: once all replicas of a shard are banned, the next banned candidate of that shard that is
    popped clears the shard's whole ban list (other shards untouched). *)
Theorem c07_unban_all_when_all_banned : forall c now a bl, a_role a = Replica ->
  all_replicas_banned c bl (a_shard a) = true ->
  try_unban c now a bl = (true, clear_shard bl (a_shard a)) /\ shard_bl (clear_shard bl (a_shard a)) (a_shard a) = [] /\
  (forall x, a_shard x <> a_shard a -> find_ban x (clear_shard bl (a_shard a)) = find_ban x bl).
Proof. exact all_banned_cleared. Qed.
Print Assumptions c07_unban_all_when_all_banned.

(** 4: UNBAN host removes exactly the bans of that host's addresses. *)
Theorem c07_admin_unban : forall c h bl x,
  find_ban x (admin_unban c h bl) = if in_dec addr_eq_dec x (host_addrs c h) then None else find_ban x bl.
Proof. exact admin_unban_spec. Qed.
Print Assumptions c07_admin_unban.

(** 5: BAN host d (d > 0) bans exactly the not yet banned REPLICAS of that host with reason
    [AdminBan d] stamped now (so by [c07_unban_expiry] the duration d is honoured); existing bans
    and primaries are untouched; d <= 0 is refused. *)
Theorem c07_admin_ban : forall c h d now bl x, wfc c -> d > 0 ->
  find_ban x (admin_ban c h d now bl) =
  match find_ban x bl with
  | Some v => Some v
  | None => if in_dec addr_eq_dec x (host_addrs c h) then (if is_replica x then Some (AdminBan d, now) else None) else None
  end.
Proof. exact admin_ban_spec. Qed.
Print Assumptions c07_admin_ban.

Theorem c07_admin_ban_nonpositive : forall c h d now bl, d <= 0 -> admin_ban c h d now bl = bl.
Proof. exact admin_ban_nonpositive. Qed.
Print Assumptions c07_admin_ban_nonpositive.

(** 6: the admin commands name a HOST.  After UNBAN h no address of the pool with host h is banned;
    after BAN h d (d > 0) every replica of the pool with host h is banned — each of them, however
    many servers share the host string and in whichever shard they are; and nothing else is added. *)
Theorem c07_unban_host_clears : forall c h bl x, In x (servers c) -> a_host x = h -> ~ In x (keys (admin_unban c h bl)).
Proof. exact unban_host_clears. Qed.
Print Assumptions c07_unban_host_clears.

Theorem c07_ban_host_covers : forall c h d now bl x, wfc c -> d > 0 -> In x (servers c) -> a_host x = h ->
  a_role x = Replica -> In x (keys (admin_ban c h d now bl)).
Proof. exact ban_host_covers. Qed.
Print Assumptions c07_ban_host_covers.

Theorem c07_ban_host_only : forall c h d now bl x, wfc c -> d > 0 -> ~ In x (keys bl) ->
  In x (keys (admin_ban c h d now bl)) -> In x (servers c) /\ a_host x = h /\ a_role x = Replica.
Proof. exact ban_host_only. Qed.
Print Assumptions c07_ban_host_only.

(** Question (b): a banned address that passes the gate is health-checked even if its connection
    is fresh, and is re-banned if the check fails. *)
Theorem c07_unbanned_is_health_checked : forall c tc bc outs a bl fresh h,
  is_banned a bl = true -> outs a = Conn fresh h -> h <> HcOk ->
  match visit c tc bc outs a bl with
  | Skip b => b = bl
  | Fail b => exists bl1, gate c (tc a) a bl = Some (true, bl1) /\ b = ban a FailedHealthCheck (bc a) bl1
  | Done _ => False
  end.
Proof. exact unbanned_is_health_checked. Qed.
Print Assumptions c07_unbanned_is_health_checked.

(** A replica that breaks while executing a statement is banned with the matching reason; a
    primary is not. *)
Theorem c07_exec_fail_bans : forall c bl a k now g, In a (servers c) -> a_role a = Replica ->
  find_ban a (step c bl (ExecFail a k now g)) = Some (reason_of k, now).
Proof. exact exec_fail_bans. Qed.
Print Assumptions c07_exec_fail_bans.

Theorem c07_exec_fail_primary : forall c bl a k now g, a_role a = Primary -> step c bl (ExecFail a k now g) = bl.
Proof. exact exec_fail_primary. Qed.
Print Assumptions c07_exec_fail_primary.

(** The ban after a failure at statement time does not depend on the fate of the client that sent
    the statement (still connected, closed, reset): same ban list, in any history. *)
Theorem c07_exec_fail_independent_of_client : forall c bl a k now g1 g2,
  step c bl (ExecFail a k now g1) = step c bl (ExecFail a k now g2).
Proof. exact exec_fail_independent_of_client. Qed.
Print Assumptions c07_exec_fail_independent_of_client.

Theorem c07_run_independent_of_client : forall c ops bl a k now g1 g2 ops',
  run c bl (ops ++ ExecFail a k now g1 :: ops') = run c bl (ops ++ ExecFail a k now g2 :: ops').
Proof. exact run_independent_of_client. Qed.
Print Assumptions c07_run_independent_of_client.

(** An answer is not a failure.  pgcat's own out-of-band Parse + Sync (re-preparing a cached named
    statement on a server connection that lacks it): a server that ANSWERS — ParseComplete, or an
    ErrorResponse that rejects the statement — is never banned by it ... *)
Theorem c07_error_response_never_bans : forall c bl a r now, r <> OobConnFail -> step c bl (OobPrepare a r now) = bl.
Proof. exact oob_answer_never_bans. Qed.
Print Assumptions c07_error_response_never_bans.

(** ... a replica whose connection fails in that exchange is banned (MessageSendFailed, stamped now);
    a primary is not. *)
Theorem c07_oob_conn_failure_bans : forall c bl a now, In a (servers c) -> a_role a = Replica ->
  find_ban a (step c bl (OobPrepare a OobConnFail now)) = Some (MessageSendFailed, now).
Proof. exact oob_conn_failure_bans. Qed.
Print Assumptions c07_oob_conn_failure_bans.

Theorem c07_oob_conn_failure_primary : forall c bl a now, a_role a = Primary -> step c bl (OobPrepare a OobConnFail now) = bl.
Proof. exact oob_conn_failure_primary. Qed.
Print Assumptions c07_oob_conn_failure_primary.

(** The general rule, over every operation: an address enters the ban list only through a FAILURE of
    that address (failing checkout / health check, failure of the checked-out server at statement
    time or in the out-of-band exchange) or through the admin's BAN of its host — never through an
    operation in which the server answered. *)
Theorem c07_new_ban_needs_failure : forall c bl o x, reachable c bl -> wf_op c o ->
  ~ In x (keys bl) -> In x (keys (step c bl o)) ->
  match o with
  | Get _ _ _ outs _ _ => failing (outs x)
  | ExecFail a _ _ _ => a = x
  | OobPrepare a r _ => a = x /\ r = OobConnFail
  | AdminBan_ h _ _ => a_host x = h
  | AdminUnban _ => False
  end.
Proof. exact new_ban_needs_failure. Qed.
Print Assumptions c07_new_ban_needs_failure.

(** "Detected within the configured timeouts" (partial: a table, see Model.v): with a non-zero
    statement_timeout every server-facing await of a client task outside the recorded class
    [known_unguarded] runs under connect_timeout, healthcheck_timeout or statement_timeout ... *)
Theorem c07_timeouts_guarded : forall s, known_unguarded s = false -> guard true s <> None.
Proof. exact timeouts_guarded. Qed.
Print Assumptions c07_timeouts_guarded.

(** ... and the recorded class is not empty: sync_parameters (also checkin_cleanup,
    register_prepared_statement, send) waits for the server with no bound at all. *)
Theorem c07_unguarded_refuted : exists s, known_unguarded s = true /\ forall stmt, guard stmt s = None.
Proof. exact unguarded_refuted. Qed.
Print Assumptions c07_unguarded_refuted.

(** Every order the tie enumerates is a well-formed one. *)
Theorem c07_tie_orders_wf : forall c req shard order, NoDup (servers c) ->
  In order (perms (candidates c req (effective_sel c shard))) -> wf_order c req shard order.
Proof. exact tie_orders_wf. Qed.
Print Assumptions c07_tie_orders_wf.

(** The health-check flags the tie compares are those of the contacted addresses of [get_loop]. *)
Theorem c07_tie_trace_is_contacted : forall c tc bc outs todo bl,
  map fst (trace_loop c tc bc outs todo bl) = snd (fst (get_loop c tc bc outs todo bl)).
Proof. exact trace_loop_ct. Qed.
Print Assumptions c07_tie_trace_is_contacted.

(** * Examples: non-vacuity and the schedules of the review questions *)

Definition P  := mkAddr 0 0 Primary 10.
Definition R1 := mkAddr 1 0 Replica 11.
Definition R2 := mkAddr 2 0 Replica 12.
Definition R3 := mkAddr 3 0 Replica 13.
Definition C3 := mkCfg [P; R1; R2; R3] 1 60 (DShard 0).   (* primary + 3 replicas *)
Definition C2 := mkCfg [P; R1; R2] 1 60 (DShard 0).
Definition C1 := mkCfg [P; R1] 1 60 (DShard 0).
Definition up : addr -> outcome := fun _ => Conn false HcOk.
Definition down1 (x : addr) : addr -> outcome := fun a => if addr_eq_dec a x then ConnFail else Conn false HcOk.

(** failover: R2 (popped first) refuses, R1 serves, R2 is banned, the client gets a server *)
Example ex_failover :
  get C3 (Some Replica) None [R3; R1; R2] (down1 R2) (fun _ => 100) (fun _ => 100) [] = (Ok R1, [R2; R1], [(R2, (FailedCheckout, 100))]).
Proof. vm_compute. reflexivity. Qed.

(** bypass: while banned and not expired R2 is not contacted, whatever its position *)
Example ex_bypass :
  get C3 (Some Replica) None [R3; R1; R2] up (fun _ => 160) (fun _ => 160) [(R2, (FailedCheckout, 100))] = (Ok R1, [R1], [(R2, (FailedCheckout, 100))]).
Proof. vm_compute. reflexivity. Qed.

(** strict expiry: at exactly ban_time seconds still banned, one second later unbanned and used *)
Example ex_expiry_strict :
  fst (try_unban C3 160 R2 [(R2, (FailedCheckout, 100))]) = false /\
  get C3 (Some Replica) None [R3; R1; R2] up (fun _ => 161) (fun _ => 161) [(R2, (FailedCheckout, 100))] = (Ok R2, [R2], []).
Proof. vm_compute. auto. Qed.

(** admin duration, not ban_time, governs an admin ban *)
Example ex_admin_duration :
  let bl := admin_ban C3 12 5 100 [] in
  bl = [(R2, (AdminBan 5, 100))] /\ fst (try_unban C3 105 R2 bl) = false /\ fst (try_unban C3 106 R2 bl) = true.
Proof. vm_compute. auto. Qed.

(** BAN of the primary's host does nothing *)
Example ex_admin_ban_primary : admin_ban C3 10 5 100 [] = [].
Proof. vm_compute. reflexivity. Qed.

(** a failing primary is not banned; with role = primary the transaction is refused *)
Example ex_primary_down :
  get C3 (Some Primary) None [P] (down1 P) (fun _ => 100) (fun _ => 100) [] = (ErrAllDown, [P], []).
Proof. vm_compute. reflexivity. Qed.

(** all replicas banned => the first one popped resets the shard; it is health-checked (forced),
    the others come back WITHOUT a forced check: here R1's connection is fresh but dead, R2 fails
    its forced check, and R1 is handed to the client although a check would have failed. *)
Example ex_reset_then_unchecked :
  let bl := [(R1, (FailedCheckout, 100)); (R2, (FailedCheckout, 100))] in
  let outs := fun a => if addr_eq_dec a R2 then Conn true HcFail else Conn true HcFail in
  get C2 (Some Replica) None [R1; R2] outs (fun _ => 101) (fun _ => 101) bl = (Ok R1, [R2; R1], [(R2, (FailedHealthCheck, 101))]).
Proof. vm_compute. reflexivity. Qed.

(** with ONE replica a ban is void: the very next checkout that pops it resets the shard, even
    though the primary is another candidate (role = any) and no time has passed *)
Example ex_single_replica_ban_void :
  get C1 None None [P; R1] up (fun _ => 100) (fun _ => 100) [(R1, (FailedCheckout, 100))] = (Ok R1, [R1], []).
Proof. vm_compute. reflexivity. Qed.

(** why [c07_banned_bypassed] speaks of [shard_down] and not of the ban list before the checkout
    alone: R3 is banned and unexpired, R1 and R2 are not banned, yet R3 is contacted — after R2
    and R1 failed in this very checkout. *)
Example ex_bypass_needs_shard_down :
  let outs := fun a => if addr_eq_dec a R3 then Conn false HcOk else ConnFail in
  get C3 (Some Replica) None [R3; R1; R2] outs (fun _ => 101) (fun _ => 101) [(R3, (FailedCheckout, 100))] = (Ok R3, [R2; R1; R3], []).
Proof. vm_compute. reflexivity. Qed.

(** ... and why [c07_failover_silent_banned] has the same escape: R2 and R1 failed here and are
    NOT banned afterwards (the reset triggered by R3 wiped them). *)
Example ex_failed_not_banned_after_reset :
  let outs := fun a => if addr_eq_dec a R3 then Conn false HcOk else ConnFail in
  let '(_, _, bl') := get C3 (Some Replica) None [R3; R1; R2] outs (fun _ => 101) (fun _ => 101) [(R3, (FailedCheckout, 100))] in
  is_banned R1 bl' = false /\ is_banned R2 bl' = false.
Proof. vm_compute. auto. Qed.

(** the two clock readings of one address differ: R2's ban is found expired at second 161 and the
    re-ban after the failed forced health check is stamped 162 *)
Example ex_two_clock_readings :
  get C3 (Some Replica) None [R1; R3; R2] (fun a => if addr_eq_dec a R2 then Conn true HcTimeout else Conn false HcOk)
      (fun _ => 161) (fun _ => 162) [(R2, (FailedCheckout, 100))] = (Ok R3, [R2; R3], [(R2, (FailedHealthCheck, 162))]).
Proof. vm_compute. reflexivity. Qed.

(** refusal: every replica down and role = replica *)
Example ex_all_down :
  get C2 (Some Replica) None [R1; R2] (fun _ => ConnFail) (fun _ => 100) (fun _ => 100) [] =
    (ErrAllDown, [R2; R1], [(R1, (FailedCheckout, 100)); (R2, (FailedCheckout, 100))]).
Proof. vm_compute. reflexivity. Qed.

(** role = any falls back to the primary when both replicas are down *)
Example ex_any_falls_back_to_primary :
  get C2 None None [P; R1; R2] (fun a => if addr_eq_dec a P then Conn false HcOk else ConnFail) (fun _ => 100) (fun _ => 100) [] =
    (Ok P, [R2; R1; P], [(R1, (FailedCheckout, 100)); (R2, (FailedCheckout, 100))]).
Proof. vm_compute. reflexivity. Qed.

(** a statement failure on a replica bans it, re-banning refreshes reason and time *)
Example ex_exec_fail :
  run C3 [] [ExecFail R1 KRecv 100 false; ExecFail R1 KStmtTimeout 130 true] = [(R1, (StatementTimeout, 130))].
Proof. vm_compute. reflexivity. Qed.

(** out-of-band re-prepare: rejected statement => nothing; dead connection => ban *)
Example ex_oob :
  run C3 [] [OobPrepare R1 OobServerError 100; OobPrepare R2 OobOk 100] = [] /\
  run C3 [] [OobPrepare R1 OobServerError 100; OobPrepare R2 OobConnFail 101] = [(R2, (MessageSendFailed, 101))].
Proof. vm_compute. auto. Qed.

(** three servers of two shards on one host (different ports): BAN reaches all replicas among them *)
Example ex_shared_host :
  let A := mkAddr 1 0 Replica 20 in let B := mkAddr 2 0 Replica 20 in let D := mkAddr 4 1 Replica 20 in let Q := mkAddr 3 1 Primary 20 in
  let c := mkCfg [P; A; B; Q; D] 2 60 (DShard 0) in
  keys (admin_ban c 20 5 100 []) = [D; B; A] /\ admin_unban c 20 (admin_ban c 20 5 100 []) = [].
Proof. vm_compute. auto. Qed.

(** UNBAN *)
Example ex_unban : admin_unban C3 12 [(R1, (FailedCheckout, 1)); (R2, (AdminBan 5, 1))] = [(R1, (FailedCheckout, 1))].
Proof. vm_compute. reflexivity. Qed.

(** the enumeration of the tie: 3 replicas, R2 down, all 6 orders => 4 distinct observations *)
Example ex_tie_get :
  length (tie_get C3 [] (Some Replica) None [(R1, [Conn false HcOk]); (R2, [ConnFail]); (R3, [Conn false HcOk])] [100]) = 4%nat.
Proof. vm_compute. reflexivity. Qed.

(** the hypotheses of the theorems are satisfiable: a reachable non-empty state *)
Example ex_reachable : reachable C3 [(R2, (FailedCheckout, 100))].
Proof.
  exists [Get (Some Replica) None [R3; R1; R2] (down1 R2) (fun _ => 100) (fun _ => 100)]. split; [|vm_compute; reflexivity].
  constructor; [|constructor]. cbn. split.
  - repeat constructor; cbn; intuition discriminate.
  - intros a. vm_compute. tauto.
Qed.
