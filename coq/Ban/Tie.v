(** C07 — executable helpers for the correspondence check (no property theorem depends on this
    file).  The wire harness observes one checkout at a time; the environment choices the model
    quantifies over (candidate order, outcome per address, clock reading) are only partly
    visible in a trace, so the driver asks for EVERY observation the model allows under the
    choices that remain open and checks membership. *)
From Coq Require Import ZArith List Bool Arith.
From PV Require Import Ban.Model.
Import ListNotations.
Open Scope Z_scope.

Fixpoint insert_all {A : Type} (x : A) (l : list A) : list (list A) :=
  match l with
  | [] => [[x]]
  | y :: r => (x :: y :: r) :: map (cons y) (insert_all x r)
  end.

Fixpoint perms {A : Type} (l : list A) : list (list A) :=
  match l with
  | [] => [[]]
  | x :: r => flat_map (insert_all x) (perms r)
  end.

(** every way of picking one outcome per address *)
Fixpoint assigns (l : list (addr * list outcome)) : list (list (addr * outcome)) :=
  match l with
  | [] => [[]]
  | (a, os) :: r => flat_map (fun o => map (cons (a, o)) (assigns r)) os
  end.

Fixpoint outs_of (l : list (addr * outcome)) (a : addr) : outcome :=
  match l with
  | [] => ConnFail
  | (b, o) :: r => if addr_eq_dec b a then o else outs_of r a
  end.

(** Observations are printed with address ids only. *)
Inductive pres : Type := POk (id : nat) | PAllDown | PInvalid.
Definition obs : Type := (pres * list nat * list (nat * reason * Z))%type.

Definition proj_bl (bl : banlist) : list (nat * reason * Z) :=
  map (fun e => (a_id (fst e), fst (snd e), snd (snd e))) bl.

Definition proj (r : gres * list addr * banlist) : obs :=
  let '(g, ct, bl) := r in
  (match g with Ok a => POk (a_id a) | ErrAllDown => PAllDown | ErrInvalidShard => PInvalid end,
   map a_id ct, proj_bl bl).

Definition reason_eq_dec : forall x y : reason, {x = y} + {x <> y}.
Proof. decide equality; apply Z.eq_dec. Defined.

Definition obs_eq_dec : forall x y : obs, {x = y} + {x <> y}.
Proof.
  decide equality.
  - apply list_eq_dec. decide equality; [apply Z.eq_dec|]. decide equality; [apply reason_eq_dec|apply Nat.eq_dec].
  - decide equality; [apply list_eq_dec, Nat.eq_dec|]. decide equality. apply Nat.eq_dec.
Defined.

(** Which contacted address was health-checked: the same loop as [get_loop], recording for each
    contact whether [require_healthcheck] held ([trace_loop_ct] below ties it to [get_loop]). *)
Definition checked (force : bool) (o : outcome) : bool :=
  match o with ConnFail => false | Conn fresh _ => force || negb fresh end.

Fixpoint trace_loop (c : cfg) (tc bc : addr -> Z) (outs : addr -> outcome) (todo : list addr) (bl : banlist)
  : list (addr * bool) :=
  match todo with
  | [] => []
  | a :: rest =>
      match gate c (tc a) a bl with
      | None => trace_loop c tc bc outs rest bl
      | Some (f, bl1) =>
          match contact (bc a) outs a f bl1 with
          | Skip b => trace_loop c tc bc outs rest b      (* [contact] never skips *)
          | Fail b => (a, checked f (outs a)) :: trace_loop c tc bc outs rest b
          | Done _ => [(a, checked f (outs a))]
          end
      end
  end.

Definition tobs : Type := (obs * list bool)%type.

Definition tobs_eq_dec : forall x y : tobs, {x = y} + {x <> y}.
Proof. decide equality; [apply list_eq_dec, Bool.bool_dec|apply obs_eq_dec]. Defined.

(** All observations of one client transaction from ban list [bl]: the checkout over every order
    of the candidates, every choice of one outcome per address among the listed ones, every listed
    clock reading; [after]: what happened on the handed-out server afterwards ([ExecFail], [OobPrepare]).  Each observation carries, per contacted address, whether it was
    health-checked. *)
Fixpoint is_prefix (p l : list addr) : bool :=
  match p, l with
  | [], _ => true
  | x :: p', y :: l' => if addr_eq_dec x y then is_prefix p' l' else false
  | _ :: _, [] => false
  end.

(** [first]: addresses known to be popped first, in this order (least-outstanding-connections mode
    with strictly fewer busy connections than every other candidate); [[]] = nothing known. *)
Definition tie_txn (c : cfg) (bl : banlist) (req : option role) (shard : option nat)
                   (opts : list (addr * list outcome)) (nows : list Z) (after : option (addr -> Z -> op))
                   (first : list addr) : list tobs :=
  nodup tobs_eq_dec
    (flat_map (fun now =>
       flat_map (fun asg =>
         map (fun order =>
                let '(g, ct, bl1) := get c req shard order (outs_of asg) (fun _ => now) (fun _ => now) bl in
                let hcs := match effective_sel c shard with
                           | SInvalid => []
                           | _ => map snd (trace_loop c (fun _ => now) (fun _ => now) (outs_of asg) (rev order) bl)
                           end in
                match g, after with
                | Ok a, Some f => (proj (g, ct, step c bl1 (f a now)), hcs)
                | _, _ => (proj (g, ct, bl1), hcs)
                end)
             (filter (fun order => is_prefix first (rev order)) (perms (candidates c req (effective_sel c shard)))))
         (assigns opts))
       nows).

Definition tie_get (c : cfg) (bl : banlist) (req : option role) (shard : option nat)
                   (opts : list (addr * list outcome)) (nows : list Z) : list obs :=
  nodup obs_eq_dec (map fst (tie_txn c bl req shard opts nows None [])).

Definition tie_step (c : cfg) (bl : banlist) (o : op) : list (nat * reason * Z) := proj_bl (step c bl o).

Lemma trace_loop_ct : forall c tc bc outs todo bl,
  map fst (trace_loop c tc bc outs todo bl) = snd (fst (get_loop c tc bc outs todo bl)).
Proof.
  induction todo as [|a rest IH]; intros bl; cbn; [reflexivity|]. unfold visit.
  destruct (gate c (tc a) a bl) as [[f bl1]|]; [|apply IH].
  destruct (contact (bc a) outs a f bl1) as [b|b|b]; cbn.
  - apply IH.
  - rewrite IH. destruct (get_loop c tc bc outs rest b) as [[r ct] b2]. reflexivity.
  - reflexivity.
Qed.

(** [perms] really enumerates rearrangements (soundness; used to justify that every printed
    observation is one of a well-formed [Get]). *)
Lemma insert_all_spec : forall (A : Type) (x : A) l p, In p (insert_all x l) ->
  forall y, In y p <-> y = x \/ In y l.
Proof.
  induction l as [|z r IH]; cbn; intros p H y.
  - destruct H as [H|[]]. subst. cbn. split; [intros [E|[]]; auto|intros [E|[]]; auto].
  - destruct H as [H|H].
    + subst. cbn. split; [intros [E|[E|E]]; auto|intros [E|[E|E]]; auto].
    + apply in_map_iff in H. destruct H as [q [E I]]. subst. cbn. rewrite (IH q I y).
      split; [intros [E|[E|E]]; auto|intros [E|[E|E]]; auto].
Qed.

Lemma insert_all_NoDup : forall (A : Type) (x : A) l p, In p (insert_all x l) -> ~ In x l -> NoDup l -> NoDup p.
Proof.
  induction l as [|z r IH]; cbn; intros p H NX ND.
  - destruct H as [H|[]]. subst. constructor; [intros []|constructor].
  - inversion ND; subst. destruct H as [H|H].
    + subst. constructor; [cbn; intros [E|E]; [subst; apply NX; left; reflexivity|apply NX; right; exact E]|exact ND].
    + apply in_map_iff in H. destruct H as [q [E I]]. subst. constructor.
      * rewrite (insert_all_spec A x r q I z). intros [E|E]; [subst; apply NX; left; reflexivity|contradiction].
      * apply IH; auto.
Qed.

Lemma perms_sound : forall (A : Type) (l p : list A), NoDup l -> In p (perms l) ->
  NoDup p /\ forall y, In y p <-> In y l.
Proof.
  induction l as [|x r IH]; cbn; intros p ND H.
  - destruct H as [H|[]]. subst. split; [constructor|intros y; split; intros []].
  - inversion ND; subst. apply in_flat_map in H. destruct H as [q [Q I]].
    destruct (IH q H3 Q) as [NQ EQ]. split.
    + eapply insert_all_NoDup; eauto. rewrite EQ. exact H2.
    + intros y. rewrite (insert_all_spec A x q p I y), EQ. split; [intros [E|E]; [left; congruence|right; exact E]|intros [E|E]; [left; congruence|right; exact E]].
Qed.

Lemma tie_orders_wf : forall c req shard order, NoDup (servers c) ->
  In order (perms (candidates c req (effective_sel c shard))) -> wf_order c req shard order.
Proof.
  intros c req shard order W H. unfold wf_order. apply perms_sound; [|exact H].
  unfold candidates. induction (servers c) as [|x r IH]; cbn; [constructor|].
  inversion W; subst. destruct (role_matches x req && sel_matches x (effective_sel c shard)); [constructor|]; auto.
  intros I. apply filter_In in I. tauto.
Qed.
