(** C07 — broken replicas are banned and bypassed; service continues on healthy servers.

    Executable model of the ban list of ONE connection pool (one (database, user) pair; every
    pool owns its own ban list, src/pool.rs:280,525,539).  Definitions only; proofs in
    Proofs.v, property theorems in Props.v, the enumeration used by the tie in Tie.v.

    Code modelled (read line by line, /repo at the checked tree):

    src/config.rs:31-39,51-58   [Role]; [Role == Option<Role>]: [None] matches every role
    src/config.rs:70-110,143-175 [Address]; [Eq]/[Hash] over id, host, port, shard, index, role, ...
                                 (stats / error_count excluded): two clones of one pool address are
                                 equal, two different servers of a pool differ (unique [id])
    src/pool.rs:40              [BanList = Vec<HashMap<Address, (BanReason, NaiveDateTime)>>], one
                                 map per shard, keyed by address, [insert] overwrites
    src/pool.rs:51-58           [BanReason]
    src/pool.rs:715-855         [get]: effective shard (721-730), candidates = addresses whose role
                                 [==] the request (732-737), shuffle (742), shard filter / default
                                 shard (744-760), optional sort by busy connections (762-768), then
                                 the loop: pop from the BACK (776); banned => [try_unban], true =>
                                 forced health check, false => next (781-790); bb8 checkout, error =>
                                 [ban FailedCheckout], next (793-811); health check needed iff
                                 forced or idle longer than healthcheck_delay (817-819); not needed
                                 => return (824-833); [run_health_check] ok => return, else next
                                 (835-849); candidates exhausted => [AllServersDown] (854)
    src/pool.rs:857-910         [run_health_check]: [";"] under healthcheck_timeout; error or
                                 timeout => mark_bad + [ban FailedHealthCheck]
    src/pool.rs:915-944         [ban]: primary => return; else insert (reason, now) under the
                                 address in the map of ITS shard
    src/pool.rs:948-965         [unban], [is_banned]
    src/pool.rs:968-1021        [try_unban]: primary => true; [banlist[shard].len() == number of
                                 replicas configured in the shard] => clear that map, true; entry
                                 present => AdminBan(d): [now - ts > d], other: [now - ts > ban_time]
                                 (differences of whole unix seconds, strict), expired => remove,
                                 true, else false; entry absent => true
    src/client.rs:2042-2101     a checked-out server fails: send error => [ban MessageSendFailed];
                                 recv error => [ban MessageReceiveFailed]; statement timeout =>
                                 mark_bad + [ban StatementTimeout]   (also client.rs:1811)
    src/admin.rs:409-463        [BAN host secs]: secs <= 0 refused; every address of every pool
                                 whose [host] equals the argument and that [!is_banned] gets
                                 [pool.ban(AdminBan(secs))] (which does nothing for a primary)
    src/admin.rs:466-506        [UNBAN host]: every such address that [is_banned] is [unban]ned

    Environment (inputs of the model, chosen adversarially in every theorem):
      * [order]: the candidate vector right before the loop — ANY permutation of the candidates
        (covers [shuffle], the RandomHealthy sort and the least-outstanding-connections sort, whose
        keys — error counters, bb8 busy counts — are not modelled);
      * [outs : addr -> outcome]: what happens if the loop contacts an address: bb8 checkout fails
        ([ConnFail]: refused, connect/startup hangs until connect_timeout, or the pool is busy for
        connect_timeout), or a connection is obtained ([Conn fresh hc]) where [fresh] says that its
        last activity is at most healthcheck_delay ago (no health check unless forced) and [hc] is
        the result a health check would have; an address is popped at most once per [get], so a
        function of the address is fully general;
      * the clock, whole seconds: one reading per admin command / statement failure; inside a
        checkout two readings per address ([tc a] in try_unban, [bc a] in ban), all arbitrary
        (not even monotone). *)
From Coq Require Import ZArith List Bool Arith Lia.
Import ListNotations.
Open Scope Z_scope.

(** * Addresses *)

(** [Role::Mirror] never appears in [ConnectionPool::addresses] (mirrors live inside an address,
    pool.rs:365-389, and config validation rejects [role = mirror] servers). *)
Inductive role : Type := Primary | Replica.

Record addr : Type := mkAddr {
  a_id : nat;        (* unique per address of the process (pool.rs:316,392,408) *)
  a_shard : nat;
  a_role : role;
  a_host : nat       (* host name, abstracted to a number (admin BAN/UNBAN match on it) *)
}.

Definition role_eq_dec : forall x y : role, {x = y} + {x <> y}.
Proof. decide equality. Defined.

Definition addr_eq_dec : forall x y : addr, {x = y} + {x <> y}.
Proof. decide equality; try apply Nat.eq_dec; apply role_eq_dec. Defined.

Definition is_replica (a : addr) : bool :=
  match a_role a with Replica => true | Primary => false end.

(** * Ban list *)

Inductive reason : Type :=
| FailedHealthCheck | MessageSendFailed | MessageReceiveFailed | FailedCheckout
| StatementTimeout | AdminBan (d : Z).

Definition entry : Type := (addr * (reason * Z))%type.

(** One association list for the whole pool; an address carries its shard, and the code only
    ever files an address under [banlist[address.shard]], so the per-shard map of the code is the
    view [shard_bl].  Keys are kept duplicate-free by [insert_ban] (HashMap semantics). *)
Definition banlist : Type := list entry.

Definition keys (bl : banlist) : list addr := map fst bl.

Fixpoint find_ban (a : addr) (bl : banlist) : option (reason * Z) :=
  match bl with
  | [] => None
  | (b, v) :: r => if addr_eq_dec b a then Some v else find_ban a r
  end.

Definition is_banned (a : addr) (bl : banlist) : bool :=
  match find_ban a bl with Some _ => true | None => false end.

Definition remove_ban (a : addr) (bl : banlist) : banlist :=
  filter (fun e => if addr_eq_dec (fst e) a then false else true) bl.

Definition insert_ban (a : addr) (v : reason * Z) (bl : banlist) : banlist :=
  (a, v) :: remove_ban a bl.

Definition shard_bl (bl : banlist) (sh : nat) : banlist :=
  filter (fun e => Nat.eqb (a_shard (fst e)) sh) bl.

Definition clear_shard (bl : banlist) (sh : nat) : banlist :=
  filter (fun e => negb (Nat.eqb (a_shard (fst e)) sh)) bl.

(** * Configuration *)

Inductive dshard : Type := DShard (n : nat) | DRandom.  (* RandomHealthy = DRandom + a sort *)

Record cfg : Type := mkCfg {
  servers : list addr;       (* every address of every shard of the pool *)
  nshards : nat;
  ban_time : Z;              (* general.ban_time, seconds *)
  default_shard : dshard
}.

Definition nreplicas (c : cfg) (sh : nat) : nat :=
  length (filter (fun a => is_replica a && Nat.eqb (a_shard a) sh) (servers c)).

(** pool.rs:915-944 *)
Definition ban (a : addr) (r : reason) (now : Z) (bl : banlist) : banlist :=
  match a_role a with
  | Primary => bl
  | Replica => insert_ban a (r, now) bl
  end.

(** Has the ban of [a] run out at [now]?  (pool.rs:996-1007; absent entry => true) *)
Definition expired (c : cfg) (now : Z) (bl : banlist) (a : addr) : bool :=
  match find_ban a bl with
  | Some (AdminBan d, ts) => now - ts >? d
  | Some (_, ts) => now - ts >? ban_time c
  | None => true
  end.

Definition all_replicas_banned (c : cfg) (bl : banlist) (sh : nat) : bool :=
  Nat.eqb (length (shard_bl bl sh)) (nreplicas c sh).

(** pool.rs:968-1021.  Returns (may be used, ban list afterwards). *)
Definition try_unban (c : cfg) (now : Z) (a : addr) (bl : banlist) : bool * banlist :=
  match a_role a with
  | Primary => (true, bl)
  | Replica =>
      if all_replicas_banned c bl (a_shard a) then (true, clear_shard bl (a_shard a))
      else match find_ban a bl with
           | None => (true, bl)
           | Some _ => if expired c now bl a then (true, remove_ban a bl) else (false, bl)
           end
  end.

(** * Checkout *)

Inductive hc : Type := HcOk | HcFail | HcTimeout.
Inductive outcome : Type := ConnFail | Conn (fresh : bool) (h : hc).
(** The five outcomes of the design: ConnFail, HcOk = [Conn false HcOk], HcFail = [Conn false
    HcFail], HcTimeout = [Conn false HcTimeout], Fresh = [Conn true _] (the health-check result of a
    fresh connection matters only when the check is forced). *)

Inductive vres : Type :=
| Skip (bl : banlist)      (* banned and not unbannable: not contacted *)
| Fail (bl : banlist)      (* contacted, failed, banned *)
| Done (bl : banlist).     (* contacted and handed to the client *)

(** pool.rs:781-790: may the popped address be contacted, and is the health check forced?
    [None] = banned and not unbannable ([continue]). *)
Definition gate (c : cfg) (now : Z) (a : addr) (bl : banlist) : option (bool * banlist) :=
  if is_banned a bl
  then let '(ok, bl') := try_unban c now a bl in if ok then Some (true, bl') else None
  else Some (false, bl).

(** pool.rs:793-849: checkout, health check when forced or not fresh. *)
Definition contact (now : Z) (outs : addr -> outcome) (a : addr) (force : bool) (bl1 : banlist) : vres :=
  match outs a with
  | ConnFail => Fail (ban a FailedCheckout now bl1)
  | Conn fresh h =>
      if force || negb fresh
      then match h with
           | HcOk => Done bl1
           | _ => Fail (ban a FailedHealthCheck now bl1)
           end
      else Done bl1
  end.

(** One iteration of the loop for the popped address [a].  The code reads the clock separately
    in [try_unban] and in [ban] (a connect or health-check timeout may lie in between), so the
    environment supplies two readings per address: [tc a] for the expiry test, [bc a] for the
    time stamp of a new ban. *)
Definition visit (c : cfg) (tc bc : addr -> Z) (outs : addr -> outcome) (a : addr) (bl : banlist) : vres :=
  match gate c (tc a) a bl with
  | None => Skip bl
  | Some (force, bl1) => contact (bc a) outs a force bl1
  end.

Inductive gres : Type := Ok (a : addr) | ErrAllDown | ErrInvalidShard.

(** The loop over the addresses still to pop, next one first.  Returns the result, the addresses
    CONTACTED (checkout attempted) in order, and the ban list afterwards. *)
Fixpoint get_loop (c : cfg) (tc bc : addr -> Z) (outs : addr -> outcome) (todo : list addr) (bl : banlist)
  : gres * list addr * banlist :=
  match todo with
  | [] => (ErrAllDown, [], bl)
  | a :: rest =>
      match visit c tc bc outs a bl with
      | Skip bl1 => get_loop c tc bc outs rest bl1
      | Fail bl1 => let '(r, ct, bl2) := get_loop c tc bc outs rest bl1 in (r, a :: ct, bl2)
      | Done bl1 => (Ok a, [a], bl1)
      end
  end.

(** Which addresses compete (pool.rs:721-760). *)
Inductive sel : Type := SShard (n : nat) | SAll | SInvalid.

Definition effective_sel (c : cfg) (shard : option nat) : sel :=
  if Nat.eqb (nshards c) 1 then SShard 0
  else match shard with
       | Some n => if Nat.ltb n (nshards c) then SShard n else SInvalid
       | None => match default_shard c with DShard n => SShard n | DRandom => SAll end
       end.

Definition role_matches (a : addr) (req : option role) : bool :=
  match req with
  | None => true
  | Some r => if role_eq_dec (a_role a) r then true else false
  end.

Definition sel_matches (a : addr) (s : sel) : bool :=
  match s with SShard n => Nat.eqb (a_shard a) n | SAll => true | SInvalid => false end.

Definition candidates (c : cfg) (req : option role) (s : sel) : list addr :=
  filter (fun a => role_matches a req && sel_matches a s) (servers c).

(** [order] is the candidate vector as it stands before the loop; the loop pops from its back. *)
Definition get (c : cfg) (req : option role) (shard : option nat) (order : list addr)
               (outs : addr -> outcome) (tc bc : addr -> Z) (bl : banlist) : gres * list addr * banlist :=
  match effective_sel c shard with
  | SInvalid => (ErrInvalidShard, [], bl)
  | _ => get_loop c tc bc outs (rev order) bl
  end.

(** * Operations on the pool's ban list *)

Definition in_servers (c : cfg) (a : addr) : bool :=
  if in_dec addr_eq_dec a (servers c) then true else false.

Definition host_addrs (c : cfg) (h : nat) : list addr :=
  filter (fun a => Nat.eqb (a_host a) h) (servers c).

(** admin.rs:441-453 for this pool *)
Definition admin_ban (c : cfg) (h : nat) (d : Z) (now : Z) (bl : banlist) : banlist :=
  if d <=? 0 then bl
  else fold_left (fun b a => if is_banned a b then b else ban a (AdminBan d) now b) (host_addrs c h) bl.

(** admin.rs:484-496 *)
Definition admin_unban (c : cfg) (h : nat) (bl : banlist) : banlist :=
  fold_left (fun b a => if is_banned a b then remove_ban a b else b) (host_addrs c h) bl.

Inductive exec_kind : Type := KSend | KRecv | KStmtTimeout.
Definition reason_of (k : exec_kind) : reason :=
  match k with KSend => MessageSendFailed | KRecv => MessageReceiveFailed | KStmtTimeout => StatementTimeout end.

(** How the out-of-band exchange ended, as seen by pgcat. *)
Inductive oob_result : Type :=
| OobOk              (* ParseComplete, ReadyForQuery *)
| OobServerError     (* ErrorResponse, ReadyForQuery: the server REJECTED the statement *)
| OobConnFail.       (* write or read on the server socket failed *)

Inductive op : Type :=
| Get (req : option role) (shard : option nat) (order : list addr) (outs : addr -> outcome) (tc bc : addr -> Z)
| ExecFail (a : addr) (k : exec_kind) (now : Z) (client_gone : bool)
    (* a checked-out server of this pool breaks while a statement is in flight; [client_gone]: the
       client that sent the statement has closed or reset its socket meanwhile.  client.rs:2178,2195
       call [pool.ban] BEFORE the error is written to the client, so the ban does not depend on it
       (c07_exec_fail_independent_of_client). *)
| OobPrepare (a : addr) (r : oob_result) (now : Z)
    (* pgcat's OWN exchange with a checked-out server: Parse (/ Close) + Sync sent by
       Server::register_prepared_statement when a client Binds or Describes a cached named statement
       on a server connection that lacks it (prepared_statements_cache_size > 0; client.rs:1838-1857,
       1879-1892, server.rs register_prepared_statement).  The decision about a ban is taken on the
       error VALUE: [Error::PreparedStatementError] = the server answered the Parse with an
       ErrorResponse (the statement is bad, the server is fine): no ban; any other error = the
       connection failed: [ban MessageSendFailed]. *)
| AdminBan_ (h : nat) (d : Z) (now : Z)
| AdminUnban (h : nat).

(** The addresses a client task bans are clones of the pool's own addresses (they come out of
    [get]); an [ExecFail] on anything else is not an event of this pool. *)
Definition step (c : cfg) (bl : banlist) (o : op) : banlist :=
  match o with
  | Get req shard order outs tc bc => snd (get c req shard order outs tc bc bl)
  | ExecFail a k now _ => if in_servers c a then ban a (reason_of k) now bl else bl
  | OobPrepare a r now =>
      match r with
      | OobConnFail => if in_servers c a then ban a MessageSendFailed now bl else bl
      | OobOk | OobServerError => bl
      end
  | AdminBan_ h d now => admin_ban c h d now bl
  | AdminUnban h => admin_unban c h bl
  end.

Definition run (c : cfg) (bl : banlist) (ops : list op) : banlist := fold_left (step c) ops bl.

(** A [Get] is well formed when its [order] is a rearrangement of the candidates (stated with
    [NoDup] + mutual inclusion, which is what the proofs use; for duplicate-free lists this is
    [Permutation]). *)
Definition wf_order (c : cfg) (req : option role) (shard : option nat) (order : list addr) : Prop :=
  NoDup order /\ forall a, In a order <-> In a (candidates c req (effective_sel c shard)).

Definition wf_op (c : cfg) (o : op) : Prop :=
  match o with
  | Get req shard order _ _ _ => wf_order c req shard order
  | _ => True
  end.

(** * Server-facing awaits of a client task and the timeout that bounds each (the property's last
    sentence).  A table transcribed from the code; the tie hangs a backend at each exercised site. *)
Inductive site : Type :=
| SCheckout          (* pool.rs:793-796 bb8 get: connect + startup, or wait for a free slot *)
| SHealthCheck       (* pool.rs:868-872 *)
| SRelayRecv         (* client.rs:2070-2074 *)
| SRelaySend         (* client.rs:2049 server.send: write_all_flush, no timeout (blocks only when
                        the server stops reading and the socket buffer fills) [read, not exercised] *)
| SSyncParameters    (* client.rs:1160 -> server.rs:1284 query -> recv(None), no timeout *)
| SCheckinCleanup    (* client.rs:1194,1304,1621 -> server.rs:1341,1365 query, no timeout *)
| SRegisterPrepared. (* client.rs:1803-1805 -> server.rs:1195-1203 send + recv(None), no timeout *)

Inductive bound : Type := ConnectTimeout | HealthcheckTimeout | StatementTimeoutCfg.

(** [stmt] = the user's statement_timeout is non-zero (0 disables it, client.rs:2065-2068). *)
Definition guard (stmt : bool) (s : site) : option bound :=
  match s with
  | SCheckout => Some ConnectTimeout
  | SHealthCheck => Some HealthcheckTimeout
  | SRelayRecv => if stmt then Some StatementTimeoutCfg else None
  | SRelaySend | SSyncParameters | SCheckinCleanup | SRegisterPrepared => None
  end.

(** The recorded finding F10: awaits with no bound whatever the configuration. *)
Definition known_unguarded (s : site) : bool :=
  match s with
  | SRelaySend | SSyncParameters | SCheckinCleanup | SRegisterPrepared => true
  | _ => false
  end.
