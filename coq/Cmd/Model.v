(** C13 — executable model of pgcat's custom SET/SHOW command language.

    Transcribed from (line numbers of the tree the model was written against):
      /repo/src/query_router.rs:30-38    CUSTOM_SQL_REGEXES (the seven literals)
      /repo/src/query_router.rs:163-372  QueryRouter::try_execute_command
      /repo/src/client.rs:1659-1742      Client::handle_custom_protocol
      /repo/src/messages.rs:303-319      custom_protocol_response_ok
      /repo/src/messages.rs:324-368      error_response / error_response_terminal
      /repo/src/messages.rs:407-531      show_response, row_description, data_row, command_complete
      /repo/src/messages.rs:575-589      ready_for_query
      /repo/src/messages.rs:749-755      BytesMutReader::read_string (Cursor)

    Bytes are [N] (< 256).  The query text is modelled at the level of the RAW bytes of the
    Query message: the code decodes them with String::from_utf8_lossy and runs the regex crate
    on the resulting &str.  Every literal of the seven regexes is ASCII and the flags are
    (?i-u): case folding is ASCII-only, so a non-ASCII character (or U+FFFD, which invalid
    UTF-8 becomes) matches nothing.  "The decoded string matches" is therefore a property of
    the raw bytes, which is what [classify] decides.  Definitions only; all executable. *)
From Coq Require Import NArith String Ascii List Bool.
Import ListNotations.
Open Scope N_scope.

Definition B (s : string) : list N := map N_of_ascii (list_ascii_of_string s).

(* ------------------------------------------------------------------ characters *)
Definition is_space (b : N) : bool := b =? 32.
Definition is_digit (b : N) : bool := (48 <=? b) && (b <=? 57).
Definition is_upper (b : N) : bool := (65 <=? b) && (b <=? 90).
Definition is_lower (b : N) : bool := (97 <=? b) && (b <=? 122).
Definition lower (b : N) : N := if is_upper b then b + 32 else b.
Definition upper (b : N) : N := if is_lower b then b - 32 else b.
Definition is_letter (b : N) : bool := is_lower (lower b).

Fixpoint strip_prefix (p s : list N) : option (list N) :=
  match p, s with
  | [], _ => Some s
  | x :: p', y :: s' => if x =? y then strip_prefix p' s' else None
  | _ :: _, [] => None
  end.

(* one literal character of a regex under (?i-u) (ASCII-only case folding): (consumed, rest) *)
Definition eat_char (c : N) (s : list N) : option (list N * list N) :=
  match s with
  | [] => None
  | b :: r => if lower b =? lower c then Some ([b], r) else None
  end.

Fixpoint match_kw (kw s : list N) : option (list N * list N) :=
  match kw with
  | [] => Some ([], s)
  | c :: kw' =>
      match eat_char c s with
      | Some (w, r) =>
          match match_kw kw' r with
          | Some (w', r') => Some (w ++ w', r')
          | None => None
          end
      | None => None
      end
  end.

Fixpoint skip_sp (s : list N) : list N :=
  match s with
  | b :: r => if is_space b then skip_sp r else s
  | [] => []
  end.

Fixpoint take_digits (s : list N) : list N * list N :=
  match s with
  | b :: r => if is_digit b then let (d, t) := take_digits r in (b :: d, t) else ([], s)
  | [] => ([], [])
  end.

(* '? *)
Definition opt_quote (s : list N) : list N := match s with 39 :: r => r | _ => s end.

(*  *;? *$  *)
Definition tail_ok (s : list N) : bool :=
  let s1 := skip_sp s in
  let s2 := match s1 with 59 :: r => r | _ => s1 end in
  match skip_sp s2 with [] => true | _ => false end.

(* ------------------------------------------------------------------ the seven forms *)
Inductive cmd := SetShardingKey | SetShard | ShowShard | SetServerRole | ShowServerRole
               | SetPrimaryReads | ShowPrimaryReads
               | InvalidShardingKey.   (* never recognised, only returned by [texec] *)

Definition cmd_eqb (a b : cmd) : bool :=
  match a, b with
  | SetShardingKey, SetShardingKey | SetShard, SetShard | ShowShard, ShowShard
  | SetServerRole, SetServerRole | ShowServerRole, ShowServerRole
  | SetPrimaryReads, SetPrimaryReads | ShowPrimaryReads, ShowPrimaryReads
  | InvalidShardingKey, InvalidShardingKey => true
  | _, _ => false
  end.

Inductive argkind := ADigits                 (* [0-9]+ *)
                   | AWord (w : list N).     (* a literal alternative *)
Inductive qmode := QNoArg                    (* no capture group *)
                 | QOpt                      (* '?( .. )'?  : each quote independently optional *)
                 | QMand.                    (* '( .. )'    : both quotes mandatory *)

Record form := mkForm { f_cmd : cmd; f_kw : list N; f_q : qmode; f_args : list argkind }.

(* query_router.rs:30-38, in the order of the array (index = RegexSet match index, :245-254) *)
Definition forms : list form :=
  [ mkForm SetShardingKey   (B "SET SHARDING KEY TO ")  QOpt   [ADigits];
    mkForm SetShard         (B "SET SHARD TO ")         QOpt   [ADigits; AWord (B "ANY")];
    mkForm ShowShard        (B "SHOW SHARD")            QNoArg [];
    mkForm SetServerRole    (B "SET SERVER ROLE TO ")   QMand  [AWord (B "PRIMARY"); AWord (B "REPLICA"); AWord (B "ANY");
                                                                AWord (B "AUTO"); AWord (B "DEFAULT")];
    mkForm ShowServerRole   (B "SHOW SERVER ROLE")      QNoArg [];
    mkForm SetPrimaryReads  (B "SET PRIMARY READS TO ") QOpt   [AWord (B "on"); AWord (B "off"); AWord (B "default")];
    mkForm ShowPrimaryReads (B "SHOW PRIMARY READS")    QNoArg [] ].

(* the regex literal a form stands for; compared on every run with the literals extracted
   from /repo/src/query_router.rs (T1) *)
Definition render_arg (k : argkind) : list N := match k with ADigits => B "[0-9]+" | AWord w => w end.
Fixpoint join_bar (l : list (list N)) : list N :=
  match l with [] => [] | [x] => x | x :: r => x ++ [124] ++ join_bar r end.
Definition render_form (f : form) : list N :=
  B "(?i-u)^ *" ++ f_kw f ++
  match f_q f with
  | QNoArg => []
  | QOpt => B "'?(" ++ join_bar (map render_arg (f_args f)) ++ B ")'?"
  | QMand => B "'(" ++ join_bar (map render_arg (f_args f)) ++ B ")'"
  end ++ B " *;? *$".

Definition match_arg (k : argkind) (s : list N) : option (list N * list N) :=
  match k with
  | ADigits => match take_digits s with ([], _) => None | (d, r) => Some (d, r) end
  | AWord w => match_kw w s
  end.

Fixpoint first_arg (ks : list argkind) (s : list N) : option (list N * list N) :=
  match ks with
  | [] => None
  | k :: ks' => match match_arg k s with Some x => Some x | None => first_arg ks' s end
  end.

(* does the whole text match the form's regex?  Some capture / None *)
Definition recog (f : form) (s : list N) : option (list N) :=
  match match_kw (f_kw f) (skip_sp s) with
  | None => None
  | Some (_, r) =>
      match f_q f with
      | QNoArg => if tail_ok r then Some [] else None
      | QOpt =>
          match first_arg (f_args f) (opt_quote r) with
          | Some (a, r2) => if tail_ok (opt_quote r2) then Some a else None
          | None => None
          end
      | QMand =>
          match r with
          | 39 :: r1 =>
              match first_arg (f_args f) r1 with
              | Some (a, 39 :: r2) => if tail_ok r2 then Some a else None
              | _ => None
              end
          | _ => None
          end
      end
  end.

(* regex_set.matches(&query) : all matching forms (query_router.rs:236) *)
Fixpoint matches_of (fs : list form) (s : list N) : list (cmd * list N) :=
  match fs with
  | [] => []
  | f :: fs' => match recog f s with
                | Some a => (f_cmd f, a) :: matches_of fs' s
                | None => matches_of fs' s
                end
  end.

(* matches.len() != 1 => None (query_router.rs:240) *)
Definition classify (s : list N) : option (cmd * list N) :=
  match matches_of forms s with
  | [x] => Some x
  | _ => None
  end.

(* ------------------------------------------------------------------ the Query message *)
Inductive outcome (A : Type) := Ok (a : A) | Panic.
Arguments Ok {A}. Arguments Panic {A}.

Fixpoint until_nul (s : list N) : list N * bool :=     (* bytes before the first NUL; was one found *)
  match s with
  | [] => ([], false)
  | b :: r => if b =? 0 then ([], true) else let (x, f) := until_nul r in (b :: x, f)
  end.

(* messages.rs:749-755: read_until(0) then buf[..buf.len()-1]; an empty body underflows *)
Definition query_of_body (body : list N) : outcome (list N) :=
  match body with
  | [] => Panic
  | _ => let (q, found) := until_nul body in
         if found then Ok q else Ok (removelast q)
  end.

(* query_router.rs:163-254 without comment routing configured: only 'Q' is looked at *)
Definition classify_msg (code : N) (body : list N) : outcome (option (cmd * list N)) :=
  if code =? 81 then
    match query_of_body body with
    | Panic => Panic
    | Ok q => Ok (classify q)
    end
  else Ok None.

(* ------------------------------------------------------------------ numbers *)
Definition num_of (ds : list N) : N := fold_left (fun acc d => acc * 10 + (d - 48)) ds 0.

Definition i64_max : N := 9223372036854775807.
Definition usize_max : N := 18446744073709551615.

(* str::parse::<i64>() on a digits-only string: by value, any number of leading zeros *)
Definition parse_i64 (ds : list N) : option N :=
  let v := num_of ds in if v <=? i64_max then Some v else None.
(* value.parse::<usize>().unwrap_or(usize::MAX)  (query_router.rs:316) *)
Definition parse_usize_or_max (ds : list N) : N :=
  let v := num_of ds in if v <=? usize_max then v else usize_max.

Fixpoint dec_aux (fuel : nat) (n : N) : list N :=
  match fuel with
  | O => []
  | S f => if n <? 10 then [48 + n] else dec_aux f (n / 10) ++ [48 + n mod 10]
  end.
(* usize::to_string *)
Definition dec (n : N) : list N := dec_aux (S (N.to_nat (N.log2 n))) n.

Fixpoint list_eqb (a b : list N) : bool :=
  match a, b with
  | [], [] => true
  | x :: a', y :: b' => (x =? y) && list_eqb a' b'
  | _, _ => false
  end.

(* ------------------------------------------------------------------ router state *)
Inductive role := Primary | Replica | Mirror.
Definition role_name (r : role) : list N :=
  match r with Primary => B "primary" | Replica => B "replica" | Mirror => B "mirror" end.

(* QueryRouter fields (query_router.rs:87-105) that commands read or write *)
Record rstate := mkSt { st_shard : option N; st_role : option role;
                        st_parser : option bool; st_preads : option bool }.
(* PoolSettings fields consulted, pool.shards() *)
Record env := mkEnv { e_shards : N; e_default_role : option role; e_parser : bool; e_preads : bool }.

(* QueryRouter::new + update_pool_settings + set_default_role (client.rs:860,885-886) *)
Definition init (e : env) : rstate := mkSt None (e_default_role e) None None.

Definition parser_enabled (e : env) (st : rstate) : bool :=
  match st_parser st with Some v => v | None => e_parser e end.       (* :1275-1293 *)
Definition preads_enabled (e : env) (st : rstate) : bool :=
  match st_preads st with Some v => v | None => e_preads e end.       (* :1295-1300 *)

Definition set_shard (st : rstate) (s : option N) : rstate :=
  mkSt s (st_role st) (st_parser st) (st_preads st).

(* SET PRIMARY READS: value.to_ascii_lowercase() (query_router.rs:352-366) *)
Definition preads_of_arg (st : rstate) (a : list N) : rstate :=
  let l := map lower a in
  if list_eqb l (B "on") then mkSt (st_shard st) (st_role st) (st_parser st) (Some true)
  else if list_eqb l (B "off") then mkSt (st_shard st) (st_role st) (st_parser st) (Some false)
  else if list_eqb l (B "default") then mkSt (st_shard st) (st_role st) (st_parser st) None
  else st.

(* SET SERVER ROLE: value.to_ascii_lowercase() (query_router.rs:320-350) *)
Definition role_of_arg (e : env) (st : rstate) (a : list N) : rstate :=
  let l := map lower a in
  if list_eqb l (B "primary") then mkSt (st_shard st) (Some Primary) (Some false) (st_preads st)
  else if list_eqb l (B "replica") then mkSt (st_shard st) (Some Replica) (Some false) (st_preads st)
  else if list_eqb l (B "any") then mkSt (st_shard st) None (Some false) (st_preads st)
  else if list_eqb l (B "auto") then mkSt (st_shard st) None (Some true) (st_preads st)
  else if list_eqb l (B "default") then mkSt (st_shard st) (e_default_role e) None (st_preads st)
  else st.   (* unreachable!() in the code: the regex admits only the five words *)

(** try_execute_command from line 256 on.  [oracle] is the value the environment chose:
    Sharder::shard(key) for SET SHARDING KEY, rand::random::<usize>() % shards for
    SET SHARD TO ANY (both < shards); unused otherwise. *)
Definition texec (e : env) (st : rstate) (c : cmd) (a : list N) (oracle : N) : rstate * (cmd * list N) :=
  match c with
  | SetShardingKey =>
      match parse_i64 a with
      | Some _ => (set_shard st (Some oracle), (SetShardingKey, dec oracle))      (* :303-306 *)
      | None => (st, (InvalidShardingKey, a))                                     (* :307 *)
      end
  | SetShard =>
      if list_eqb (map upper a) (B "ANY") then (set_shard st (Some oracle), (SetShard, a))   (* :313 *)
      else (set_shard st (Some (parse_usize_or_max a)), (SetShard, a))                       (* :316 *)
  | ShowShard =>
      (st, (ShowShard, match st_shard st with None => B "unset" | Some x => dec x end))      (* :275-277 *)
  | SetServerRole => (role_of_arg e st a, (SetServerRole, a))
  | ShowServerRole =>
      (st, (ShowServerRole,
            match st_role st with
            | Some r => role_name r
            | None => if parser_enabled e st then B "auto" else B "any"
            end))                                                                             (* :278-289 *)
  | SetPrimaryReads => (preads_of_arg st a, (SetPrimaryReads, a))
  | ShowPrimaryReads => (st, (ShowPrimaryReads, if preads_enabled e st then B "on" else B "off"))
  | InvalidShardingKey => (st, (InvalidShardingKey, a))
  end.

Inductive reply :=
| ROk (tag : list N)                 (* custom_protocol_response_ok : C Z *)
| RShow (name value : list N)        (* show_response : T D C Z *)
| RErr (msg : list N)                (* error_response : E Z *)
| RNoReply.                          (* client.rs:1675 `None => {}` : nothing is written *)

Definition dbg_opt (o : option N) : list N :=     (* {:?} of Option<usize> *)
  match o with None => B "None" | Some x => B "Some(" ++ dec x ++ B ")" end.

Definition msg_bad_shard (sel n : N) (cur : option N) : list N :=   (* client.rs:1683-1688 *)
  B "shard " ++ dec sel ++ B " is not configured " ++ dec n ++ B ", staying on shard " ++ dbg_opt cur
    ++ B " (shard numbers start at 0)".
Definition msg_bad_key (v : list N) : list N :=                     (* client.rs:1713 *)
  B "sharding key " ++ v ++ B " is out of range for bigint".

(** Client::handle_custom_protocol for a recognised command (client.rs:1665-1739):
    transcribed, not callable at library level (private async method of Client). *)
Definition handle (e : env) (st : rstate) (c : cmd) (a : list N) (oracle : N) : rstate * reply :=
  let cur := st_shard st in
  let '(st1, (c1, v)) := texec e st c a oracle in
  match c1 with
  | SetShard =>
      match st_shard st1 with
      | None => (st1, RNoReply)
      | Some sel =>
          if e_shards e <=? sel
          then (set_shard st1 cur, RErr (msg_bad_shard sel (e_shards e) cur))
          else (st1, ROk (B "SET SHARD"))
      end
  | SetPrimaryReads => (st1, ROk (B "SET PRIMARY READS"))
  | SetShardingKey => (st1, ROk (B "SET SHARDING KEY"))
  | InvalidShardingKey => (st1, RErr (msg_bad_key v))
  | SetServerRole => (st1, ROk (B "SET SERVER ROLE"))
  | ShowServerRole => (st1, RShow (B "server role") v)
  | ShowShard => (st1, RShow (B "shard") v)
  | ShowPrimaryReads => (st1, RShow (B "primary reads") v)
  end.

Definition input := (cmd * list N * N)%type.        (* recognised command, capture, oracle *)

Fixpoint run (e : env) (st : rstate) (l : list input) : rstate * list reply :=
  match l with
  | [] => (st, [])
  | (c, a, o) :: l' =>
      let (st1, r) := handle e st c a o in
      let (st2, rs) := run e st1 l' in (st2, r :: rs)
  end.

(** Everything a session meets that is NOT one of the seven commands: ordinary statements and
    whole transactions, an admin RELOAD (file unchanged, or its pool rebuilt with other
    settings), PAUSE / RESUME, a checkout that is refused.  client.rs:961-966 refreshes the
    router's copy of the pool settings for every message (`pool = current;
    update_pool_settings(&pool.settings)`): [e'] = the settings in force afterwards (= the old
    ones unless a RELOAD rebuilt the pool).  Nothing else of the router is written on these
    paths (query_parser_read_write_splitting aside, which is C05): the command state stays. *)
Inductive event := EvCmd (c : cmd) (a : list N) (o : N) | EvOther (e' : env).

Fixpoint run_ev (e : env) (st : rstate) (l : list event) : env * rstate * list reply :=
  match l with
  | [] => (e, st, [])
  | EvCmd c a o :: l' =>
      let (st1, r) := handle e st c a o in
      let '(e2, st2, rs) := run_ev e st1 l' in (e2, st2, r :: rs)
  | EvOther e' :: l' => run_ev e' st l'
  end.

Fixpoint cmds_of (l : list event) : list input :=
  match l with
  | [] => []
  | EvCmd c a o :: l' => (c, a, o) :: cmds_of l'
  | EvOther _ :: l' => cmds_of l'
  end.

(* a whole simple-protocol message: Some reply = handled by the pooler (never forwarded);
   None = not a command, the message goes on to the server untouched *)
Definition on_query (e : env) (st : rstate) (q : list N) (oracle : N) : rstate * option reply :=
  match classify q with
  | Some (c, a) => let (st1, r) := handle e st c a oracle in (st1, Some r)
  | None => (st, None)
  end.

(* ------------------------------------------------------------------ reply bytes *)
Definition be32 (n : N) : list N :=       (* BufMut::put_i32 of (n as i32), two's complement *)
  [ (n / 16777216) mod 256; (n / 65536) mod 256; (n / 256) mod 256; n mod 256 ].
Definition be16 (n : N) : list N := [ (n / 256) mod 256; n mod 256 ].
Definition len32 (l : list N) : N := N.of_nat (length l).

Definition frame (tag : N) (body : list N) : list N := tag :: be32 (len32 body + 4) ++ body.

Definition enc_rfq : list N := frame 90 [73].                              (* 'Z' 5 'I' *)
Definition enc_cc (tag : list N) : list N := frame 67 (tag ++ [0]).        (* 'C' *)
Definition rowdesc_fixed : list N :=
  be32 0 ++ be16 0 ++ be32 25 ++ be16 65535 ++ be32 4294967295 ++ be16 0.
  (* table oid 0, column 0, type oid 25 (text), typlen -1, typmod -1, format 0 *)
Definition enc_rowdesc (name : list N) : list N := frame 84 (be16 1 ++ name ++ [0] ++ rowdesc_fixed).
Definition enc_datarow (v : list N) : list N := frame 68 (be16 1 ++ be32 (len32 v) ++ v).
Definition err_fixed : list N := B "SFATAL" ++ [0] ++ B "VFATAL" ++ [0] ++ B "C58000" ++ [0] ++ B "M".
Definition enc_err (m : list N) : list N := frame 69 (err_fixed ++ m ++ [0; 0]).

Definition encode (r : reply) : list N :=
  match r with
  | ROk tag => enc_cc tag ++ enc_rfq
  | RShow name v => enc_rowdesc name ++ enc_datarow v ++ enc_cc (B "SELECT 1") ++ enc_rfq
  | RErr m => enc_err m ++ enc_rfq
  | RNoReply => []
  end.

(* --- an independent reader of the reply stream (what a PostgreSQL client does) --- *)
Inductive pstate :=
| PHdr (done : list (N * list N)) (hdr : list N)                       (* header bytes so far, reversed *)
| PBody (done : list (N * list N)) (tag : N) (remaining : N) (acc : list N)     (* acc reversed *)
| PBad.

Definition dec32 (b3 b2 b1 b0 : N) : N := ((b3 * 256 + b2) * 256 + b1) * 256 + b0.

Definition pstep (st : pstate) (b : N) : pstate :=
  match st with
  | PBad => PBad
  | PHdr done hdr =>
      match hdr with
      | [b1; b2; b3; t] =>          (* b is the last length byte *)
          let len := dec32 b3 b2 b1 b in
          if len <? 4 then PBad
          else if len =? 4 then PHdr (done ++ [(t, [])]) []
          else PBody done t (len - 4) []
      | _ => PHdr done (b :: hdr)
      end
  | PBody done t rem acc =>
      if rem =? 0 then PBad
      else if rem =? 1 then PHdr (done ++ [(t, rev (b :: acc))]) []
      else PBody done t (rem - 1) (b :: acc)
  end.

Definition parse_frames (bs : list N) : option (list (N * list N)) :=
  match fold_left pstep bs (PHdr [] []) with
  | PHdr done [] => Some done
  | _ => None
  end.

Fixpoint split_nul (s : list N) : option (list N * list N) :=
  match s with
  | [] => None
  | b :: r => if b =? 0 then Some ([], r)
              else match split_nul r with Some (x, y) => Some (b :: x, y) | None => None end
  end.

Definition dec_cstr_only (body : list N) : option (list N) :=
  match split_nul body with Some (s, []) => Some s | _ => None end.

Definition dec_rowdesc (body : list N) : option (list N) :=
  match strip_prefix (be16 1) body with
  | Some r => match split_nul r with
              | Some (name, rest) => if list_eqb rest rowdesc_fixed then Some name else None
              | None => None
              end
  | None => None
  end.

Definition dec_datarow (body : list N) : option (list N) :=
  match strip_prefix (be16 1) body with
  | Some (b3 :: b2 :: b1 :: b0 :: v) => if dec32 b3 b2 b1 b0 =? len32 v then Some v else None
  | _ => None
  end.

Definition dec_err (body : list N) : option (list N) :=
  match strip_prefix err_fixed body with
  | Some r => match split_nul r with Some (m, [0]) => Some m | _ => None end
  | None => None
  end.

Definition decode_reply (bs : list N) : option reply :=
  match parse_frames bs with
  | Some [(67, c); (90, [73])] =>
      match dec_cstr_only c with Some tag => Some (ROk tag) | None => None end
  | Some [(84, t); (68, d); (67, c); (90, [73])] =>
      match dec_rowdesc t, dec_datarow d, dec_cstr_only c with
      | Some name, Some v, Some sel => if list_eqb sel (B "SELECT 1") then Some (RShow name v) else None
      | _, _, _ => None
      end
  | Some [(69, x); (90, [73])] =>
      match dec_err x with Some m => Some (RErr m) | None => None end
  | _ => None
  end.

Definition ends_with_rfq (bs : list N) : bool :=
  match parse_frames bs with
  | Some fs => match rev fs with (90, [73]) :: _ => true | _ => false end
  | None => false
  end.

(* ------------------------------------------------------------------ observations for the correspondence *)
Definition cmd_index (c : cmd) : N :=
  match c with
  | SetShardingKey => 0 | SetShard => 1 | ShowShard => 2 | SetServerRole => 3 | ShowServerRole => 4
  | SetPrimaryReads => 5 | ShowPrimaryReads => 6 | InvalidShardingKey => 7
  end.
Definition obs_classify (s : list N) : N * list N :=
  match classify s with Some (c, a) => (cmd_index c, a) | None => (99, []) end.
Definition obs_classify_msg (code : N) (body : list N) : N * list N :=
  match classify_msg code body with
  | Panic => (98, [])
  | Ok (Some (c, a)) => (cmd_index c, a)
  | Ok None => (99, [])
  end.
Definition role_index (r : option role) : N :=
  match r with None => 0 | Some Primary => 1 | Some Replica => 2 | Some Mirror => 3 end.
Definition obs_state (e : env) (st : rstate) : option N * N * bool * bool :=
  (st_shard st, role_index (st_role st), parser_enabled e st, preads_enabled e st).

(* one session of raw query texts with the environment's choices; per step:
   (try_execute_command's result, state after it, reply bytes, state after the glue) *)
Fixpoint session_obs (e : env) (st : rstate) (l : list (list N * N))
  : list ((N * list N) * (option N * N * bool * bool) * list N * (option N * N * bool * bool)) :=
  match l with
  | [] => []
  | (q, o) :: l' =>
      match classify q with
      | None => ((99, []), obs_state e st, [], obs_state e st) :: session_obs e st l'
      | Some (c, a) =>
          let '(st1, (c1, v)) := texec e st c a o in
          let '(st2, r) := handle e st c a o in
          ((cmd_index c1, v), obs_state e st1, encode r, obs_state e st2) :: session_obs e st2 l'
      end
  end.

(* the same with events that are not commands in between: [Some e'] = the settings in force
   from this step on (a RELOAD rebuilt the pool), [None] = unchanged *)
Fixpoint session_obs_ev (e : env) (st : rstate) (l : list (option env * (list N * N)))
  : list ((N * list N) * (option N * N * bool * bool) * list N * (option N * N * bool * bool)) :=
  match l with
  | [] => []
  | (oe, (q, o)) :: l' =>
      let e1 := match oe with Some e' => e' | None => e end in
      match classify q with
      | None => ((99, []), obs_state e1 st, [], obs_state e1 st) :: session_obs_ev e1 st l'
      | Some (c, a) =>
          let '(st1, (c1, v)) := texec e1 st c a o in
          let '(st2, r) := handle e1 st c a o in
          ((cmd_index c1, v), obs_state e1 st1, encode r, obs_state e1 st2) :: session_obs_ev e1 st2 l'
      end
  end.
